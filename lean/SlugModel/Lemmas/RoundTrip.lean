import SlugModel.Lemmas.PackInv
import SlugModel.Spec.Untar
/-!
# Lemmas/RoundTrip — the Pack half of the round trip (C02)

`srcNode fs root r` is the abstract tree of a source directory: what lies at the relative path `r`
below the physical directory `root`, reachable through real directories, with the permission bits
and the rounded time the archive records.  The file shows that the sequential reading `untar`
(Spec/Untar) of the entry list `Pack` emits is exactly that tree.

* `RtListing`, `rt_untar_listing`: `untar` on the entries (`rtEntry`) of a *listing* — each path
  once, parents first — yields each listed node, converted by `rtConv`, and nothing else
  (`RtInv` is the invariant of the fold, `rt_applyDeferred` the deferred directory metadata);
* `rtRaw`, `srcNode`, `rt_readdir_spec`, `rt_readdir_sorted`, `rt_resolve_phys`: the filesystem side;
* `RtCtx` (the hypotheses), `rt_visit` (the callback), `RtSub` (listing of a region of the tree) and
  `rt_walk`: the walk emits, in name-sorted pre-order, a listing of the reachable non-special
  nodes, unless its fuel is below two units per binding (`rtCnt`);
* `rt_pack_listing`, `rt_pack_fuel`, `rt_pack_untar`, `rt_pack_preorder`, `rt_pack_wellFormed`: the
  statements for `pack`;
* `rt_pack_names`, `rt_pathRel_sub`: for arbitrary options, entry names are non-empty results of
  `filepath.Rel` (directories with a final `/`) and types are the three supported ones;
* finite checks (`rtPhysCheck`, `rtLinksCheck`, `rtTidyCheck`) for closed examples.
-/
namespace Slug

/-! ## proper prefixes -/

theorem rt_mem_properPrefixes (p q : RelPath) :
    q ∈ properPrefixes p ↔ ∃ i, 0 < i ∧ i < p.length ∧ p.take i = q := by
  cases p with
  | nil => simp [properPrefixes]
  | cons a l =>
    simp only [properPrefixes, List.mem_filterMap, List.mem_range]
    constructor
    · rintro ⟨i, hi, h⟩
      split at h
      · cases h
      · rename_i h0
        cases h
        exact ⟨i, Nat.pos_of_ne_zero h0, hi, rfl⟩
    · rintro ⟨i, h0, hi, h⟩
      refine ⟨i, hi, ?_⟩
      rw [if_neg (by omega), h]

theorem rt_properPrefixes_spec {p q : RelPath} (h : q ∈ properPrefixes p) :
    q ≠ [] ∧ q <+: p ∧ q.length < p.length := by
  obtain ⟨i, h0, hi, e⟩ := (rt_mem_properPrefixes p q).1 h
  subst e
  refine ⟨?_, List.take_prefix _ _, ?_⟩
  · intro e
    have h1 : (List.take i p).length = 0 := by rw [e]; rfl
    rw [List.length_take] at h1
    omega
  · rw [List.length_take]; omega

theorem rt_properPrefixes_of {p q : RelPath} (h1 : q ≠ []) (h2 : q <+: p) (h3 : q.length < p.length) :
    q ∈ properPrefixes p := by
  rw [rt_mem_properPrefixes]
  refine ⟨q.length, ?_, h3, ?_⟩
  · cases q with
    | nil => exact absurd rfl h1
    | cons a l => simp
  · exact (List.prefix_iff_eq_take.mp h2).symm

/-! ## abstract trees -/

theorem rt_treeGet_set (t : Tree) (p q : RelPath) (n : Node) :
    treeGet (treeSet t p n) q = if p = q then some n else treeGet t q := by
  simp [treeGet, treeSet, FS.get]

/-- `t'` is `t` up to the times (and modes) of directories -/
def RtShape (t t' : Tree) : Prop :=
  ∀ q, treeGet t' q = treeGet t q ∨
    ((∃ pm mt, treeGet t q = some (.dir pm mt)) ∧ ∃ pm mt, treeGet t' q = some (.dir pm mt))

theorem rt_touchParent_shape (t : Tree) (p : RelPath) : RtShape t (touchParent t p) := by
  intro q
  unfold touchParent
  split
  · rename_i perm mt hp
    split
    · exact Or.inl rfl
    · rw [rt_treeGet_set]
      by_cases hq : p.dropLast = q
      · subst hq
        exact Or.inr ⟨⟨perm, mt, hp⟩, ⟨perm, nowT, by simp⟩⟩
      · exact Or.inl (by simp [hq])
  · exact Or.inl rfl

theorem rt_mkParents_id (t : Tree) (p : RelPath)
    (h : ∀ q ∈ properPrefixes p, ∃ n, treeGet t q = some n) : mkParents t p = t := by
  unfold mkParents
  generalize properPrefixes p = l at h
  induction l with
  | nil => rfl
  | cons q l ih =>
    obtain ⟨n, hn⟩ := h q (by simp)
    simp only [List.foldl_cons, hn]
    exact ih (fun q' hq' => h q' (List.mem_cons_of_mem _ hq'))

/-! ## the entries of a listing -/

/-- what a source node becomes in the archive (and after extraction) -/
def rtConv : Node → Option Node
  | .dir perm mt => some (.dir (perm &&& 0o777) (roundSec mt))
  | .file perm mt c => some (.file (perm &&& 0o777) (roundSec mt) c)
  | .link t => some (.link t)
  | .special => none

/-- the entry `packWalkFn` writes for the node `nd` found at the relative path `r` (nothing is
written for a special file; the last case is never used) -/
def rtEntry (r : RelPath) : Node → Entry
  | .dir perm mt =>
    { name := joinWith '/' r ++ ['/'], typ := tDir, mode := perm &&& 0o777, mtime := roundSec mt, link := [], body := [] }
  | .file perm mt c =>
    { name := joinWith '/' r, typ := tReg, mode := perm &&& 0o777, mtime := roundSec mt, link := [], body := c }
  | .link t =>
    { name := joinWith '/' r, typ := tSymlink, mode := 0o777, mtime := 0, link := t, body := [] }
  | .special =>
    { name := joinWith '/' r, typ := tXHeader, mode := 0, mtime := 0, link := [], body := [] }

def rtEntryP (x : RelPath × Node) : Entry := rtEntry x.1 x.2

theorem rt_pkSeg_of_nameNS {c : Seg} (h : NameNS c) : PkSeg c := ⟨h.2, h.1.1, h.1.2.1⟩

theorem rt_pathSegs_joinWith (r : RelPath) (hr : ∀ c ∈ r, NameNS c) : pathSegs (joinWith '/' r) = r :=
  pk_pathSegs_joinWith r (fun c hc => rt_pkSeg_of_nameNS (hr c hc))

theorem rt_joinWith_ne_nil (r : RelPath) (hne : r ≠ []) (hr : ∀ c ∈ r, NameNS c) : joinWith '/' r ≠ [] := by
  intro e
  have := rt_pathSegs_joinWith r hr
  rw [e] at this
  exact hne (this.symm.trans ps_pathSegs_nil)

theorem rt_entryRel_rtEntry (r : RelPath) (nd : Node) (hr : ∀ c ∈ r, NameNS c) :
    entryRel (rtEntry r nd).name = r := by
  unfold entryRel
  cases nd with
  | dir perm mt =>
    show pathSegs (joinWith '/' r ++ ['/']) = r
    rw [pathSegs_append_sep, rt_pathSegs_joinWith r hr, ps_pathSegs_nil, List.append_nil]
  | file perm mt c => exact rt_pathSegs_joinWith r hr
  | link t => exact rt_pathSegs_joinWith r hr
  | special => exact rt_pathSegs_joinWith r hr

theorem rt_rtEntry_name_ne_nil (r : RelPath) (nd : Node) (hne : r ≠ []) (hr : ∀ c ∈ r, NameNS c) :
    (rtEntry r nd).name ≠ [] := by
  cases nd with
  | dir perm mt => show joinWith '/' r ++ ['/'] ≠ []; simp
  | file perm mt c => exact rt_joinWith_ne_nil r hne hr
  | link t => exact rt_joinWith_ne_nil r hne hr
  | special => exact rt_joinWith_ne_nil r hne hr

/-- the deferred directory record of a listed node -/
def rtDefer : RelPath × Node → Option (RelPath × Nat × Int)
  | (r, .dir perm mt) => some (r, perm &&& 0o777, roundSec mt)
  | _ => none

/-- the state of `untar` after reading the entries of `pre` -/
structure RtInv (pre : List (RelPath × Node)) (st : UntarState) : Prop where
  fresh : ∀ r, r ∉ pre.map (·.1) → r ≠ [] → treeGet st.tree r = none
  dirs : ∀ r perm mt, (r, Node.dir perm mt) ∈ pre → ∃ pm t, treeGet st.tree r = some (.dir pm t)
  leaves : ∀ r nd, (r, nd) ∈ pre → (∀ perm mt, nd ≠ .dir perm mt) → treeGet st.tree r = rtConv nd
  deferred : st.deferred = pre.filterMap rtDefer

theorem rt_shape_fresh {t t' : Tree} (h : RtShape t t') {q : RelPath} (hq : treeGet t q = none) :
    treeGet t' q = none := by
  rcases h q with e | ⟨⟨pm, mt, e⟩, _⟩
  · rw [e, hq]
  · rw [hq] at e; cases e

theorem rt_shape_dir {t t' : Tree} (h : RtShape t t') {q : RelPath} (hq : ∃ pm mt, treeGet t q = some (.dir pm mt)) :
    ∃ pm mt, treeGet t' q = some (.dir pm mt) := by
  rcases h q with e | ⟨_, e⟩
  · rw [e]; exact hq
  · exact e

theorem rt_shape_leaf {t t' : Tree} (h : RtShape t t') {q : RelPath} {x : Option Node}
    (hq : treeGet t q = x) (hx : ∀ pm mt, x ≠ some (.dir pm mt)) : treeGet t' q = x := by
  rcases h q with e | ⟨⟨pm, mt, e⟩, _⟩
  · rw [e, hq]
  · rw [hq] at e; exact absurd e (hx pm mt)

theorem rt_conv_not_dir_of {nd : Node} (h : ∀ perm mt, nd ≠ .dir perm mt) :
    ∀ pm mt, rtConv nd ≠ some (.dir pm mt) := by
  intro pm mt
  cases nd with
  | dir perm mt' => exact absurd rfl (h perm mt')
  | file perm mt' c => simp [rtConv]
  | link t => simp [rtConv]
  | special => simp [rtConv]

/-! ## one entry of a listing read by `untar` -/

theorem rt_untarEntry_dir (st : UntarState) (r : RelPath) (perm : Nat) (mt : Int)
    (hr : r ≠ []) (hnames : ∀ c ∈ r, NameNS c) (hmk : mkParents st.tree r = st.tree)
    (hnone : treeGet st.tree r = none) :
    untarEntry st (rtEntry r (.dir perm mt)) =
      some { tree := treeSet (touchParent st.tree r) r (.dir 0o755 nowT),
             deferred := st.deferred ++ [(r, perm &&& 0o777, roundSec mt)] } := by
  have hname := rt_rtEntry_name_ne_nil r (.dir perm mt) hr hnames
  have hrel := rt_entryRel_rtEntry r (.dir perm mt) hnames
  have h1 : (rtEntry r (.dir perm mt)).isDir = true := rfl
  have h2 : (rtEntry r (.dir perm mt)).isSymlink = false := rfl
  have h3 : (rtEntry r (.dir perm mt)).isTypeX = false := rfl
  unfold untarEntry
  simp only [hname, hrel, h1, h2, h3, hr, hmk, hnone, if_false, Bool.true_or, Bool.not_true, Bool.false_eq_true,
    if_true]
  rfl

theorem rt_untarEntry_file (st : UntarState) (r : RelPath) (perm : Nat) (mt : Int) (c : Str)
    (hr : r ≠ []) (hnames : ∀ c ∈ r, NameNS c) (hmk : mkParents st.tree r = st.tree)
    (hnone : treeGet st.tree r = none) :
    untarEntry st (rtEntry r (.file perm mt c)) =
      some { tree := treeSet (touchParent st.tree r) r (.file (perm &&& 0o777) (roundSec mt) c),
             deferred := st.deferred } := by
  have hname := rt_rtEntry_name_ne_nil r (.file perm mt c) hr hnames
  have hrel := rt_entryRel_rtEntry r (.file perm mt c) hnames
  have h1 : (rtEntry r (.file perm mt c)).isDir = false := rfl
  have h2 : (rtEntry r (.file perm mt c)).isSymlink = false := rfl
  have h3 : (rtEntry r (.file perm mt c)).isTypeX = false := rfl
  have h4 : (rtEntry r (.file perm mt c)).isRegular = true := rfl
  unfold untarEntry
  simp only [hname, hrel, h1, h2, h3, h4, hr, hmk, hnone, if_false, Bool.or_true, Bool.not_true,
    Bool.false_eq_true, Bool.or_false]
  rfl

theorem rt_untarEntry_link (st : UntarState) (r : RelPath) (t : Str)
    (hr : r ≠ []) (hnames : ∀ c ∈ r, NameNS c) (hmk : mkParents st.tree r = st.tree) :
    untarEntry st (rtEntry r (.link t)) =
      some { tree := treeSet (touchParent st.tree r) r (.link t), deferred := st.deferred } := by
  have hname := rt_rtEntry_name_ne_nil r (.link t) hr hnames
  have hrel := rt_entryRel_rtEntry r (.link t) hnames
  have h1 : (rtEntry r (.link t)).isDir = false := rfl
  have h2 : (rtEntry r (.link t)).isSymlink = true := rfl
  have h3 : (rtEntry r (.link t)).isTypeX = false := rfl
  unfold untarEntry
  simp only [hname, hrel, h1, h2, h3, hr, hmk, if_false, Bool.true_or, Bool.or_true, Bool.not_true,
    Bool.false_eq_true, if_true, Bool.or_false]
  rfl


theorem rt_inv_step (pre : List (RelPath × Node)) (st : UntarState) (r : RelPath) (nd : Node)
    (hinv : RtInv pre st) (hr : r ≠ []) (hnames : ∀ c ∈ r, NameNS c) (hns : nd ≠ .special)
    (hfresh : r ∉ pre.map (·.1))
    (hpar : ∀ q ∈ properPrefixes r, ∃ perm mt, (q, Node.dir perm mt) ∈ pre) :
    ∃ st', untarEntry st (rtEntry r nd) = some st' ∧ RtInv (pre ++ [(r, nd)]) st' := by
  have hmk : mkParents st.tree r = st.tree := by
    apply rt_mkParents_id
    intro q hq
    obtain ⟨perm, mt, hm⟩ := hpar q hq
    obtain ⟨pm, t, h⟩ := hinv.dirs q perm mt hm
    exact ⟨_, h⟩
  have hnone : treeGet st.tree r = none := hinv.fresh r hfresh hr
  have hsh := rt_touchParent_shape st.tree r
  -- the three cases share the shape of the new tree: `touchParent`, then one new binding at `r`
  have key : ∀ (x : Node) (d : List (RelPath × Nat × Int)),
      (∀ perm mt, nd = .dir perm mt → ∃ pm t, x = .dir pm t) →
      ((∀ perm mt, nd ≠ .dir perm mt) → some x = rtConv nd) →
      d = (pre ++ [(r, nd)]).filterMap rtDefer →
      RtInv (pre ++ [(r, nd)]) { tree := treeSet (touchParent st.tree r) r x, deferred := d } := by
    intro x d hxd hxl hd
    refine ⟨?_, ?_, ?_, hd⟩
    · intro q hq hqne
      have hq1 : q ∉ pre.map (·.1) := fun h => hq (by simp only [List.map_append, List.mem_append]; exact Or.inl h)
      have hq2 : r ≠ q := fun e => hq (by simp [e])
      show treeGet (treeSet _ r x) q = none
      rw [rt_treeGet_set, if_neg hq2]
      exact rt_shape_fresh hsh (hinv.fresh q hq1 hqne)
    · intro q perm mt hm
      show ∃ pm t, treeGet (treeSet _ r x) q = some (.dir pm t)
      rw [rt_treeGet_set]
      rcases List.mem_append.mp hm with h | h
      · have hq2 : r ≠ q := fun e => hfresh (by rw [e]; exact List.mem_map.mpr ⟨_, h, rfl⟩)
        rw [if_neg hq2]
        exact rt_shape_dir hsh (hinv.dirs q perm mt h)
      · simp only [List.mem_singleton, Prod.mk.injEq] at h
        rw [if_pos h.1.symm]
        obtain ⟨pm, t, e⟩ := hxd perm mt h.2.symm
        exact ⟨pm, t, by rw [e]⟩
    · intro q n hm hnd
      show treeGet (treeSet _ r x) q = rtConv n
      rw [rt_treeGet_set]
      rcases List.mem_append.mp hm with h | h
      · have hq2 : r ≠ q := fun e => hfresh (by rw [e]; exact List.mem_map.mpr ⟨_, h, rfl⟩)
        rw [if_neg hq2]
        exact rt_shape_leaf hsh (hinv.leaves q n h hnd) (rt_conv_not_dir_of hnd)
      · simp only [List.mem_singleton, Prod.mk.injEq] at h
        rw [if_pos h.1.symm]
        rw [h.2] at hnd ⊢
        exact hxl hnd
  cases nd with
  | special => exact absurd rfl hns
  | dir perm mt =>
    refine ⟨_, rt_untarEntry_dir st r perm mt hr hnames hmk hnone, ?_⟩
    apply key
    · intro _ _ _; exact ⟨_, _, rfl⟩
    · intro h; exact absurd rfl (h perm mt)
    · rw [List.filterMap_append, hinv.deferred]; rfl
  | file perm mt c =>
    refine ⟨_, rt_untarEntry_file st r perm mt c hr hnames hmk hnone, ?_⟩
    apply key
    · intro _ _ h; cases h
    · intro _; rfl
    · rw [List.filterMap_append, hinv.deferred]; simp [rtDefer]
  | link t =>
    refine ⟨_, rt_untarEntry_link st r t hr hnames hmk, ?_⟩
    apply key
    · intro _ _ h; cases h
    · intro _; rfl
    · rw [List.filterMap_append, hinv.deferred]; simp [rtDefer]

/-- a listing: every path once, under plain names, no special files, every directory before
everything below it -/
structure RtListing (M : List (RelPath × Node)) : Prop where
  names : ∀ x ∈ M, x.1 ≠ [] ∧ (∀ c ∈ x.1, NameNS c) ∧ x.2 ≠ .special
  nodup : (M.map (·.1)).Nodup
  order : ∀ A x B, M = A ++ x :: B → ∀ q ∈ properPrefixes x.1, ∃ perm mt, (q, Node.dir perm mt) ∈ A

theorem rt_untar_fold (M : List (RelPath × Node)) (hM : RtListing M) :
    ∀ (post pre : List (RelPath × Node)) (st : UntarState), M = pre ++ post → RtInv pre st →
      ∃ st', (post.map rtEntryP).foldlM untarEntry st = some st' ∧ RtInv M st' := by
  intro post
  induction post with
  | nil =>
    intro pre st e hinv
    rw [List.append_nil] at e
    subst e
    exact ⟨st, rfl, hinv⟩
  | cons x post ih =>
    intro pre st e hinv
    obtain ⟨h1, h2, h3⟩ := hM.names x (by rw [e]; simp)
    have hfresh : x.1 ∉ pre.map (·.1) := by
      have := hM.nodup
      rw [e, List.map_append, List.map_cons, List.nodup_append] at this
      intro hmem
      exact this.2.2 _ hmem _ (by simp) rfl
    obtain ⟨st1, hs, hinv1⟩ := rt_inv_step pre st x.1 x.2 hinv h1 h2 h3 hfresh (hM.order pre x post e)
    obtain ⟨st', hf, hinv'⟩ := ih (pre ++ [x]) st1 (by rw [e]; simp) hinv1
    refine ⟨st', ?_, hinv'⟩
    rw [List.map_cons, List.foldlM_cons]
    show (untarEntry st (rtEntry x.1 x.2)).bind _ = _
    rw [hs]
    exact hf

/-! ## the deferred directory metadata -/

theorem rt_applyDeferred (D : List (RelPath × Nat × Int)) : ∀ (t : Tree),
    (D.map (·.1)).Nodup → (∀ x ∈ D, ∃ pm mt, treeGet t x.1 = some (.dir pm mt)) →
    (∀ x ∈ D, treeGet (applyDeferred t D) x.1 = some (.dir x.2.1 x.2.2)) ∧
    (∀ q, q ∉ D.map (·.1) → treeGet (applyDeferred t D) q = treeGet t q) := by
  induction D with
  | nil => intro t _ _; exact ⟨fun x hx => (nomatch hx), fun _ _ => rfl⟩
  | cons d D ih =>
    intro t hnd hdir
    obtain ⟨p, mode, mtime⟩ := d
    obtain ⟨pm, mt, hp⟩ := hdir (p, mode, mtime) (by simp)
    have hnd' : (D.map (·.1)).Nodup := (List.nodup_cons.mp hnd).2
    have hpD : p ∉ D.map (·.1) := (List.nodup_cons.mp hnd).1
    have e : applyDeferred t ((p, mode, mtime) :: D) = applyDeferred (treeSet t p (.dir mode mtime)) D := by
      rw [applyDeferred]; simp only [hp]
    rw [e]
    have hdir' : ∀ x ∈ D, ∃ pm mt, treeGet (treeSet t p (.dir mode mtime)) x.1 = some (.dir pm mt) := by
      intro x hx
      have : p ≠ x.1 := fun e => hpD (by rw [e]; exact List.mem_map.mpr ⟨x, hx, rfl⟩)
      rw [rt_treeGet_set, if_neg this]
      exact hdir x (List.mem_cons_of_mem _ hx)
    obtain ⟨ih1, ih2⟩ := ih _ hnd' hdir'
    constructor
    · intro x hx
      rcases List.mem_cons.mp hx with rfl | hx
      · show treeGet _ p = _
        rw [ih2 p hpD, rt_treeGet_set, if_pos rfl]
      · exact ih1 x hx
    · intro q hq
      simp only [List.map_cons, List.mem_cons, not_or] at hq
      rw [ih2 q hq.2, rt_treeGet_set, if_neg (fun e => hq.1 e.symm)]

theorem rt_defer_fst {x : RelPath × Node} {d : RelPath × Nat × Int} (h : rtDefer x = some d) :
    ∃ perm mt, x = (d.1, Node.dir perm mt) ∧ d = (x.1, perm &&& 0o777, roundSec mt) := by
  obtain ⟨r, nd⟩ := x
  cases nd with
  | dir perm mt => simp only [rtDefer, Option.some.injEq] at h; subst h; exact ⟨perm, mt, rfl, rfl⟩
  | file perm mt c => simp [rtDefer] at h
  | link t => simp [rtDefer] at h
  | special => simp [rtDefer] at h

theorem rt_defer_sublist (M : List (RelPath × Node)) :
    ((M.filterMap rtDefer).map (·.1)).Sublist (M.map (·.1)) := by
  induction M with
  | nil => exact List.Sublist.slnil
  | cons x M ih =>
    rw [List.filterMap_cons]
    split
    · exact List.Sublist.cons _ ih
    · rename_i d hd
      obtain ⟨perm, mt, _, e2⟩ := rt_defer_fst hd
      rw [List.map_cons, List.map_cons, e2]
      exact List.Sublist.cons_cons _ ih

theorem rt_nodup_unique {M : List (RelPath × Node)} (h : (M.map (·.1)).Nodup) {r : RelPath} {a b : Node}
    (ha : (r, a) ∈ M) (hb : (r, b) ∈ M) : a = b := by
  induction M with
  | nil => cases ha
  | cons x M ih =>
    rw [List.map_cons, List.nodup_cons] at h
    rcases List.mem_cons.mp ha with ea | ha' <;> rcases List.mem_cons.mp hb with eb | hb'
    · rw [← ea] at eb; cases eb; rfl
    · exact absurd (List.mem_map.mpr ⟨_, hb', by rw [← ea]⟩) h.1
    · exact absurd (List.mem_map.mpr ⟨_, ha', by rw [← eb]⟩) h.1
    · exact ih h.2 ha' hb'

/-- the state `untar` starts from -/
theorem rt_inv_init : RtInv [] { tree := [([], .dir 0o755 nowT)], deferred := [] } := by
  refine ⟨?_, ?_, ?_, rfl⟩
  · intro r _ hr
    show FS.get [([], Node.dir 0o755 nowT)] r = none
    cases r with
    | nil => exact absurd rfl hr
    | cons a l => simp [FS.get]
  · intro r perm mt h; cases h
  · intro r nd h; cases h

/-- **`untar` on a listing**: each listed path carries its node (permission bits masked, time
rounded — for a directory thanks to the deferred metadata), every other non-empty path is absent -/
theorem rt_untar_listing (M : List (RelPath × Node)) (hM : RtListing M) :
    ∃ t, untar (M.map rtEntryP) = some t ∧
      (∀ r nd, (r, nd) ∈ M → treeGet t r = rtConv nd) ∧
      (∀ r, r ≠ [] → r ∉ M.map (·.1) → treeGet t r = none) := by
  obtain ⟨st, hf, hinv⟩ := rt_untar_fold M hM M [] _ rfl rt_inv_init
  refine ⟨applyDeferred st.tree st.deferred, ?_, ?_, ?_⟩
  · unfold untar; rw [hf]
  all_goals
    have hnd : (st.deferred.map (·.1)).Nodup := by
      rw [hinv.deferred]; exact hM.nodup.sublist (rt_defer_sublist M)
    have hdirs : ∀ x ∈ st.deferred, ∃ pm mt, treeGet st.tree x.1 = some (.dir pm mt) := by
      intro x hx
      rw [hinv.deferred, List.mem_filterMap] at hx
      obtain ⟨y, hy, hd⟩ := hx
      obtain ⟨perm, mt, e1, _⟩ := rt_defer_fst hd
      rw [e1] at hy
      exact hinv.dirs _ perm mt hy
    obtain ⟨hA, hB⟩ := rt_applyDeferred st.deferred st.tree hnd hdirs
  · intro r nd hm
    cases nd with
    | dir perm mt =>
      have : (r, perm &&& 0o777, roundSec mt) ∈ st.deferred := by
        rw [hinv.deferred, List.mem_filterMap]; exact ⟨_, hm, rfl⟩
      exact hA _ this
    | file perm mt c =>
      rw [hB]
      · exact hinv.leaves r _ hm (by intro _ _ h; cases h)
      · intro hmem
        obtain ⟨d, hd, e⟩ := List.mem_map.mp hmem
        rw [hinv.deferred, List.mem_filterMap] at hd
        obtain ⟨y, hy, hyd⟩ := hd
        obtain ⟨perm', mt', e1, _⟩ := rt_defer_fst hyd
        rw [e1, e] at hy
        have := rt_nodup_unique hM.nodup hm hy
        cases this
    | link t =>
      rw [hB]
      · exact hinv.leaves r _ hm (by intro _ _ h; cases h)
      · intro hmem
        obtain ⟨d, hd, e⟩ := List.mem_map.mp hmem
        rw [hinv.deferred, List.mem_filterMap] at hd
        obtain ⟨y, hy, hyd⟩ := hd
        obtain ⟨perm', mt', e1, _⟩ := rt_defer_fst hyd
        rw [e1, e] at hy
        have := rt_nodup_unique hM.nodup hm hy
        cases this
    | special => exact absurd rfl (hM.names _ hm).2.2
  · intro r hr hnm
    rw [hB]
    · exact hinv.fresh r hnm hr
    · intro hmem
      exact hnm ((rt_defer_sublist M).subset (by rw [← hinv.deferred]; exact hmem))

/-! ## the source tree -/

def rtIsDir : Option Node → Bool
  | some (.dir _ _) => true
  | _ => false

theorem rt_isDir_iff (x : Option Node) : rtIsDir x = true ↔ ∃ perm mt, x = some (.dir perm mt) := by
  unfold rtIsDir
  split
  · rename_i perm mt; exact ⟨fun _ => ⟨perm, mt, rfl⟩, fun _ => rfl⟩
  · rename_i h
    constructor
    · intro h'; cases h'
    · rintro ⟨perm, mt, e⟩; exact absurd e (h perm mt)

/-- the node bound at `root ++ r`, provided `r` is not empty and every directory on the way from
`root` down to it is a real directory (what `filepath.Walk`, which does not follow links, reaches) -/
def rtRaw (fs : FS) (root : PPath) (r : RelPath) : Option Node :=
  if r ≠ [] ∧ (properPrefixes r).all (fun q => rtIsDir (fs.get (root ++ q))) = true then fs.get (root ++ r)
  else none

/-- **the abstract tree of a source directory**: below the physical directory `root`, the node at
the relative path `r` as the archive records it — permission bits only, time rounded to the
second, link targets as they are, special files absent -/
def srcNode (fs : FS) (root : PPath) (r : RelPath) : Option Node := (rtRaw fs root r).bind rtConv

theorem rt_raw_some {fs : FS} {P : PPath} {r : RelPath} {nd : Node} :
    rtRaw fs P r = some nd ↔
      r ≠ [] ∧ (∀ q ∈ properPrefixes r, ∃ perm mt, fs.get (P ++ q) = some (.dir perm mt)) ∧
      fs.get (P ++ r) = some nd := by
  unfold rtRaw
  constructor
  · intro h
    split at h
    · rename_i hc
      refine ⟨hc.1, ?_, h⟩
      intro q hq
      exact (rt_isDir_iff _).mp (List.all_eq_true.mp hc.2 q hq)
    · cases h
  · rintro ⟨h1, h2, h3⟩
    rw [if_pos ⟨h1, List.all_eq_true.mpr (fun q hq => (rt_isDir_iff _).mpr (h2 q hq))⟩, h3]

/-- "`rel` is the source root or a real directory reachable from it" -/
def RtDirAt (fs : FS) (P : PPath) (rel : RelPath) : Prop :=
  rel = [] ∨ ∃ perm mt, rtRaw fs P rel = some (.dir perm mt)

theorem rt_prefix_snoc {q rel : RelPath} {n : Str} (h : q <+: rel ++ [n]) (hl : q.length < (rel ++ [n]).length) :
    q <+: rel := by
  rcases List.prefix_concat_iff.mp h with e | h
  · rw [e] at hl; exact absurd hl (Nat.lt_irrefl _)
  · exact h

theorem rt_raw_child {fs : FS} {P : PPath} {rel : RelPath} (n : Str) (hd : RtDirAt fs P rel) :
    rtRaw fs P (rel ++ [n]) = fs.get (P ++ (rel ++ [n])) := by
  unfold rtRaw
  rw [if_pos]
  refine ⟨by simp, List.all_eq_true.mpr ?_⟩
  intro q hq
  rw [rt_isDir_iff]
  obtain ⟨h1, h2, h3⟩ := rt_properPrefixes_spec hq
  have hpre := rt_prefix_snoc h2 h3
  rcases hd with e | ⟨perm, mt, hr⟩
  · subst e
    exact absurd (List.prefix_nil.mp hpre) h1
  · obtain ⟨_, hall, hget⟩ := rt_raw_some.mp hr
    by_cases hl : q.length < rel.length
    · exact hall q (rt_properPrefixes_of h1 hpre hl)
    · have : q = rel := hpre.eq_of_length (by have := hpre.length_le; omega)
      rw [this]; exact ⟨perm, mt, hget⟩

theorem rt_raw_prefix {fs : FS} {P : PPath} {r q : RelPath} {nd : Node} (h : rtRaw fs P r = some nd)
    (hq : q ∈ properPrefixes r) : ∃ perm mt, rtRaw fs P q = some (.dir perm mt) := by
  obtain ⟨_, hall, _⟩ := rt_raw_some.mp h
  obtain ⟨h1, h2, h3⟩ := rt_properPrefixes_spec hq
  obtain ⟨perm, mt, hg⟩ := hall q hq
  refine ⟨perm, mt, rt_raw_some.mpr ⟨h1, ?_, hg⟩⟩
  intro q' hq'
  obtain ⟨g1, g2, g3⟩ := rt_properPrefixes_spec hq'
  exact hall q' (rt_properPrefixes_of g1 (g2.trans h2) (by omega))

theorem rt_get_mem {fs : FS} {p : PPath} {n : Node} (h : fs.get p = some n) : (p, n) ∈ fs := by
  induction fs with
  | nil => cases h
  | cons x fs ih =>
    obtain ⟨q, m⟩ := x
    rw [FS.get] at h
    split at h
    · rename_i e; cases h; rw [e]; simp
    · exact List.mem_cons_of_mem _ (ih h)

theorem rt_mem_get {fs : FS} {p : PPath} {n : Node} (h : (p, n) ∈ fs) : ∃ m, fs.get p = some m := by
  induction fs with
  | nil => cases h
  | cons x fs ih =>
    obtain ⟨q, m⟩ := x
    rw [FS.get]
    split
    · exact ⟨_, rfl⟩
    · rename_i hne
      rcases List.mem_cons.mp h with e | h
      · cases e; exact absurd rfl hne
      · exact ih h

/-! ## `readdir` -/

theorem rt_mem_dedup (l : List Str) : ∀ (init : List Str) (y : Str),
    y ∈ l.foldl (fun acc n => if acc.contains n then acc else acc ++ [n]) init ↔ y ∈ init ∨ y ∈ l := by
  induction l with
  | nil => intro init y; simp
  | cons a l ih =>
    intro init y
    rw [List.foldl_cons, ih]
    by_cases hc : init.contains a = true
    · simp only [hc, if_true, List.mem_cons]
      have : a ∈ init := by simpa using hc
      constructor
      · rintro (h | h)
        · exact Or.inl h
        · exact Or.inr (Or.inr h)
      · rintro (h | h | h)
        · exact Or.inl h
        · exact Or.inl (h ▸ this)
        · exact Or.inr h
    · rw [if_neg hc]
      simp only [List.mem_append, List.mem_cons, List.not_mem_nil, or_false]
      constructor
      · rintro ((h | h) | h)
        · exact Or.inl h
        · exact Or.inr (Or.inl h)
        · exact Or.inr (Or.inr h)
      · rintro (h | h | h)
        · exact Or.inl (Or.inl h)
        · exact Or.inl (Or.inr h)
        · exact Or.inr h

theorem rt_nodup_dedup (l : List Str) : ∀ (init : List Str), init.Nodup →
    (l.foldl (fun acc n => if acc.contains n then acc else acc ++ [n]) init).Nodup := by
  induction l with
  | nil => intro init h; exact h
  | cons a l ih =>
    intro init h
    rw [List.foldl_cons]
    apply ih
    by_cases hc : init.contains a = true
    · simp only [hc, if_true]; exact h
    · rw [if_neg hc]
      have hn : a ∉ init := by simpa using hc
      rw [List.nodup_append]
      refine ⟨h, by simp, ?_⟩
      intro x hx y hy e
      simp only [List.mem_singleton] at hy
      exact hn (by rw [← hy, ← e]; exact hx)

theorem rt_mem_insertSorted (x y : Str) (l : List Str) : y ∈ insertSorted x l ↔ y = x ∨ y ∈ l := by
  induction l with
  | nil => simp [insertSorted]
  | cons a l ih =>
    unfold insertSorted
    split
    · simp
    · simp only [List.mem_cons, ih]
      constructor
      · rintro (h | h | h)
        · exact Or.inr (Or.inl h)
        · exact Or.inl h
        · exact Or.inr (Or.inr h)
      · rintro (h | h | h)
        · exact Or.inr (Or.inl h)
        · exact Or.inl h
        · exact Or.inr (Or.inr h)

theorem rt_nodup_insertSorted (x : Str) (l : List Str) (hx : x ∉ l) (h : l.Nodup) : (insertSorted x l).Nodup := by
  induction l with
  | nil => simp [insertSorted]
  | cons a l ih =>
    unfold insertSorted
    split
    · exact List.nodup_cons.mpr ⟨hx, h⟩
    · rw [List.nodup_cons] at h ⊢
      refine ⟨?_, ih (fun hm => hx (List.mem_cons_of_mem _ hm)) h.2⟩
      rw [rt_mem_insertSorted]
      rintro (e | hm)
      · exact hx (by rw [e]; simp)
      · exact h.1 hm

theorem rt_sorted_spec (l : List Str) (h : l.Nodup) :
    (l.foldr insertSorted []).Nodup ∧ ∀ y, y ∈ l.foldr insertSorted [] ↔ y ∈ l := by
  induction l with
  | nil => simp
  | cons a l ih =>
    rw [List.nodup_cons] at h
    obtain ⟨ih1, ih2⟩ := ih h.2
    rw [List.foldr_cons]
    refine ⟨rt_nodup_insertSorted _ _ (fun hm => h.1 ((ih2 a).mp hm)) ih1, ?_⟩
    intro y
    rw [rt_mem_insertSorted, ih2]; simp

/-- `readdir` lists exactly the names bound directly below `p`, each once -/
theorem rt_readdir_spec (fs : FS) (p : PPath) :
    (fs.readdir p).Nodup ∧ ∀ name, name ∈ fs.readdir p ↔ ∃ nd, fs.get (p ++ [name]) = some nd := by
  unfold FS.readdir
  simp only
  have hnd := rt_nodup_dedup
    (fs.filterMap fun e => if e.1.dropLast = p ∧ e.1 ≠ [] ∧ (fs.get e.1).isSome then e.1.getLast? else none)
    [] List.nodup_nil
  obtain ⟨h1, h2⟩ := rt_sorted_spec _ hnd
  refine ⟨h1, ?_⟩
  intro name
  rw [h2, rt_mem_dedup]
  simp only [List.not_mem_nil, false_or, List.mem_filterMap]
  constructor
  · rintro ⟨e, _, he⟩
    split at he
    · rename_i hc
      obtain ⟨c1, _, c3⟩ := hc
      obtain ⟨ys, hys⟩ := List.getLast?_eq_some_iff.mp he
      rw [hys, List.dropLast_concat] at c1
      rw [← c1, ← hys]
      cases hg : fs.get e.1 with
      | none => rw [hg] at c3; cases c3
      | some nd => exact ⟨nd, rfl⟩
    · cases he
  · rintro ⟨nd, hg⟩
    refine ⟨(p ++ [name], nd), rt_get_mem hg, ?_⟩
    simp [hg]

theorem rt_str_lt_of_not_lt {x y : Str} (h : ¬ x < y) (hne : x ≠ y) : y < x := by
  rcases List.le_iff_lt_or_eq.mp (List.not_lt.mp h) with h' | h'
  · exact h'
  · exact absurd h'.symm hne

theorem rt_sorted_insertSorted (x : Str) (l : List Str) (hx : x ∉ l) (h : l.Pairwise (· < ·)) :
    (insertSorted x l).Pairwise (· < ·) := by
  induction l with
  | nil => simp [insertSorted]
  | cons a l ih =>
    rw [List.pairwise_cons] at h
    unfold insertSorted
    split
    · rename_i hxa
      rw [List.pairwise_cons]
      refine ⟨?_, List.pairwise_cons.mpr h⟩
      intro z hz
      rcases List.mem_cons.mp hz with e | hz
      · rw [e]; exact hxa
      · exact List.lt_trans hxa (h.1 z hz)
    · rename_i hxa
      have hax : a < x := rt_str_lt_of_not_lt hxa (fun e => hx (by rw [e]; simp))
      rw [List.pairwise_cons]
      refine ⟨?_, ih (fun hm => hx (List.mem_cons_of_mem _ hm)) h.2⟩
      intro z hz
      rcases (rt_mem_insertSorted x z l).mp hz with e | hz
      · rw [e]; exact hax
      · exact h.1 z hz

theorem rt_sorted_foldr (l : List Str) (h : l.Nodup) : (l.foldr insertSorted []).Pairwise (· < ·) := by
  induction l with
  | nil => simp
  | cons a l ih =>
    rw [List.nodup_cons] at h
    rw [List.foldr_cons]
    exact rt_sorted_insertSorted _ _ (fun hm => h.1 (((rt_sorted_spec l h.2).2 a).mp hm)) (ih h.2)

/-- `readdir` returns the names in increasing order (byte order of the UTF-8 encodings) -/
theorem rt_readdir_sorted (fs : FS) (p : PPath) : (fs.readdir p).Pairwise (· < ·) := by
  unfold FS.readdir
  simp only
  exact rt_sorted_foldr _ (rt_nodup_dedup _ [] List.nodup_nil)

/-- a path comes before everything below it, and subtrees are ordered like the names of their roots -/
theorem rt_lt_below (rel : RelPath) (n : Str) (a : RelPath) : rel < rel ++ n :: a := by
  have := List.append_left_lt (l₁ := rel) (List.nil_lt_cons n a)
  simpa using this

theorem rt_lt_siblings (rel : RelPath) {n m : Str} (a b : RelPath) (h : n < m) :
    rel ++ n :: a < rel ++ m :: b :=
  List.append_left_lt (List.cons_lt_cons_iff.mpr (Or.inl h))

theorem rt_of_prefix_snoc {rel r : RelPath} {n : Str} (h : rel ++ [n] <+: r) : ∃ a, r = rel ++ n :: a := by
  obtain ⟨a, e⟩ := h
  exact ⟨a, by rw [← e]; simp⟩

/-! ## path resolution through real directories -/

theorem rt_lookup_snoc (fs : FS) (cur : PPath) (s : Seg) : fs.lookup (cur ++ [s]) = fs.get (cur ++ [s]) := by
  unfold FS.lookup; simp

theorem rt_resolve_phys (fs : FS) : ∀ (fuel : Nat) (cur : PPath) (segs : List Seg) (fl : Bool),
    segs.length < fuel → (∀ s ∈ segs, s ≠ dotdot) →
    (∀ q ∈ properPrefixes segs, ∃ perm mt, fs.get (cur ++ q) = some (.dir perm mt)) →
    (fl = true → ∀ t, fs.get (cur ++ segs) ≠ some (.link t)) →
    resolve fs fuel cur segs fl = .ok (cur ++ segs) := by
  intro fuel
  induction fuel with
  | zero => intro cur segs fl h; exact absurd h (Nat.not_lt_zero _)
  | succ fuel ih =>
    intro cur segs fl hlen hdd hdirs hlast
    cases segs with
    | nil => simp [resolve]
    | cons s rest =>
      have hs : s ≠ dotdot := hdd s (by simp)
      have hrec : ∀ perm mt, fs.get (cur ++ [s]) = some (.dir perm mt) →
          resolve fs fuel (cur ++ [s]) rest fl = .ok (cur ++ s :: rest) := by
        intro perm mt hg
        have := ih (cur ++ [s]) rest fl (by simp at hlen; omega) (fun x hx => hdd x (List.mem_cons_of_mem _ hx))
          (by
            intro q hq
            obtain ⟨g1, g2, g3⟩ := rt_properPrefixes_spec hq
            have : s :: q ∈ properPrefixes (s :: rest) :=
              rt_properPrefixes_of (by simp) (List.cons_prefix_cons.mpr ⟨rfl, g2⟩) (by simp; omega)
            obtain ⟨pm, t, h⟩ := hdirs _ this
            exact ⟨pm, t, by simpa using h⟩)
          (by intro hfl t; have := hlast hfl t; simpa using this)
        simpa using this
      rw [resolve, if_neg hs]
      simp only [rt_lookup_snoc]
      by_cases hr : rest = []
      · subst hr
        cases hg : fs.get (cur ++ [s]) with
        | none => simp
        | some nd =>
          cases nd with
          | dir perm mt => simp only; exact hrec perm mt hg
          | file perm mt c => simp
          | special => simp
          | link t =>
            cases fl with
            | false => simp
            | true => exact absurd hg (hlast rfl t)
      · have : [s] ∈ properPrefixes (s :: rest) := by
          apply rt_properPrefixes_of (by simp) (List.cons_prefix_cons.mpr ⟨rfl, List.nil_prefix⟩)
          cases rest with
          | nil => exact absurd rfl hr
          | cons a l => simp
        obtain ⟨perm, mt, hg⟩ := hdirs _ this
        rw [hg]
        exact hrec perm mt hg

/-! ## strings: walk paths, `Rel`, `Replace` -/

theorem rt_indexOf_spec (p : Str) : ∀ (s : Str) (i : Nat), indexOf p s = some i →
    s.take i ++ p ++ s.drop (i + p.length) = s := by
  intro s
  induction s with
  | nil =>
    intro i h
    rw [indexOf] at h
    split at h
    · rename_i hp; cases h; subst hp; rfl
    · cases h
  | cons x xs ih =>
    intro i h
    rw [indexOf] at h
    split at h
    · rename_i hp
      cases h
      obtain ⟨t, ht⟩ := List.isPrefixOf_iff_prefix.mp hp
      simp only [List.take_zero, List.nil_append, Nat.zero_add]
      rw [← ht]; simp
    · cases hj : indexOf p xs with
      | none => rw [hj] at h; cases h
      | some j =>
        rw [hj] at h
        simp only [Option.map_some, Option.some.injEq] at h
        subst h
        have := ih j hj
        have e : j + 1 + p.length = (j + p.length) + 1 := by omega
        rw [e, List.take_succ_cons, List.drop_succ_cons, List.cons_append, List.cons_append, this]

/-- replacing the first occurrence of a string by itself changes nothing (`packWalkFn` with
`src = dst`, as everywhere outside a dereferenced directory) -/
theorem rt_replaceFirst_same (s old : Str) : replaceFirst s old old = s := by
  unfold replaceFirst
  split
  · rfl
  · rename_i i hi; exact rt_indexOf_spec old s i hi

theorem rt_names_append {P : PPath} {rel : RelPath} (hP : ∀ c ∈ P, NameNS c) (hr : ∀ c ∈ rel, NameNS c) :
    ∀ c ∈ P ++ rel, NameNS c := by
  intro c hc
  rcases List.mem_append.mp hc with h | h
  · exact hP c h
  · exact hr c h

theorem rt_pathJoin_ofSegs (N : List Seg) (n : Seg) (hN : ∀ c ∈ N, NameNS c) (hn : NameNS n) :
    pathJoin (ofSegs N) n = ofSegs (N ++ [n]) := by
  rw [pathJoin_abs _ _ (ps_isAbs_ofSegs N), pathSegs_ofSegs N hN, ps_pathSegs_name n hn,
    cleanSegs_plain true _ (fun x hx => (rt_names_append hN (by intro c hc; simp at hc; rw [hc]; exact hn) x hx).1)]

theorem rt_pathRel_self (root : Str) : pathRel root root = some dot := by
  unfold pathRel; simp

theorem rt_joinWith_ne_dot (r : RelPath) (hr : ∀ c ∈ r, NameNS c) : joinWith '/' r ≠ dot := by
  intro e
  have h1 := rt_pathSegs_joinWith r hr
  rw [e] at h1
  have h2 : pathSegs dot = [] := by decide
  rw [h2] at h1
  rw [← h1] at e
  exact absurd e (by decide)

theorem rt_pathRel_below (root : Str) (rel : RelPath) (hroot : AbsClean root) (hne : rel ≠ [])
    (hr : ∀ c ∈ rel, NameNS c) :
    pathRel root (ofSegs (pathSegs root ++ rel)) = some (joinWith '/' rel) := by
  have hN := rt_names_append (absClean_segs root hroot) hr
  have hseg := pathSegs_ofSegs _ hN
  obtain ⟨s, h1, _, _, h4⟩ := pathRel_under root (ofSegs (pathSegs root ++ rel)) hroot (absClean_ofSegs _ hN)
    (by rw [hseg]; exact List.prefix_append _ _)
  rw [h1]
  rcases h4 with ⟨h, _⟩ | ⟨h, _⟩
  · rw [hseg] at h
    have := List.append_cancel_left (h.trans (List.append_nil _).symm)
    exact absurd this hne
  · rw [hseg] at h
    have := List.append_cancel_left h
    rw [← joinWith_splitOn '/' s, ← this]

/-! ## `Lstat` and `Stat` on walk paths -/

/-- every directory from `/` down to the source root is a real directory (no symlinked ancestor) -/
def RtPhys (fs : FS) (P : PPath) : Prop :=
  ∀ q, q ≠ [] → q <+: P → ∃ perm mt, fs.get q = some (.dir perm mt)

theorem rt_resolve_below (fs : FS) (P : PPath) (rel : RelPath) (nd : Node) (fl : Bool) (hphys : RtPhys fs P)
    (hnames : PackNamesOK fs) (hraw : rtRaw fs P rel = some nd) (hlen : (P ++ rel).length < resolveFuel)
    (hfl : fl = true → ∀ t, nd ≠ .link t) :
    fs.resolvePath (ofSegs (P ++ rel)) fl = .ok (P ++ rel) ∧ fs.lookup (P ++ rel) = some nd := by
  obtain ⟨hne, hall, hget⟩ := rt_raw_some.mp hraw
  have hN : ∀ c ∈ P ++ rel, NameNS c := hnames _ (rt_get_mem hget)
  have hlook : fs.lookup (P ++ rel) = some nd := by
    unfold FS.lookup
    rw [if_neg (by simp [hne]), hget]
  refine ⟨?_, hlook⟩
  unfold FS.resolvePath
  rw [pathSegs_ofSegs _ hN]
  have := rt_resolve_phys fs resolveFuel [] (P ++ rel) fl hlen (fun s hs => (hN s hs).1.2.2)
    (by
      intro q hq
      obtain ⟨g1, g2, g3⟩ := rt_properPrefixes_spec hq
      rw [List.nil_append]
      rcases List.prefix_or_prefix_of_prefix g2 (List.prefix_append P rel) with h | ⟨q', e⟩
      · exact hphys q g1 h
      · subst e
        rw [List.prefix_append_right_inj] at g2
        by_cases hq' : q' = []
        · subst hq'; rw [List.append_nil] at g1 ⊢; exact hphys P g1 (List.prefix_refl _)
        · exact hall q' (rt_properPrefixes_of hq' g2 (by simp at g3; omega)))
    (by
      intro h t
      rw [List.nil_append, hget]
      intro e; cases e
      exact hfl h t rfl)
  simpa using this

theorem rt_lstat_below (fs : FS) (P : PPath) (rel : RelPath) (nd : Node) (hphys : RtPhys fs P)
    (hnames : PackNamesOK fs) (hraw : rtRaw fs P rel = some nd) (hlen : (P ++ rel).length < resolveFuel) :
    fs.lstat (ofSegs (P ++ rel)) = .ok nd := by
  obtain ⟨h1, h2⟩ := rt_resolve_below fs P rel nd false hphys hnames hraw hlen (by intro h; cases h)
  unfold FS.lstat
  rw [h1]; simp only [h2]

theorem rt_resolve_root (fs : FS) (P : PPath) (hphys : RtPhys fs P) (hP : ∀ c ∈ P, NameNS c)
    (hlen : P.length < resolveFuel) : fs.resolvePath (ofSegs P) true = .ok P := by
  unfold FS.resolvePath
  rw [pathSegs_ofSegs _ hP]
  by_cases hp : P = []
  · subst hp; rfl
  · have := rt_resolve_phys fs resolveFuel [] P true hlen (fun s hs => (hP s hs).1.2.2)
      (by
        intro q hq
        obtain ⟨g1, g2, g3⟩ := rt_properPrefixes_spec hq
        rw [List.nil_append]; exact hphys q g1 g2)
      (by
        intro _ t
        rw [List.nil_append]
        obtain ⟨perm, mt, h⟩ := hphys P hp (List.prefix_refl _)
        rw [h]; intro e; cases e)
    simpa using this

/-! ## the callback on a node below the source root -/

/-- the hypotheses of the Pack half of the round trip, for the walk root `root` -/
structure RtCtx (fs : FS) (cwd : Str) (o : PackOpts) (root : Str) : Prop where
  noDeref : o.dereference = false
  rootClean : AbsClean root
  phys : RtPhys fs (pathSegs root)
  names : PackNamesOK fs
  depth : ∀ e ∈ fs, pathSegs root <+: e.1 → e.1.length < resolveFuel
  links : ∀ r t, rtRaw fs (pathSegs root) r = some (.link t) →
    validSymlink cwd o.allow root (ofSegs (pathSegs root ++ r)) t = true

/-- what the callback adds for one node -/
def rtEmit (rel : RelPath) (nd : Node) : List (RelPath × Node) :=
  match nd with
  | .special => []
  | _ => [(rel, nd)]

theorem rt_raw_names {fs : FS} {P : PPath} {rel : RelPath} {nd : Node} (hnames : PackNamesOK fs)
    (hraw : rtRaw fs P rel = some nd) : ∀ c ∈ P ++ rel, NameNS c :=
  hnames _ (rt_get_mem (rt_raw_some.mp hraw).2.2)

theorem rt_visit_aux {fs : FS} {cwd : Str} {o : PackOpts} {root : Str} (ctx : RtCtx fs cwd o root)
    (fuel : Nat) (rel : RelPath) (nd : Node) (st : PState)
    (hraw : rtRaw fs (pathSegs root) rel = some nd) :
    (visit fs cwd o none root root root (fuel + 1) (ofSegs (pathSegs root ++ rel)) nd st).2 = .cont ∧
    (visit fs cwd o none root root root (fuel + 1) (ofSegs (pathSegs root ++ rel)) nd st).1.entries =
      st.entries ++ (rtEmit rel nd).map rtEntryP := by
  have hne : rel ≠ [] := (rt_raw_some.mp hraw).1
  have hN := rt_raw_names ctx.names hraw
  have hrel : ∀ c ∈ rel, NameNS c := fun c hc => hN c (List.mem_append_right _ hc)
  have h1 := rt_pathRel_below root rel ctx.rootClean hne hrel
  have h2 := rt_joinWith_ne_dot rel hrel
  have h3 := rt_replaceFirst_same (ofSegs (pathSegs root ++ rel)) root
  have hlen : (pathSegs root ++ rel).length < resolveFuel :=
    ctx.depth _ (rt_get_mem (rt_raw_some.mp hraw).2.2) (List.prefix_append _ _)
  have hl := rt_lstat_below fs _ rel nd ctx.phys ctx.names hraw hlen
  cases nd with
  | special =>
    rw [visit]
    · simp [h1, h2, h3, ruleExcludes, rtEmit]
    · intro _ _ h; cases h
  | dir perm mt =>
    rw [visit]
    simp only [h1, h2, h3, ruleExcludes, if_false, Bool.false_eq_true, if_true]
    exact ⟨trivial, rfl⟩
  | file perm mt c =>
    rw [visit]
    · simp only [h1, h2, h3, ruleExcludes, if_false, Bool.false_eq_true, pk_readFile_of_lstat_file hl]
      exact ⟨trivial, rfl⟩
    · intro _ _ h; cases h
  | link t =>
    rw [visit]
    · simp only [h1, h2, h3, ruleExcludes, if_false, Bool.false_eq_true, ctx.links rel t hraw, if_true]
      exact ⟨trivial, rfl⟩
    · intro _ _ h; cases h

theorem rt_visit {fs : FS} {cwd : Str} {o : PackOpts} {root : Str} (ctx : RtCtx fs cwd o root)
    (fuel : Nat) (rel : RelPath) (nd : Node) (st : PState)
    (hraw : rtRaw fs (pathSegs root) rel = some nd) :
    ∃ st', visit fs cwd o none root root root (fuel + 1) (ofSegs (pathSegs root ++ rel)) nd st = (st', .cont) ∧
      st'.entries = st.entries ++ (rtEmit rel nd).map rtEntryP := by
  obtain ⟨h1, h2⟩ := rt_visit_aux ctx fuel rel nd st hraw
  exact ⟨_, Prod.ext rfl h1, h2⟩

/-- on the source root itself the callback does nothing -/
theorem rt_visit_root {fs : FS} {cwd : Str} {o : PackOpts} {root : Str} (fuel : Nat) (nd : Node) (st : PState) :
    visit fs cwd o none root root root (fuel + 1) root nd st = (st, .cont) := by
  cases nd <;> rw [visit] <;> first | (intro _ _ h; cases h) | simp [rt_pathRel_self]

/-! ## listings of subtrees -/

/-- `M` lists the region `S` of the source tree: exactly the reachable non-special nodes whose
path lies in `S`, each once, and every directory before what is below it — unless that directory
is `base` or above (it is then listed, if at all, before `M` starts) -/
structure RtSub (fs : FS) (P : PPath) (base : RelPath) (S : RelPath → Prop) (M : List (RelPath × Node)) : Prop where
  sound : ∀ x ∈ M, S x.1 ∧ rtRaw fs P x.1 = some x.2 ∧ x.2 ≠ .special
  complete : ∀ r nd, S r → rtRaw fs P r = some nd → nd ≠ .special → (r, nd) ∈ M
  nodup : (M.map (·.1)).Nodup
  order : ∀ A x B, M = A ++ x :: B → ∀ q ∈ properPrefixes x.1,
    q <+: base ∨ ∃ perm mt, (q, Node.dir perm mt) ∈ A
  sorted : (M.map (·.1)).Pairwise (· < ·)

theorem rt_pp_dropLast {p q : RelPath} (h : q ∈ properPrefixes p) : q <+: p.dropLast := by
  obtain ⟨_, h2, h3⟩ := rt_properPrefixes_spec h
  rcases ps_eq_nil_or_snoc p with e | ⟨l, b, e⟩
  · subst e; simp at h3
  · subst e
    rw [List.dropLast_concat]
    exact rt_prefix_snoc h2 h3

theorem rt_prefix_proper {rel r : RelPath} (h : rel <+: r) (hne : r ≠ rel) :
    ∃ n r', r = rel ++ n :: r' := by
  obtain ⟨t, e⟩ := h
  cases t with
  | nil => rw [List.append_nil] at e; exact absurd e.symm hne
  | cons n r' => exact ⟨n, r', e.symm⟩

theorem rt_child_unique {rel k : RelPath} {n m : Str} (h1 : rel ++ [n] <+: k) (h2 : rel ++ [m] <+: k) : n = m := by
  have h := List.prefix_of_prefix_length_le h1 h2 (by simp)
  have e := h.eq_of_length (by simp)
  have := List.append_cancel_left e
  simpa using this

theorem rt_emit_mem {rel : RelPath} {nd : Node} {x : RelPath × Node} (h : x ∈ rtEmit rel nd) :
    x = (rel, nd) ∧ nd ≠ .special := by
  cases nd <;> simp [rtEmit] at h <;> exact ⟨h, by intro e; cases e⟩

theorem rt_mem_emit {rel : RelPath} {nd : Node} (h : nd ≠ .special) : (rel, nd) ∈ rtEmit rel nd := by
  cases nd <;> first | exact absurd rfl h | simp [rtEmit]

theorem rt_emit_cases (rel : RelPath) (nd : Node) : rtEmit rel nd = [] ∨ rtEmit rel nd = [(rel, nd)] := by
  cases nd <;> simp [rtEmit]

theorem rtSub_leaf {fs : FS} {P : PPath} {rel : RelPath} {nd : Node} (hraw : rtRaw fs P rel = some nd)
    (hnd : ∀ perm mt, nd ≠ .dir perm mt) : RtSub fs P rel.dropLast (fun r => rel <+: r) (rtEmit rel nd) := by
  have hne : rel ≠ [] := (rt_raw_some.mp hraw).1
  refine ⟨?_, ?_, ?_, ?_, ?_⟩
  rotate_right
  · rcases rt_emit_cases rel nd with e | e <;> rw [e] <;> simp
  · intro x hx
    obtain ⟨e, hs⟩ := rt_emit_mem hx
    subst e
    exact ⟨List.prefix_refl _, hraw, hs⟩
  · intro r nd' hS hr hs
    by_cases e : r = rel
    · subst e
      rw [hraw] at hr; cases hr
      exact rt_mem_emit hs
    · have hl : rel.length < r.length := by
        rcases Nat.lt_or_ge rel.length r.length with h | h
        · exact h
        · exact absurd (hS.eq_of_length (Nat.le_antisymm hS.length_le h)).symm e
      obtain ⟨perm, mt, hd⟩ := rt_raw_prefix hr (rt_properPrefixes_of hne hS hl)
      rw [hraw] at hd; cases hd
      exact absurd rfl (hnd perm mt)
  · rcases rt_emit_cases rel nd with e | e <;> rw [e] <;> simp
  · intro A x B hM q hq
    rcases rt_emit_cases rel nd with e | e
    · rw [e] at hM
      have := congrArg List.length hM
      simp at this
    · rw [e] at hM
      cases A with
      | nil =>
        simp only [List.nil_append, List.cons.injEq] at hM
        rw [← hM.1] at hq
        exact Or.inl (rt_pp_dropLast hq)
      | cons a A =>
        have := congrArg List.length hM
        simp at this

theorem rtSub_dir {fs : FS} {P : PPath} {rel : RelPath} {perm : Nat} {mt : Int} {names : List Str}
    {Mc : List (RelPath × Node)} (hraw : rtRaw fs P rel = some (.dir perm mt))
    (hnames : ∀ n, (∃ nd, fs.get (P ++ (rel ++ [n])) = some nd) → n ∈ names)
    (hc : RtSub fs P rel (fun r => ∃ n ∈ names, rel ++ [n] <+: r) Mc) :
    RtSub fs P rel.dropLast (fun r => rel <+: r) ((rel, .dir perm mt) :: Mc) := by
  have hne : rel ≠ [] := (rt_raw_some.mp hraw).1
  have hlt : ∀ x ∈ Mc, rel.length < x.1.length := by
    intro x hx
    obtain ⟨⟨n, _, hp⟩, _⟩ := hc.sound x hx
    have := hp.length_le
    simp at this; omega
  refine ⟨?_, ?_, ?_, ?_, ?_⟩
  rotate_right
  · rw [List.map_cons, List.pairwise_cons]
    refine ⟨?_, hc.sorted⟩
    intro k hk
    obtain ⟨x, hx, e⟩ := List.mem_map.mp hk
    obtain ⟨⟨n, _, hp⟩, _⟩ := hc.sound x hx
    obtain ⟨a, ea⟩ := rt_of_prefix_snoc hp
    rw [← e, ea]
    exact rt_lt_below rel n a
  · intro x hx
    rcases List.mem_cons.mp hx with e | hx
    · subst e; exact ⟨List.prefix_refl _, hraw, by intro e; cases e⟩
    · obtain ⟨⟨n, _, hp⟩, h2⟩ := hc.sound x hx
      exact ⟨(List.prefix_append _ _).trans hp, h2⟩
  · intro r nd hS hr hs
    by_cases e : r = rel
    · subst e
      rw [hraw] at hr; cases hr
      exact List.mem_cons_self
    · obtain ⟨n, r', e'⟩ := rt_prefix_proper hS e
      have hp : rel ++ [n] <+: r := ⟨r', by rw [e']; simp⟩
      have hn : n ∈ names := by
        apply hnames
        by_cases hr' : r' = []
        · subst hr'
          exact ⟨nd, by rw [e'] at hr; exact (rt_raw_some.mp hr).2.2⟩
        · have : rel ++ [n] ∈ properPrefixes r := by
            apply rt_properPrefixes_of (by simp) hp
            rw [e']
            cases r' with
            | nil => exact absurd rfl hr'
            | cons a l => simp
          obtain ⟨pm, t, h⟩ := (rt_raw_some.mp hr).2.1 _ this
          exact ⟨_, h⟩
      exact List.mem_cons_of_mem _ (hc.complete r nd ⟨n, hn, hp⟩ hr hs)
  · rw [List.map_cons, List.nodup_cons]
    refine ⟨?_, hc.nodup⟩
    intro hm
    obtain ⟨x, hx, e⟩ := List.mem_map.mp hm
    have := hlt x hx
    rw [e] at this
    exact absurd this (Nat.lt_irrefl _)
  · intro A x B hM q hq
    cases A with
    | nil =>
      simp only [List.nil_append, List.cons.injEq] at hM
      rw [← hM.1] at hq
      exact Or.inl (rt_pp_dropLast hq)
    | cons a A =>
      simp only [List.cons_append, List.cons.injEq] at hM
      obtain ⟨ea, hM⟩ := hM
      rcases hc.order A x B hM q hq with h | ⟨pm, t, h⟩
      · by_cases e : q = rel
        · exact Or.inr ⟨perm, mt, by rw [e, ← ea]; exact List.mem_cons_self⟩
        · left
          have hl : q.length < rel.length := by
            rcases Nat.lt_or_ge q.length rel.length with h' | h'
            · exact h'
            · exact absurd (h.eq_of_length (Nat.le_antisymm h.length_le h')) e
          exact rt_pp_dropLast (rt_properPrefixes_of (rt_properPrefixes_spec hq).1 h hl)
      · exact Or.inr ⟨pm, t, List.mem_cons_of_mem _ h⟩

theorem rtSub_nil {fs : FS} {P : PPath} {rel : RelPath} :
    RtSub fs P rel (fun r => ∃ n ∈ ([] : List Str), rel ++ [n] <+: r) [] := by
  refine ⟨fun x hx => (nomatch hx), ?_, List.nodup_nil, ?_, List.Pairwise.nil⟩
  · rintro r nd ⟨n, hn, _⟩; cases hn
  · intro A x B h
    have := congrArg List.length h
    simp at this

theorem rtSub_cons {fs : FS} {P : PPath} {rel : RelPath} {n : Str} {rest : List Str}
    {M1 M2 : List (RelPath × Node)} (hn : n ∉ rest) (hlt : ∀ m ∈ rest, n < m)
    (h1 : RtSub fs P rel (fun r => rel ++ [n] <+: r) M1)
    (h2 : RtSub fs P rel (fun r => ∃ m ∈ rest, rel ++ [m] <+: r) M2) :
    RtSub fs P rel (fun r => ∃ m ∈ n :: rest, rel ++ [m] <+: r) (M1 ++ M2) := by
  refine ⟨?_, ?_, ?_, ?_, ?_⟩
  rotate_right
  · rw [List.map_append, List.pairwise_append]
    refine ⟨h1.sorted, h2.sorted, ?_⟩
    intro a ha b hb
    obtain ⟨x, hx, ex⟩ := List.mem_map.mp ha
    obtain ⟨y, hy, ey⟩ := List.mem_map.mp hb
    obtain ⟨a', ea⟩ := rt_of_prefix_snoc (h1.sound x hx).1
    obtain ⟨m, hm, p2⟩ := (h2.sound y hy).1
    obtain ⟨b', eb⟩ := rt_of_prefix_snoc p2
    rw [← ex, ← ey, ea, eb]
    exact rt_lt_siblings rel a' b' (hlt m hm)
  · intro x hx
    rcases List.mem_append.mp hx with h | h
    · obtain ⟨a, b⟩ := h1.sound x h
      exact ⟨⟨n, by simp, a⟩, b⟩
    · obtain ⟨⟨m, hm, a⟩, b⟩ := h2.sound x h
      exact ⟨⟨m, List.mem_cons_of_mem _ hm, a⟩, b⟩
  · rintro r nd ⟨m, hm, hp⟩ hr hs
    rcases List.mem_cons.mp hm with e | hm
    · subst e; exact List.mem_append_left _ (h1.complete r nd hp hr hs)
    · exact List.mem_append_right _ (h2.complete r nd ⟨m, hm, hp⟩ hr hs)
  · rw [List.map_append, List.nodup_append]
    refine ⟨h1.nodup, h2.nodup, ?_⟩
    intro a ha b hb e
    obtain ⟨x, hx, ex⟩ := List.mem_map.mp ha
    obtain ⟨y, hy, ey⟩ := List.mem_map.mp hb
    have p1 := (h1.sound x hx).1
    obtain ⟨m, hm, p2⟩ := (h2.sound y hy).1
    rw [ex] at p1; rw [ey, ← e] at p2
    have := rt_child_unique p1 p2
    exact hn (this ▸ hm)
  · intro A x B hM q hq
    rcases List.append_eq_append_iff.mp hM with ⟨a', eA, e2⟩ | ⟨c', e1, e2⟩
    · rcases h2.order a' x B e2 q hq with h | ⟨pm, t, h⟩
      · exact Or.inl h
      · exact Or.inr ⟨pm, t, by rw [eA]; exact List.mem_append_right _ h⟩
    · cases c' with
      | nil =>
        rw [List.nil_append] at e2
        rcases h2.order [] x B e2.symm q hq with h | ⟨pm, t, h⟩
        · exact Or.inl h
        · cases h
      | cons c c' =>
        simp only [List.cons_append, List.cons.injEq] at e2
        rw [← e2.1] at e1
        exact h1.order A x c' e1 q hq

/-! ## counting bindings (for the fuel of the walk) -/

/-- number of bindings at or below the physical path `p` -/
def rtCnt (fs : FS) (p : PPath) : Nat := (fs.map (·.1)).countP (fun k => p.isPrefixOf k)

theorem rt_countP_or {α : Type} (a b : α → Bool) (l : List α) (h : ∀ x ∈ l, ¬(a x = true ∧ b x = true)) :
    l.countP (fun x => a x || b x) = l.countP a + l.countP b := by
  induction l with
  | nil => rfl
  | cons x l ih =>
    have ih' := ih (fun y hy => h y (List.mem_cons_of_mem _ hy))
    have hx := h x (by simp)
    simp only [List.countP_cons, ih']
    cases ha : a x <;> cases hb : b x <;> simp_all <;> omega

theorem rt_cnt_pos {fs : FS} {p : PPath} {n : Node} (h : fs.get p = some n) : 1 ≤ rtCnt fs p := by
  unfold rtCnt
  apply List.countP_pos_iff.mpr
  exact ⟨p, List.mem_map.mpr ⟨_, rt_get_mem h, rfl⟩, List.isPrefixOf_iff_prefix.mpr (List.prefix_refl _)⟩

theorem rt_cnt_le_length (fs : FS) (p : PPath) : rtCnt fs p ≤ fs.length := by
  unfold rtCnt
  have := List.countP_le_length (p := fun k => p.isPrefixOf k) (l := fs.map (·.1))
  simpa using this

theorem rt_cnt_children_le (fs : FS) (p : PPath) : ∀ (names : List Str), names.Nodup →
    (names.map (fun n => rtCnt fs (p ++ [n]))).sum ≤
      (fs.map (·.1)).countP (fun k => names.any (fun n => (p ++ [n]).isPrefixOf k)) := by
  intro names
  induction names with
  | nil => intro _; simp
  | cons n rest ih =>
    intro hnd
    rw [List.nodup_cons] at hnd
    have e : (fs.map (·.1)).countP (fun k => (n :: rest).any (fun m => (p ++ [m]).isPrefixOf k)) =
        rtCnt fs (p ++ [n]) + (fs.map (·.1)).countP (fun k => rest.any (fun m => (p ++ [m]).isPrefixOf k)) := by
      unfold rtCnt
      rw [← rt_countP_or]
      · rfl
      · intro k _ ⟨h1, h2⟩
        obtain ⟨m, hm, h3⟩ := List.any_eq_true.mp h2
        have := rt_child_unique (List.isPrefixOf_iff_prefix.mp h1) (List.isPrefixOf_iff_prefix.mp h3)
        exact hnd.1 (this ▸ hm)
    rw [e, List.map_cons, List.sum_cons]
    have := ih hnd.2
    omega

/-- the bindings below the children of `p` are bindings strictly below `p` -/
theorem rt_cnt_children (fs : FS) (p : PPath) (names : List Str) (hnd : names.Nodup) {nd : Node}
    (hp : fs.get p = some nd) :
    (names.map (fun n => rtCnt fs (p ++ [n]))).sum + 1 ≤ rtCnt fs p := by
  have h1 := rt_cnt_children_le fs p names hnd
  have h2 : (fs.map (·.1)).countP (fun k => names.any (fun n => (p ++ [n]).isPrefixOf k)) +
      (fs.map (·.1)).countP (fun k => k == p) ≤ rtCnt fs p := by
    unfold rtCnt
    rw [← rt_countP_or]
    · apply List.countP_mono_left
      intro k _ hk
      simp only [Bool.or_eq_true, List.any_eq_true, beq_iff_eq] at hk
      rcases hk with ⟨n, _, h⟩ | h
      · exact List.isPrefixOf_iff_prefix.mpr ((List.prefix_append _ _).trans (List.isPrefixOf_iff_prefix.mp h))
      · rw [h]; exact List.isPrefixOf_iff_prefix.mpr (List.prefix_refl _)
    · intro k _ ⟨h1, h2⟩
      obtain ⟨n, _, h3⟩ := List.any_eq_true.mp h1
      have h4 : k = p := by simpa using h2
      have := (List.isPrefixOf_iff_prefix.mp h3).length_le
      rw [h4] at this
      simp at this
      omega
  have h3 : 1 ≤ (fs.map (·.1)).countP (fun k => k == p) := by
    apply List.countP_pos_iff.mpr
    exact ⟨p, List.mem_map.mpr ⟨_, rt_get_mem hp, rfl⟩, by simp⟩
  omega

theorem rt_cnt_children_root (fs : FS) (p : PPath) (names : List Str) (hnd : names.Nodup) :
    (names.map (fun n => rtCnt fs (p ++ [n]))).sum ≤ fs.length := by
  have h1 := rt_cnt_children_le fs p names hnd
  have h2 := List.countP_le_length (p := fun k => names.any (fun n => (p ++ [n]).isPrefixOf k)) (l := fs.map (·.1))
  simp only [List.length_map] at h2
  omega

/-! ## the walk -/

/-- outcome of a walk function started in state `st` with `fuel`: out of fuel — only when `fuel`
is below `bound` —, or finished normally having appended the entries of a listing of the region -/
def RtOut (fs : FS) (P : PPath) (base : RelPath) (S : RelPath → Prop) (st : PState) (fuel bound : Nat)
    (res : PState × WalkRes) : Prop :=
  (res.2 = .stop .diverged ∧ fuel < bound) ∨
    (res.2 = .cont ∧ ∃ M, RtSub fs P base S M ∧ res.1.entries = st.entries ++ M.map rtEntryP)

/-- fuel that suffices for the loop over `names` in the directory `rel` -/
def rtChildrenFuel (fs : FS) (P : PPath) (rel : RelPath) (names : List Str) : Nat :=
  2 * (names.map (fun n => rtCnt fs ((P ++ rel) ++ [n]))).sum + 1

theorem rt_walk {fs : FS} {cwd : Str} {o : PackOpts} {root : Str} (ctx : RtCtx fs cwd o root) :
    ∀ fuel : Nat,
      (∀ rel nd st, rtRaw fs (pathSegs root) rel = some nd →
        RtOut fs (pathSegs root) rel.dropLast (fun r => rel <+: r) st fuel (2 * rtCnt fs (pathSegs root ++ rel))
          (walkNode fs cwd o none root root root fuel (ofSegs (pathSegs root ++ rel)) nd st)) ∧
      (∀ rel names st, RtDirAt fs (pathSegs root) rel → names.Nodup → names.Pairwise (· < ·) →
        (∀ n ∈ names, ∃ nd, fs.get (pathSegs root ++ (rel ++ [n])) = some nd) →
        RtOut fs (pathSegs root) rel (fun r => ∃ n ∈ names, rel ++ [n] <+: r) st fuel
          (rtChildrenFuel fs (pathSegs root) rel names)
          (walkChildren fs cwd o none root root root fuel (ofSegs (pathSegs root ++ rel)) names st)) := by
  intro fuel
  induction fuel with
  | zero =>
    refine ⟨?_, ?_⟩
    · intro rel nd st hraw
      rw [walkNode]
      have := rt_cnt_pos (rt_raw_some.mp hraw).2.2
      exact Or.inl ⟨rfl, by omega⟩
    · intro rel names st _ _ _ _; rw [walkChildren]; exact Or.inl ⟨rfl, by unfold rtChildrenFuel; omega⟩
  | succ fuel ih =>
    obtain ⟨ihN, ihC⟩ := ih
    refine ⟨?_, ?_⟩
    · intro rel nd st hraw
      have hpos := rt_cnt_pos (rt_raw_some.mp hraw).2.2
      have hleaf : (∀ perm mt, nd ≠ .dir perm mt) →
          RtOut fs (pathSegs root) rel.dropLast (fun r => rel <+: r) st (fuel + 1)
            (2 * rtCnt fs (pathSegs root ++ rel))
            (visit fs cwd o none root root root fuel (ofSegs (pathSegs root ++ rel)) nd st) := by
        intro hnd
        cases fuel with
        | zero => rw [visit]; exact Or.inl ⟨rfl, by omega⟩
        | succ f =>
          obtain ⟨st', hv, he⟩ := rt_visit ctx f rel nd st hraw
          rw [hv]
          exact Or.inr ⟨rfl, _, rtSub_leaf hraw hnd, he⟩
      cases nd with
      | file perm mt c =>
        rw [walkNode]
        · exact hleaf (by intro _ _ h; cases h)
        · intro _ _ h; cases h
      | link t =>
        rw [walkNode]
        · exact hleaf (by intro _ _ h; cases h)
        · intro _ _ h; cases h
      | special =>
        rw [walkNode]
        · exact hleaf (by intro _ _ h; cases h)
        · intro _ _ h; cases h
      | dir perm mt =>
        cases fuel with
        | zero =>
          rw [walkNode, visit]
          exact Or.inl ⟨rfl, by omega⟩
        | succ f =>
          obtain ⟨st1, hv, he⟩ := rt_visit ctx f rel _ st hraw
          have hlen : (pathSegs root ++ rel).length < resolveFuel :=
            ctx.depth _ (rt_get_mem (rt_raw_some.mp hraw).2.2) (List.prefix_append _ _)
          have hp := (rt_resolve_below fs _ rel _ true ctx.phys ctx.names hraw hlen
            (by intro _ t h; cases h)).1
          rw [pk_walkNode_dir_cont fs cwd o none root root root (f + 1) _ perm mt st st1 _ hv hp]
          obtain ⟨hnd, hmem⟩ := rt_readdir_spec fs (pathSegs root ++ rel)
          have hmem' : ∀ n, n ∈ fs.readdir (pathSegs root ++ rel) ↔
              ∃ nd, fs.get (pathSegs root ++ (rel ++ [n])) = some nd := by
            intro n; rw [hmem, List.append_assoc]
          rcases ihC rel (fs.readdir (pathSegs root ++ rel)) st1 (Or.inr ⟨perm, mt, hraw⟩) hnd
            (rt_readdir_sorted fs _) (fun n hn => (hmem' n).mp hn) with ⟨h, hb⟩ | ⟨hc, Mc, hsub, hent⟩
          · refine Or.inl ⟨h, ?_⟩
            have := rt_cnt_children fs (pathSegs root ++ rel) _ hnd (rt_raw_some.mp hraw).2.2
            unfold rtChildrenFuel at hb
            omega
          · refine Or.inr ⟨hc, (rel, .dir perm mt) :: Mc, rtSub_dir hraw (fun n hn => (hmem' n).mpr hn) hsub, ?_⟩
            rw [hent, he]
            simp [rtEmit]
    · intro rel names st hdir hnd hsorted hmem
      cases names with
      | nil =>
        rw [walkChildren]
        exact Or.inr ⟨rfl, [], rtSub_nil, by simp⟩
      | cons n rest =>
        obtain ⟨child, hchild⟩ := hmem n (by simp)
        have hrawc : rtRaw fs (pathSegs root) (rel ++ [n]) = some child := by
          rw [rt_raw_child n hdir]; exact hchild
        have hN := rt_raw_names ctx.names hrawc
        have hN1 : ∀ c ∈ pathSegs root ++ rel, NameNS c := by
          intro c hc
          apply hN c
          rw [← List.append_assoc]; exact List.mem_append_left _ hc
        have hn : NameNS n := hN n (by simp)
        have hjoin : pathJoin (ofSegs (pathSegs root ++ rel)) n = ofSegs (pathSegs root ++ (rel ++ [n])) := by
          rw [rt_pathJoin_ofSegs _ n hN1 hn, List.append_assoc]
        have hlen : (pathSegs root ++ (rel ++ [n])).length < resolveFuel :=
          ctx.depth _ (rt_get_mem hchild) (List.prefix_append _ _)
        have hl : fs.lstat (pathJoin (ofSegs (pathSegs root ++ rel)) n) = .ok child := by
          rw [hjoin]; exact rt_lstat_below fs _ _ child ctx.phys ctx.names hrawc hlen
        have hnd' := List.nodup_cons.mp hnd
        have hposc := rt_cnt_pos hchild
        have hfuel : rtChildrenFuel fs (pathSegs root) rel (n :: rest) =
            2 * rtCnt fs (pathSegs root ++ (rel ++ [n])) + rtChildrenFuel fs (pathSegs root) rel rest := by
          unfold rtChildrenFuel
          rw [List.map_cons, List.sum_cons, List.append_assoc]
          omega
        have h1 := ihN (rel ++ [n]) child st hrawc
        rw [List.dropLast_concat, ← hjoin] at h1
        rcases h1 with ⟨h, hb⟩ | ⟨hc, M1, hsub1, hent1⟩
        · left
          rw [pk_walkChildren_stop_of_child fs cwd o none root root root fuel _ n rest child st _ .diverged hl
            (Prod.ext rfl h)]
          refine ⟨rfl, ?_⟩
          rw [hfuel]
          unfold rtChildrenFuel
          omega
        · rw [pk_walkChildren_cont_of_child fs cwd o none root root root fuel _ n rest child st _ hl
            (Prod.ext rfl hc)]
          rcases ihC rel rest _ hdir hnd'.2 (List.pairwise_cons.mp hsorted).2
              (fun m hm => hmem m (List.mem_cons_of_mem _ hm)) with
            ⟨h, hb⟩ | ⟨hc2, M2, hsub2, hent2⟩
          · refine Or.inl ⟨h, ?_⟩
            rw [hfuel]
            omega
          · refine Or.inr ⟨hc2, M1 ++ M2, rtSub_cons hnd'.1 (List.pairwise_cons.mp hsorted).1 hsub1 hsub2, ?_⟩
            rw [hent2, hent1]; simp

/-! ## `Pack` -/

theorem rt_root_facts {fs : FS} {cwd : Str} {o : PackOpts} {root : Str} (ctx : RtCtx fs cwd o root) :
    root = ofSegs (pathSegs root) ∧ (∀ c ∈ pathSegs root, NameNS c) ∧ (pathSegs root).length < resolveFuel ∧
    ∃ perm mt, fs.lstat root = .ok (.dir perm mt) := by
  have e := absClean_eq_ofSegs root ctx.rootClean
  have hP := absClean_segs root ctx.rootClean
  by_cases hp : pathSegs root = []
  · refine ⟨e, hP, by rw [hp]; decide, 0o755, 0, ?_⟩
    unfold FS.lstat FS.resolvePath
    rw [hp]
    rfl
  · obtain ⟨perm, mt, hg⟩ := ctx.phys _ hp (List.prefix_refl _)
    have hlen : (pathSegs root).length < resolveFuel := ctx.depth _ (rt_get_mem hg) (List.prefix_refl _)
    refine ⟨e, hP, hlen, perm, mt, ?_⟩
    have := rt_resolve_phys fs resolveFuel [] (pathSegs root) false hlen (fun s hs => (hP s hs).1.2.2)
      (by
        intro q hq
        obtain ⟨g1, g2, g3⟩ := rt_properPrefixes_spec hq
        rw [List.nil_append]; exact ctx.phys q g1 g2)
      (by intro h; cases h)
    rw [List.nil_append] at this
    unfold FS.lstat FS.resolvePath
    rw [this]
    simp only [FS.lookup, if_neg hp, hg]

theorem rt_raw_first {fs : FS} {P : PPath} {n : Str} {r' : RelPath} {nd : Node}
    (h : rtRaw fs P (n :: r') = some nd) : ∃ nd', fs.get (P ++ [n]) = some nd' := by
  obtain ⟨_, hall, hget⟩ := rt_raw_some.mp h
  cases r' with
  | nil => exact ⟨nd, hget⟩
  | cons a l =>
    obtain ⟨pm, t, hd⟩ := hall [n]
      (rt_properPrefixes_of (by simp) (List.cons_prefix_cons.mpr ⟨rfl, List.nil_prefix⟩) (by simp))
    exact ⟨_, hd⟩

/-- `Pack` on a source in scope is the loop over the entries of the source directory, started in
the empty state with `packFuel - 1` -/
theorem rt_pack_out {fs : FS} {cwd : Str} {o : PackOpts} {src : Str} (ctx : RtCtx fs cwd o src)
    (hign : o.applyIgnore = false) :
    ∃ res, pack fs cwd o src = pkFinish res ∧
      RtOut fs (pathSegs src) [] (fun r => ∃ n ∈ fs.readdir (pathSegs src), [] ++ [n] <+: r) pkEmpty (3998 + 1)
        (rtChildrenFuel fs (pathSegs src) [] (fs.readdir (pathSegs src))) res := by
  obtain ⟨eroot, hP, hlenP, perm, mt, hl⟩ := rt_root_facts ctx
  have hinfo : pkRootInfo fs cwd src = .ok (.dir perm mt) := by
    rw [pk_rootInfo_absClean fs cwd src ctx.rootClean, hl]
  have hsrc1 : pkSrc1 fs cwd src = src := by unfold pkSrc1; rw [hinfo]
  have hroot : pkRoot fs cwd src = src := by
    unfold pkRoot; rw [hsrc1]; exact pathAbs_absClean cwd src ctx.rootClean
  have hrules : pkRules fs cwd o src = none := by unfold pkRules; rw [hign]; rfl
  have hpack : pack fs cwd o src =
      pkFinish (walkNode fs cwd o none src src src packFuel src (.dir perm mt) pkEmpty) := by
    rw [pk_pack_eq, hinfo, hroot, hrules, hl]
  have hres : fs.resolvePath src true = .ok (pathSegs src) := by
    have := rt_resolve_root fs (pathSegs src) ctx.phys hP hlenP
    rw [← eroot] at this; exact this
  have hwalk : walkNode fs cwd o none src src src packFuel src (.dir perm mt) pkEmpty =
      walkChildren fs cwd o none src src src (3998 + 1) (ofSegs (pathSegs src ++ []))
        (fs.readdir (pathSegs src)) pkEmpty := by
    rw [List.append_nil, ← eroot]
    exact pk_walkNode_dir_cont fs cwd o none src src src (3998 + 1) src perm mt pkEmpty pkEmpty _
      (rt_visit_root 3998 _ _) hres
  obtain ⟨hnd, hmem⟩ := rt_readdir_spec fs (pathSegs src)
  have hout := (rt_walk ctx (3998 + 1)).2 [] (fs.readdir (pathSegs src)) pkEmpty (Or.inl rfl) hnd
    (rt_readdir_sorted fs _) (fun n hn => (hmem n).mp hn)
  rw [← hwalk] at hout
  exact ⟨_, hpack, hout⟩

/-- **the entries of `Pack`** on a physical source directory without ignore rules and
dereferencing, all of whose links are accepted: unless the model's fuel runs out the result is
`ok`, and the entry list is `rtEntry` mapped over a listing `M` of *all* reachable non-special
nodes below the source (`RtSub` with the region "every non-empty relative path"): each exactly
once, every directory before what is below it. -/
theorem rt_pack_listing {fs : FS} {cwd : Str} {o : PackOpts} {src : Str} (ctx : RtCtx fs cwd o src)
    (hign : o.applyIgnore = false) (hfuel : (pack fs cwd o src).2 ≠ .diverged) :
    (pack fs cwd o src).2 = .ok ∧
    ∃ M, (pack fs cwd o src).1.entries = M.map rtEntryP ∧
      RtSub fs (pathSegs src) [] (fun r => r ≠ []) M := by
  obtain ⟨res, hpack, hout⟩ := rt_pack_out ctx hign
  obtain ⟨_, hmem⟩ := rt_readdir_spec fs (pathSegs src)
  rw [hpack] at hfuel ⊢
  rcases hout with ⟨h, _⟩ | ⟨hc, M, hsub, hent⟩
  · exact absurd (by unfold pkFinish; rw [h]) hfuel
  · refine ⟨by unfold pkFinish; rw [hc], M, by rw [pkFinish_fst, hent]; rfl, ?_⟩
    refine ⟨?_, ?_, hsub.nodup, hsub.order, hsub.sorted⟩
    · intro x hx
      obtain ⟨_, h2, h3⟩ := hsub.sound x hx
      exact ⟨(rt_raw_some.mp h2).1, h2, h3⟩
    · intro r nd hr hraw hs
      cases r with
      | nil => exact absurd rfl hr
      | cons n r' =>
        obtain ⟨nd', hg⟩ := rt_raw_first hraw
        exact hsub.complete _ nd ⟨n, (hmem n).mpr ⟨nd', hg⟩, by simp⟩ hraw hs

/-- **explicit sufficient fuel**: two units per binding of the filesystem (and two more) are
enough for the walk never to report `diverged` -/
theorem rt_pack_fuel {fs : FS} {cwd : Str} {o : PackOpts} {src : Str} (ctx : RtCtx fs cwd o src)
    (hign : o.applyIgnore = false) (hsize : 2 * fs.length + 2 ≤ packFuel) :
    (pack fs cwd o src).2 ≠ .diverged := by
  obtain ⟨res, hpack, hout⟩ := rt_pack_out ctx hign
  obtain ⟨hnd, _⟩ := rt_readdir_spec fs (pathSegs src)
  rw [hpack]
  rcases hout with ⟨_, hb⟩ | ⟨hc, _⟩
  · have := rt_cnt_children_root fs (pathSegs src ++ []) (fs.readdir (pathSegs src)) hnd
    unfold rtChildrenFuel at hb
    have hp : packFuel = 4000 := rfl
    omega
  · unfold pkFinish; rw [hc]; intro h; cases h

/-- a complete listing is a listing in the sense of `rt_untar_listing` -/
theorem rtSub_listing {fs : FS} {P : PPath} {M : List (RelPath × Node)} (hnames : PackNamesOK fs)
    (h : RtSub fs P [] (fun r => r ≠ []) M) : RtListing M := by
  refine ⟨?_, h.nodup, ?_⟩
  · intro x hx
    obtain ⟨h1, h2, h3⟩ := h.sound x hx
    exact ⟨h1, fun c hc => rt_raw_names hnames h2 c (List.mem_append_right _ hc), h3⟩
  · intro A x B hM q hq
    rcases h.order A x B hM q hq with h' | h'
    · exact absurd (List.prefix_nil.mp h') (rt_properPrefixes_spec hq).1
    · exact h'

/-- **`untar` of what `Pack` wrote is the source tree** -/
theorem rt_pack_untar {fs : FS} {cwd : Str} {o : PackOpts} {src : Str} (ctx : RtCtx fs cwd o src)
    (hign : o.applyIgnore = false) (hfuel : (pack fs cwd o src).2 ≠ .diverged) :
    ∃ t, untar (pack fs cwd o src).1.entries = some t ∧
      ∀ r, r ≠ [] → treeGet t r = srcNode fs (pathSegs src) r := by
  obtain ⟨_, M, hent, hsub⟩ := rt_pack_listing ctx hign hfuel
  obtain ⟨t, ht, h1, h2⟩ := rt_untar_listing M (rtSub_listing ctx.names hsub)
  refine ⟨t, by rw [hent]; exact ht, ?_⟩
  intro r hr
  unfold srcNode
  cases hraw : rtRaw fs (pathSegs src) r with
  | none =>
    rw [h2 r hr]
    · rfl
    · intro hm
      obtain ⟨x, hx, e⟩ := List.mem_map.mp hm
      have := (hsub.sound x hx).2.1
      rw [e, hraw] at this; cases this
  | some nd =>
    by_cases hs : nd = .special
    · subst hs
      rw [h2 r hr]
      · rfl
      · intro hm
        obtain ⟨x, hx, e⟩ := List.mem_map.mp hm
        obtain ⟨_, g1, g2⟩ := hsub.sound x hx
        rw [e, hraw] at g1
        exact g2 (Option.some.inj g1).symm
    · exact h1 r nd (hsub.complete r nd hr hraw hs)

/-! ## the statement of C02 on entries -/

/-- the node an entry stands for -/
def rtNodeOf (e : Entry) : Node :=
  if e.isDir then .dir e.mode e.mtime
  else if e.isSymlink then .link e.link
  else .file e.mode e.mtime e.body

theorem rt_nodeOf_rtEntry (r : RelPath) (nd : Node) (h : nd ≠ .special) :
    some (rtNodeOf (rtEntry r nd)) = rtConv nd := by
  cases nd with
  | special => exact absurd rfl h
  | dir perm mt => rfl
  | file perm mt c => rfl
  | link t => rfl

theorem rt_isDir_rtEntry (r : RelPath) (nd : Node) : (rtEntry r nd).isDir = true ↔ ∃ perm mt, nd = .dir perm mt := by
  cases nd with
  | dir perm mt => exact ⟨fun _ => ⟨perm, mt, rfl⟩, fun _ => rfl⟩
  | file perm mt c => exact ⟨fun h => (nomatch h), fun ⟨_, _, h⟩ => (nomatch h)⟩
  | link t => exact ⟨fun h => (nomatch h), fun ⟨_, _, h⟩ => (nomatch h)⟩
  | special => exact ⟨fun h => (nomatch h), fun ⟨_, _, h⟩ => (nomatch h)⟩

theorem rt_keys_eq {M : List (RelPath × Node)} (hM : RtListing M) :
    (M.map rtEntryP).map (fun e => entryRel e.name) = M.map (·.1) := by
  rw [List.map_map]
  apply List.map_congr_left
  intro x hx
  exact rt_entryRel_rtEntry x.1 x.2 (hM.names x hx).2.1

theorem rt_srcNode_link {fs : FS} {P : PPath} {r : RelPath} {t : Str} :
    srcNode fs P r = some (.link t) ↔ rtRaw fs P r = some (.link t) := by
  unfold srcNode
  cases h : rtRaw fs P r with
  | none => simp
  | some nd =>
    cases nd <;> simp [rtConv]

theorem rt_srcNode_isSome {fs : FS} {P : PPath} {r : RelPath} :
    (srcNode fs P r).isSome = true ↔ ∃ nd, rtRaw fs P r = some nd ∧ nd ≠ .special := by
  unfold srcNode
  cases h : rtRaw fs P r with
  | none => simp
  | some nd =>
    cases nd <;> simp [rtConv]

/-- `rt_pack_listing` read off the entry list -/
theorem rt_pack_preorder {fs : FS} {cwd : Str} {o : PackOpts} {src : Str} (ctx : RtCtx fs cwd o src)
    (hign : o.applyIgnore = false) (hfuel : (pack fs cwd o src).2 ≠ .diverged) :
    (pack fs cwd o src).2 = .ok ∧
    ((pack fs cwd o src).1.entries.map (fun e => entryRel e.name)).Nodup ∧
    (∀ r, r ∈ (pack fs cwd o src).1.entries.map (fun e => entryRel e.name) ↔
      (srcNode fs (pathSegs src) r).isSome = true) ∧
    (∀ e ∈ (pack fs cwd o src).1.entries, ∃ nd, rtRaw fs (pathSegs src) (entryRel e.name) = some nd ∧
      nd ≠ .special ∧ e = rtEntry (entryRel e.name) nd) ∧
    (∀ A e B, (pack fs cwd o src).1.entries = A ++ e :: B → ∀ q ∈ properPrefixes (entryRel e.name),
      ∃ d ∈ A, d.isDir = true ∧ entryRel d.name = q) ∧
    ((pack fs cwd o src).1.entries.map (fun e => entryRel e.name)).Pairwise (· < ·) := by
  obtain ⟨hok, M, hent, hsub⟩ := rt_pack_listing ctx hign hfuel
  have hM := rtSub_listing ctx.names hsub
  have hkeys := rt_keys_eq hM
  refine ⟨hok, ?_, ?_, ?_, ?_, by rw [hent, hkeys]; exact hsub.sorted⟩
  · rw [hent, hkeys]; exact hsub.nodup
  · intro r
    rw [hent, hkeys, rt_srcNode_isSome]
    constructor
    · intro hm
      obtain ⟨x, hx, e⟩ := List.mem_map.mp hm
      obtain ⟨_, h2, h3⟩ := hsub.sound x hx
      exact ⟨x.2, by rw [← e]; exact h2, h3⟩
    · rintro ⟨nd, h1, h2⟩
      exact List.mem_map.mpr ⟨(r, nd), hsub.complete r nd (rt_raw_some.mp h1).1 h1 h2, rfl⟩
  · intro e he
    rw [hent] at he
    obtain ⟨x, hx, rfl⟩ := List.mem_map.mp he
    obtain ⟨_, h2, h3⟩ := hsub.sound x hx
    have hk : entryRel (rtEntryP x).name = x.1 := rt_entryRel_rtEntry x.1 x.2 (hM.names x hx).2.1
    exact ⟨x.2, by rw [hk]; exact h2, h3, by rw [hk]; rfl⟩
  · intro A e B hes q hq
    rw [hent] at hes
    obtain ⟨A', R, hMe, hA, hR⟩ := List.map_eq_append_iff.mp hes
    obtain ⟨x, B', hRe, hx, _⟩ := List.map_eq_cons_iff.mp hR
    subst hRe
    have hxm : x ∈ M := by rw [hMe]; simp
    have hk : entryRel e.name = x.1 := by
      rw [← hx]; exact rt_entryRel_rtEntry x.1 x.2 (hM.names x hxm).2.1
    rw [hk] at hq
    obtain ⟨pm, t, hd⟩ := hM.order A' x B' hMe q hq
    have hdm : (q, Node.dir pm t) ∈ M := by rw [hMe]; exact List.mem_append_left _ hd
    refine ⟨rtEntryP (q, .dir pm t), by rw [← hA]; exact List.mem_map.mpr ⟨_, hd, rfl⟩, rfl, ?_⟩
    exact rt_entryRel_rtEntry q _ (hM.names _ hdm).2.1

/-! ## entry names in general (any options): `Rel` never returns an empty string -/

theorem rt_split_join_filter (N : List Seg) (h : ∀ x ∈ N, PkSeg x) :
    (splitOn '/' (joinWith '/' N)).filter (· ≠ []) = N := by
  by_cases hne : N = []
  · subst hne; decide
  · rw [splitOn_joinWith '/' N hne (fun x hx => (h x hx).1), List.filter_eq_self]
    intro x hx
    simp [(h x hx).2.1]

/-- the path segments of a cleaned path, as `filepath.Rel` computes them -/
def rtRelSegs (c : Str) : List Seg := (splitOn '/' (if isAbs c then c.drop 1 else c)).filter (· ≠ [])

/-- a cleaned path is its segments joined again, behind `/` if it is rooted -/
theorem rt_clean_recompose (s : Str) :
    pathClean s = (if isAbs (pathClean s) then ['/'] else []) ++ joinWith '/' (rtRelSegs (pathClean s)) := by
  unfold rtRelSegs
  by_cases ha : isAbs s = true
  · have e : pathClean s = '/' :: joinWith '/' (cleanSegs true (splitOn '/' s)) := by
      unfold pathClean; simp [ha]
    have habs : isAbs (pathClean s) = true := by rw [e]; rfl
    rw [habs]
    simp only [if_true]
    rw [e]
    simp only [List.drop_succ_cons, List.drop_zero]
    rw [rt_split_join_filter _ (pk_cleanSegs_pkSeg true s)]
    rfl
  · have ha' : isAbs s = false := by simpa using ha
    by_cases hs : cleanSegs false (splitOn '/' s) = []
    · have e : pathClean s = dot := by unfold pathClean; simp [ha', hs]
      rw [e]; decide
    · have e : pathClean s = joinWith '/' (cleanSegs false (splitOn '/' s)) := by
        unfold pathClean; simp [ha', hs]
      have habs : isAbs (pathClean s) = false := pk_isAbs_pathClean_rel s ha'
      rw [habs]
      simp only [Bool.false_eq_true, if_false, List.nil_append]
      rw [e, rt_split_join_filter _ (pk_cleanSegs_pkSeg false s)]

theorem rt_clean_ne_nil (s : Str) : pathClean s ≠ [] := by
  by_cases ha : isAbs s = true
  · unfold pathClean; simp [ha]
  · have ha' : isAbs s = false := by simpa using ha
    by_cases hs : cleanSegs false (splitOn '/' s) = []
    · have e : pathClean s = dot := by unfold pathClean; simp [ha', hs]
      rw [e]; decide
    · have e : pathClean s = joinWith '/' (cleanSegs false (splitOn '/' s)) := by
        unfold pathClean; simp [ha', hs]
      rw [e]
      intro e'
      have h1 := pk_pathSegs_joinWith _ (pk_cleanSegs_pkSeg false s)
      rw [e'] at h1
      exact hs (h1.symm.trans ps_pathSegs_nil)

theorem rt_strip_eq_nil : ∀ (xs ys : List Seg), pathRel.strip xs ys = ([], []) → xs = ys := by
  intro xs
  induction xs with
  | nil => intro ys h; cases ys <;> simp [pathRel.strip] at h ⊢
  | cons x xs ih =>
    intro ys h
    cases ys with
    | nil => simp [pathRel.strip] at h
    | cons y ys =>
      rw [pathRel.strip] at h
      split at h
      · rename_i e; rw [e, ih ys h]
      · simp at h

theorem rt_strip_snd_mem : ∀ (xs ys : List Seg), ∀ z ∈ (pathRel.strip xs ys).2, z ∈ ys := by
  intro xs
  induction xs with
  | nil =>
    intro ys z hz
    cases ys with
    | nil => simp [pathRel.strip] at hz
    | cons y ys => simpa [pathRel.strip] using hz
  | cons x xs ih =>
    intro ys z hz
    cases ys with
    | nil => simp [pathRel.strip] at hz
    | cons y ys =>
      rw [pathRel.strip] at hz
      split at hz
      · exact List.mem_cons_of_mem _ (ih ys z hz)
      · exact hz


theorem rt_relSegs_mem (c : Str) : ∀ x ∈ rtRelSegs c, x ≠ [] ∧ '/' ∉ x := by
  intro x hx
  unfold rtRelSegs at hx
  rw [List.mem_filter] at hx
  exact ⟨by simpa using hx.2, splitOn_noSep '/' _ x hx.1⟩

theorem rt_strip_nil (ys : List Seg) : pathRel.strip [] ys = ([], ys) := by
  cases ys <;> simp [pathRel.strip]

theorem rt_pathRel_shape (a b sub : Str) (h : pathRel a b = some sub) (hd : sub ≠ dot) :
    ∃ L : List Seg, L ≠ [] ∧ (∀ x ∈ L, x ≠ [] ∧ '/' ∉ x) ∧ sub = joinWith '/' L := by
  have hrB := rt_clean_recompose a
  have hrT := rt_clean_recompose b
  have hnB := rt_clean_ne_nil a
  have hnT := rt_clean_ne_nil b
  unfold pathRel at h
  simp only at h
  generalize pathClean a = B at *
  generalize pathClean b = T at *
  have eB : List.filter (fun x => decide (x ≠ [])) (splitOn '/' (if isAbs B = true then List.drop 1 B else B)) =
      rtRelSegs B := rfl
  have eT : List.filter (fun x => decide (x ≠ [])) (splitOn '/' (if isAbs T = true then List.drop 1 T else T)) =
      rtRelSegs T := rfl
  by_cases hbt : B = T
  · rw [if_pos hbt] at h; cases h; exact absurd rfl hd
  rw [if_neg hbt] at h
  by_cases hbd : B = dot
  · simp only [if_pos hbd, eT, ne_eq, not_true_eq_false, and_false, if_false, true_and, if_true, rt_strip_nil,
      List.any_nil, Bool.false_eq_true, List.map_nil, List.nil_append] at h
    split at h
    · cases h
    · rename_i habs
      cases h
      refine ⟨rtRelSegs T, ?_, rt_relSegs_mem T, rfl⟩
      intro e
      rw [e] at hrT
      simp only [habs, if_false, Bool.false_eq_true] at hrT
      exact hnT hrT
  · simp only [if_neg hbd, hnB, eB, eT, ne_eq, not_false_eq_true, and_true, false_and, if_false] at h
    split at h
    · cases h
    · rename_i habs
      have habs' : isAbs B = isAbs T := by simpa using habs
      split at h
      · cases h
      · cases h
        refine ⟨_, ?_, ?_, rfl⟩
        · intro e
          have e1 : (pathRel.strip (rtRelSegs B) (rtRelSegs T)).1 = [] := by
            cases hx : (pathRel.strip (rtRelSegs B) (rtRelSegs T)).1 with
            | nil => rfl
            | cons x xs => rw [hx] at e; simp at e
          have e2 : (pathRel.strip (rtRelSegs B) (rtRelSegs T)).2 = [] := by
            rw [e1] at e; simpa using e
          have := rt_strip_eq_nil _ _ (Prod.ext e1 e2)
          apply hbt
          rw [hrB, hrT, habs', this]
        · intro x hx
          rcases List.mem_append.mp hx with h' | h'
          · obtain ⟨_, _, rfl⟩ := List.mem_map.mp h'
            exact ⟨by decide, by decide⟩
          · exact rt_relSegs_mem T x (rt_strip_snd_mem _ _ x h')

theorem rt_joinWith_last (L : List Seg) (hne : L ≠ []) (h : ∀ x ∈ L, x ≠ [] ∧ '/' ∉ x) :
    ∃ t y, joinWith '/' L = t ++ [y] ∧ y ≠ '/' := by
  rcases ps_eq_nil_or_snoc L with e | ⟨L', x, e⟩
  · exact absurd e hne
  · have hx := h x (by rw [e]; simp)
    rcases ps_eq_nil_or_snoc x with ex | ⟨x', y, ex⟩
    · exact absurd ex hx.1
    · have hy : y ≠ '/' := by
        intro hy; apply hx.2; rw [ex, hy]; simp
      by_cases hL' : L' = []
      · refine ⟨x', y, ?_, hy⟩
        rw [e, hL', ex]; simp [joinWith]
      · refine ⟨joinWith '/' L' ++ '/' :: x', y, ?_, hy⟩
        rw [e, ps_joinWith_append '/' L' [x] hL' (by simp), ex]; simp [joinWith]

/-- a result of `filepath.Rel` other than `.` is not empty and does not end in a separator -/
theorem rt_pathRel_sub (a b sub : Str) (h : pathRel a b = some sub) (hd : sub ≠ dot) :
    sub ≠ [] ∧ hasSuffix sub ['/'] = false := by
  obtain ⟨L, h1, h2, h3⟩ := rt_pathRel_shape a b sub h hd
  obtain ⟨t, y, e, hy⟩ := rt_joinWith_last L h1 h2
  rw [h3, e]
  refine ⟨by simp, ?_⟩
  simp [hasSuffix, List.isPrefixOf, hy.symm]

/-- the shape of an entry `packWalkFn` writes, whatever the options: the name is a result of
`filepath.Rel` other than `.` (plus `/` for a directory), the type is one of the three the code
produces -/
def RtNameOK (e : Entry) : Prop :=
  ∃ a b sub, pathRel a b = some sub ∧ sub ≠ dot ∧
    ((e.typ = tDir ∧ e.name = sub ++ ['/']) ∨ ((e.typ = tReg ∨ e.typ = tSymlink) ∧ e.name = sub))

def RtAllNames (st : PState) : Prop := ∀ e ∈ st.entries, RtNameOK e

theorem rt_names_push {st : PState} {e : Entry} {pm : PMeta} (h : RtAllNames st) (he : RtNameOK e) :
    RtAllNames { entries := st.entries ++ [e], pmeta := pm } := by
  intro x hx
  rcases List.mem_append.mp hx with h' | h'
  · exact h x h'
  · simp only [List.mem_singleton] at h'; rw [h']; exact he

theorem rt_visit_names (fs : FS) (cwd : Str) (rules : Option (List Rule)) (root : Str) (fuel : Nat)
    (ihN : ∀ (o : PackOpts) src dst path node st, RtAllNames st →
      RtAllNames (walkNode fs cwd o rules root src dst fuel path node st).1) :
    ∀ (o : PackOpts) src dst path node st, RtAllNames st →
      RtAllNames (visit fs cwd o rules root src dst (fuel + 1) path node st).1 := by
  intro o src dst path node st hst
  cases node <;> rw [visit] <;> first | (intro _ _ h; cases h) | skip
  all_goals simp only [↓reduceIte, Bool.false_eq_true]
  all_goals repeat' split
  all_goals first
    | exact hst
    | exact ihN _ _ _ _ _ _ hst
    | exact rt_names_push hst ⟨_, _, _, ‹pathRel root (replaceFirst _ _ _) = some _›, ‹_›, Or.inl ⟨rfl, rfl⟩⟩
    | exact rt_names_push hst ⟨_, _, _, ‹pathRel root (replaceFirst _ _ _) = some _›, ‹_›, Or.inr ⟨Or.inl rfl, rfl⟩⟩
    | exact rt_names_push hst ⟨_, _, _, ‹pathRel root (replaceFirst _ _ _) = some _›, ‹_›, Or.inr ⟨Or.inr rfl, rfl⟩⟩

/-- (the options are quantified inside the induction: the nested walk into a dereferenced
directory runs with a longer `visiting` list) -/
theorem rt_walk_names_all (fs : FS) (cwd : Str) (rules : Option (List Rule)) (root : Str) :
    ∀ fuel : Nat,
      (∀ (o : PackOpts) src dst path node st, RtAllNames st →
        RtAllNames (walkNode fs cwd o rules root src dst fuel path node st).1) ∧
      (∀ (o : PackOpts) src dst path names st, RtAllNames st →
        RtAllNames (walkChildren fs cwd o rules root src dst fuel path names st).1) ∧
      (∀ (o : PackOpts) src dst path node st, RtAllNames st →
        RtAllNames (visit fs cwd o rules root src dst fuel path node st).1) := by
  intro fuel
  induction fuel with
  | zero =>
    refine ⟨?_, ?_, ?_⟩
    · intro o src dst path node st h; rw [walkNode]; exact h
    · intro o src dst path names st h; rw [walkChildren]; exact h
    · intro o src dst path node st h; rw [visit]; exact h
  | succ fuel ih =>
    obtain ⟨ihN, ihC, ihV⟩ := ih
    refine ⟨?_, ?_, ?_⟩
    · intro o src dst path node st hst
      have hv := ihV o src dst path node st hst
      cases node with
      | dir perm mt =>
        rw [walkNode]
        simp only
        split
        · split
          · exact hv
          · exact ihC _ _ _ _ _ _ hv
        · exact hv
      | file perm mt c => rw [walkNode]; exact hv; intro _ _ h; cases h
      | link t => rw [walkNode]; exact hv; intro _ _ h; cases h
      | special => rw [walkNode]; exact hv; intro _ _ h; cases h
    · intro o src dst path names st hst
      cases names with
      | nil => rw [walkChildren]; exact hst
      | cons name rest =>
        rw [walkChildren]
        simp only
        split
        · exact hst
        · rename_i child hc
          have hn := ihN o src dst (pathJoin path name) child st hst
          split
          · exact ihC _ _ _ _ _ _ hn
          · split
            · exact ihC _ _ _ _ _ _ hn
            · exact hn
          · exact hn
    · exact rt_visit_names fs cwd rules root fuel ihN

theorem rt_walk_names (fs : FS) (cwd : Str) (o : PackOpts) (rules : Option (List Rule)) (root : Str) :
    ∀ fuel : Nat,
      (∀ src dst path node st, RtAllNames st →
        RtAllNames (walkNode fs cwd o rules root src dst fuel path node st).1) ∧
      (∀ src dst path names st, RtAllNames st →
        RtAllNames (walkChildren fs cwd o rules root src dst fuel path names st).1) ∧
      (∀ src dst path node st, RtAllNames st →
        RtAllNames (visit fs cwd o rules root src dst fuel path node st).1) := fun fuel =>
  ⟨(rt_walk_names_all fs cwd rules root fuel).1 o, (rt_walk_names_all fs cwd rules root fuel).2.1 o,
    (rt_walk_names_all fs cwd rules root fuel).2.2 o⟩

/-- every entry `Pack` writes — for any options, source and result — has the shape `RtNameOK` -/
theorem rt_pack_names (fs : FS) (cwd : Str) (o : PackOpts) (src : Str) : RtAllNames (pack fs cwd o src).1 := by
  have h0 : RtAllNames pkEmpty := fun e he => (nomatch he)
  rw [pk_pack_eq]
  split
  · exact h0
  · split
    · exact h0
    · rw [pkFinish_fst]
      exact (rt_walk_names fs cwd o _ _ packFuel).1 _ _ _ _ _ h0

/-! ## rounding -/

/-- `roundSec` rounds to the nearest second, halves up (`/` on `Int` rounds towards minus
infinity for a positive divisor, so this also holds for times before 1970) -/
theorem rt_roundSec_iff (ns s : Int) :
    roundSec ns = s ↔ s * 1000000000 - 500000000 ≤ ns ∧ ns < s * 1000000000 + 500000000 := by
  unfold roundSec
  omega

/-! ## Pack's output is a well-formed archive -/

theorem rtListing_prefix {A B : List (RelPath × Node)} (h : RtListing (A ++ B)) : RtListing A := by
  refine ⟨fun x hx => h.names x (List.mem_append_left _ hx), ?_, ?_⟩
  · have := h.nodup
    rw [List.map_append, List.nodup_append] at this
    exact this.1
  · intro A1 x A2 e q hq
    exact h.order A1 x (A2 ++ B) (by rw [e]; simp) q hq

theorem rt_isSymlink_rtEntry (r : RelPath) (nd : Node) (h : (rtEntry r nd).isSymlink = true) :
    ∃ t, nd = .link t := by
  cases nd with
  | link t => exact ⟨t, rfl⟩
  | dir perm mt => exact (nomatch h)
  | file perm mt c => exact (nomatch h)
  | special => exact (nomatch h)

theorem rt_splitOn_rtEntry (r : RelPath) (nd : Node) (hne : r ≠ []) (hr : ∀ c ∈ r, NameNS c) :
    ∀ c ∈ splitOn '/' (rtEntry r nd).name, c ∈ r ∨ c = [] := by
  have hs : splitOn '/' (joinWith '/' r) = r := splitOn_joinWith '/' r hne (fun x hx => (hr x hx).2)
  intro c hc
  cases nd with
  | dir perm mt =>
    have : splitOn '/' (joinWith '/' r ++ ['/']) = r ++ [[]] := by
      rw [splitOn_append, hs]; rfl
    change c ∈ splitOn '/' (joinWith '/' r ++ ['/']) at hc
    rw [this] at hc
    rcases List.mem_append.mp hc with h | h
    · exact Or.inl h
    · simp at h; exact Or.inr h
  | file perm mt c' => change c ∈ splitOn '/' (joinWith '/' r) at hc; rw [hs] at hc; exact Or.inl hc
  | link t => change c ∈ splitOn '/' (joinWith '/' r) at hc; rw [hs] at hc; exact Or.inl hc
  | special => change c ∈ splitOn '/' (joinWith '/' r) at hc; rw [hs] at hc; exact Or.inl hc

/-- the entries of a listing whose links are non-empty, relative, tidy and climb less than their
own depth form a well-formed archive in the sense of Spec/Untar -/
theorem rt_listing_wellFormed (M : List (RelPath × Node)) (hM : RtListing M)
    (hlinks : ∀ r t, (r, Node.link t) ∈ M → t ≠ [] ∧ isAbs t = false ∧
      ∃ ups names, pathSegs t = List.replicate ups dotdot ++ names ∧ (∀ s ∈ names, s ≠ dotdot) ∧ ups < r.length) :
    WellFormedArchive (M.map rtEntryP) := by
  refine ⟨?_, ?_, ?_⟩
  · intro e he _ hdd
    obtain ⟨x, hx, rfl⟩ := List.mem_map.mp he
    obtain ⟨h1, h2, _⟩ := hM.names x hx
    rcases rt_splitOn_rtEntry x.1 x.2 h1 h2 dotdot hdd with h | h
    · exact (h2 _ h).1.2.2 rfl
    · exact absurd h (by decide)
  · intro pre e post st hes hpre _ _
    obtain ⟨A, R, hMe, hA, hR⟩ := List.map_eq_append_iff.mp hes
    obtain ⟨x, B, hRe, hx, _⟩ := List.map_eq_cons_iff.mp hR
    subst hRe
    have hxm : x ∈ M := by rw [hMe]; simp
    have hk : entryRel e.name = x.1 := by
      rw [← hx]; exact rt_entryRel_rtEntry x.1 x.2 (hM.names x hxm).2.1
    have hMA : RtListing A := rtListing_prefix (by rw [← hMe]; exact hM)
    obtain ⟨st', hf, hinv⟩ := rt_untar_fold A hMA A [] _ rfl rt_inv_init
    rw [hA, hpre] at hf
    cases hf
    rw [hk]
    constructor
    · intro q hq n hn
      obtain ⟨pm, t, hd⟩ := hM.order A x B hMe q hq
      obtain ⟨pm', t', hg⟩ := hinv.dirs q pm t hd
      rw [hg] at hn; cases hn
      exact ⟨pm', t', rfl⟩
    · have hfresh : x.1 ∉ A.map (·.1) := by
        have := hM.nodup
        rw [hMe, List.map_append, List.map_cons, List.nodup_append] at this
        intro hmem
        exact this.2.2 _ hmem _ (by simp) rfl
      rw [hinv.fresh x.1 hfresh (hM.names x hxm).1]
      trivial
  · intro e he hs _
    obtain ⟨x, hx, rfl⟩ := List.mem_map.mp he
    obtain ⟨r, nd⟩ := x
    obtain ⟨t, rfl⟩ := rt_isSymlink_rtEntry r nd hs
    have hk : entryRel (rtEntryP (r, Node.link t)).name = r := rt_entryRel_rtEntry r _ (hM.names _ hx).2.1
    rw [hk]
    exact hlinks r t hx

/-- `Pack`'s output is a well-formed archive when the links of the source tree are non-empty,
relative, tidy (all `..` first) and climb less than their own depth -/
theorem rt_pack_wellFormed {fs : FS} {cwd : Str} {o : PackOpts} {src : Str} (ctx : RtCtx fs cwd o src)
    (hign : o.applyIgnore = false) (hfuel : (pack fs cwd o src).2 ≠ .diverged)
    (hlinks : ∀ r t, rtRaw fs (pathSegs src) r = some (.link t) → t ≠ [] ∧ isAbs t = false ∧
      ∃ ups names, pathSegs t = List.replicate ups dotdot ++ names ∧ (∀ s ∈ names, s ≠ dotdot) ∧ ups < r.length) :
    WellFormedArchive (pack fs cwd o src).1.entries ∧
    (∀ e ∈ (pack fs cwd o src).1.entries, e.isTypeX = false) := by
  obtain ⟨_, M, hent, hsub⟩ := rt_pack_listing ctx hign hfuel
  rw [hent]
  refine ⟨rt_listing_wellFormed M (rtSub_listing ctx.names hsub)
    (fun r t hm => hlinks r t (hsub.sound _ hm).2.1), ?_⟩
  intro e he
  obtain ⟨x, hx, rfl⟩ := List.mem_map.mp he
  obtain ⟨r, nd⟩ := x
  have := (hsub.sound _ hx).2.2
  cases nd with
  | special => exact absurd rfl this
  | dir perm mt => rfl
  | file perm mt c => rfl
  | link t => rfl

/-! ## decidable forms of the hypotheses (for closed examples) -/

/-- `RtPhys` as a finite check -/
def rtPhysCheck (fs : FS) (P : PPath) : Bool :=
  (List.range (P.length + 1)).all fun i => i = 0 || rtIsDir (fs.get (P.take i))

theorem rt_phys_of_check {fs : FS} {P : PPath} (h : rtPhysCheck fs P = true) : RtPhys fs P := by
  intro q hq hpre
  unfold rtPhysCheck at h
  rw [List.all_eq_true] at h
  have := h q.length (List.mem_range.mpr (by have := hpre.length_le; omega))
  have hq0 : q.length ≠ 0 := by
    cases q with
    | nil => exact absurd rfl hq
    | cons a l => simp
  simp only [hq0, decide_false, Bool.false_or] at this
  rw [← List.prefix_iff_eq_take.mp hpre] at this
  exact (rt_isDir_iff _).mp this

/-- "every link bound below `P` is accepted" as a finite check -/
def rtLinksCheck (fs : FS) (cwd : Str) (o : PackOpts) (src : Str) : Bool :=
  fs.all fun e =>
    match e.2 with
    | .link t => !(pathSegs src).isPrefixOf e.1 || validSymlink cwd o.allow src (ofSegs e.1) t
    | _ => true

theorem rt_links_of_check {fs : FS} {cwd : Str} {o : PackOpts} {src : Str}
    (h : rtLinksCheck fs cwd o src = true) :
    ∀ r t, rtRaw fs (pathSegs src) r = some (.link t) →
      validSymlink cwd o.allow src (ofSegs (pathSegs src ++ r)) t = true := by
  intro r t hr
  have hm := rt_get_mem (rt_raw_some.mp hr).2.2
  unfold rtLinksCheck at h
  rw [List.all_eq_true] at h
  have := h _ hm
  simp only [Bool.or_eq_true, Bool.not_eq_true'] at this
  rcases this with h' | h'
  · have : (pathSegs src).isPrefixOf (pathSegs src ++ r) = true :=
      List.isPrefixOf_iff_prefix.mpr (List.prefix_append _ _)
    rw [this] at h'; cases h'
  · exact h'

theorem rt_takeWhile_split (l : List Seg) :
    l = List.replicate (l.takeWhile (· = dotdot)).length dotdot ++ l.drop (l.takeWhile (· = dotdot)).length := by
  induction l with
  | nil => rfl
  | cons x xs ih =>
    by_cases hx : x = dotdot
    · subst hx
      simp only [List.takeWhile_cons, decide_true, if_true, List.length_cons, List.replicate_succ,
        List.drop_succ_cons, List.cons_append]
      rw [← ih]
    · simp [hx]

/-- the shape of links `WellFormedArchive` asks for, as a finite check on the bindings below `P` -/
def rtTidyCheck (fs : FS) (P : PPath) : Bool :=
  fs.all fun e =>
    match e.2 with
    | .link t =>
      !P.isPrefixOf e.1 ||
        (t ≠ [] && !isAbs t &&
          (let segs := pathSegs t
           let ups := (segs.takeWhile (· = dotdot)).length
           (segs.drop ups).all (· ≠ dotdot) && ups < e.1.length - P.length))
    | _ => true

theorem rt_tidy_of_check {fs : FS} {P : PPath} (h : rtTidyCheck fs P = true) :
    ∀ r t, rtRaw fs P r = some (.link t) → t ≠ [] ∧ isAbs t = false ∧
      ∃ ups names, pathSegs t = List.replicate ups dotdot ++ names ∧ (∀ s ∈ names, s ≠ dotdot) ∧ ups < r.length := by
  intro r t hr
  have hm := rt_get_mem (rt_raw_some.mp hr).2.2
  unfold rtTidyCheck at h
  rw [List.all_eq_true] at h
  have := h _ hm
  simp only [Bool.or_eq_true, Bool.not_eq_true', Bool.and_eq_true, decide_eq_true_eq, List.all_eq_true] at this
  rcases this with h' | ⟨⟨h1, h2⟩, h3, h4⟩
  · have : P.isPrefixOf (P ++ r) = true := List.isPrefixOf_iff_prefix.mpr (List.prefix_append _ _)
    rw [this] at h'; cases h'
  · refine ⟨h1, h2, ((pathSegs t).takeWhile (· = dotdot)).length, (pathSegs t).drop ((pathSegs t).takeWhile (· = dotdot)).length, ?_, ?_, ?_⟩
    · exact rt_takeWhile_split (pathSegs t)
    · intro s hs
      have := h3 s hs
      simpa using this
    · simpa using h4

end Slug
