import SlugModel.Generated.Tr_isDirectory
import SlugModel.Unpack
/-!
# `isDirectory`: the model function equals the translation of the Go function

The definition `Slug.Gen.isDirectory` (Generated/Tr_isDirectory.lean) is rewritten from /repo by harness/cmd/go2lean on
every run; the theorems here are re-checked against it.

`gen_isDirectory_flag` states the translation over the type flag, `gen_isDirectory` over an `Entry` with that type flag
(the model's `Entry.isDir`), `gen_isDirectory_mk` is the form met in `NewUnpackInfo` (the `UnpackInfo` built from the header).
-/
namespace Slug

theorem gen_isDirectory_flag (i : Go.UnpackInfo) : Gen.isDirectory i = decide (i.typeflag = tDir) := by
  simp [Gen.isDirectory, Id.run, tDir]; rfl

theorem gen_isDirectory (i : Go.UnpackInfo) (e : Entry) (h : e.typ = i.typeflag) :
    Gen.isDirectory i = e.isDir := by
  rw [gen_isDirectory_flag, Entry.isDir, h]

theorem gen_isDirectory_mk (p : Str) (e : Entry) :
    Gen.isDirectory { path := p, typeflag := e.typ } = e.isDir := gen_isDirectory _ e rfl

end Slug
