import SlugModel.Generated.Tr_allowedSymlinkTarget
import SlugModel.Unpack
/-!
# `allowedSymlinkTarget`: the model function equals the translation of the Go function

The definition `Slug.Gen.allowedSymlinkTarget` (Generated/Tr_allowedSymlinkTarget.lean) is rewritten from /repo by harness/cmd/go2lean on
every run; the theorem here is re-checked against it.
-/
namespace Slug

set_option hygiene false in
/-- one iteration of the loop of `allowedSymlinkTarget`, the prefix after the `IsAbs` test being `$pre` -/
local macro "loop_iter" pre:term : tactic => `(tactic|
  (by_cases h2 : t = $pre
   · simp [h2, Id.run]; rfl
   · by_cases h3 : hasSuffix $pre ['/'] = true
     · by_cases h4 : hasPrefix t $pre = true
       · simp [h2, h3, h4, Id.run]; rfl
       · simp [h2, h3, h4, Id.run]
     · by_cases h4 : hasPrefix t ($pre ++ ['/']) = true
       · simp [h2, h3, h4, Id.run]; rfl
       · simp [h2, h3, h4, Id.run]))

theorem gen_allowedSymlinkTarget (allow : List Str) (r t : Str) :
    Gen.allowedSymlinkTarget allow r t = allowedTarget allow r t := by
  unfold Gen.allowedSymlinkTarget allowedTarget
  induction allow with
  | nil => simp [Id.run]; rfl
  | cons a rest ih =>
    simp only [List.forIn_cons, List.any_cons]
    simp only [] at ih
    rw [← ih]
    simp only [Go.isAbs, Go.hasSuffix, Go.hasPrefix, Go.pathJoin]
    by_cases h1 : isAbs a = true <;>
      simp only [h1, Bool.not_true, Bool.not_false, if_true, if_false, Bool.false_eq_true]
    · loop_iter a
    · loop_iter (pathJoin r a)

end Slug
