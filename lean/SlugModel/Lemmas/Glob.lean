import SlugModel.Ignore
import SlugModel.Spec.Glob
import SlugModel.Lemmas.Str
/-!
# Lemmas/Glob — helper lemmas for C03, part 1

* extracted facts: `dotOK_true`, `unsupportedChar_iff`
* `toks` / `compileSegs`: the structured counterpart of the character scanner `compileRx`
* `starLoop_iff`, `toks_append_iff`: one segment pattern consumes exactly one `/`-free chunk
* `WFVal`: well-formed stored patterns, and `compileRx_eq_compileSegs`
-/
namespace Slug

/-! ### extracted facts -/

/-- with the `(?s)` flag (extracted fact `Generated.dotAll = true`) `.` accepts every character -/
theorem dotOK_true (c : Char) : dotOK c = true := by
  simp [dotOK, Generated.dotAll]

/-- for the current extracted `escapedChars`, exactly `[`, `]`, `\` are unsupported -/
theorem unsupportedChar_iff (c : Char) :
    unsupportedChar c = true ↔ c = '[' ∨ c = ']' ∨ c = '\\' := by
  simp only [unsupportedChar, regexMeta, Generated.escapedChars, Bool.or_eq_true, Bool.and_eq_true,
    decide_eq_true_eq, Bool.not_eq_true', or_assoc]
  constructor
  · rintro (h | h | h | ⟨h1, h2⟩)
    · exact Or.inl h
    · exact Or.inr (Or.inl h)
    · exact Or.inr (Or.inr h)
    · rw [h1] at h2; cases h2
  · rintro (h | h | h)
    · exact Or.inl h
    · exact Or.inr (Or.inl h)
    · exact Or.inr (Or.inr (Or.inl h))

theorem unsupportedChar_slash : unsupportedChar '/' = false := by decide

/-! ### structured compilation -/

def toks : List Atom → List Tok
  | [] => []
  | .lit c :: r => .lit c :: toks r
  | .star :: r => .star :: toks r
  | .q :: r => .any1 :: toks r

/-- the regular expression of a list of segment patterns: `**` as last segment is `.*`,
elsewhere `(.*/)?`; other segments are joined with a literal `/` -/
def compileSegs : List PSeg → List Tok
  | [] => []
  | [.dstar] => [.rest]
  | .dstar :: r => .dirs :: compileSegs r
  | [.seg as] => toks as
  | .seg as :: r => toks as ++ .lit '/' :: compileSegs r

theorem compileSegs_dstar_cons (p : PSeg) (ps : List PSeg) :
    compileSegs (.dstar :: p :: ps) = .dirs :: compileSegs (p :: ps) := by
  simp [compileSegs]

theorem compileSegs_seg_cons (as : List Atom) (p : PSeg) (ps : List PSeg) :
    compileSegs (.seg as :: p :: ps) = toks as ++ .lit '/' :: compileSegs (p :: ps) := by
  simp [compileSegs]

theorem toks_append (a b : List Atom) : toks (a ++ b) = toks a ++ toks b := by
  induction a with
  | nil => rfl
  | cons x a ih => cases x <;> simp [toks, ih]

/-! ### `[^/]*` -/

theorem starLoop_iff (k : Str → Bool) (s : Str) :
    starLoop k s = true ↔ ∃ w t, s = w ++ t ∧ (∀ c ∈ w, c ≠ '/') ∧ k t = true := by
  induction s with
  | nil =>
    simp only [starLoop]
    constructor
    · intro h; exact ⟨[], [], rfl, by simp, h⟩
    · rintro ⟨w, t, h, _, hk⟩
      have : w = [] ∧ t = [] := by simpa using h.symm
      simpa [this.2] using hk
  | cons c s ih =>
    simp only [starLoop, Bool.or_eq_true, Bool.and_eq_true, bne_iff_ne, ne_eq, ih]
    constructor
    · rintro (h | ⟨hc, w, t, rfl, hw, hk⟩)
      · exact ⟨[], c :: s, rfl, by simp, h⟩
      · exact ⟨c :: w, t, rfl, by
          intro x hx
          rcases List.mem_cons.mp hx with rfl | hx
          · exact hc
          · exact hw x hx, hk⟩
    · rintro ⟨w, t, h, hw, hk⟩
      cases w with
      | nil => left; simp at h; simpa [h] using hk
      | cons x w' =>
        right
        simp only [List.cons_append, List.cons.injEq] at h
        obtain ⟨rfl, rfl⟩ := h
        exact ⟨hw c (by simp), w', t, rfl, fun y hy => hw y (by simp [hy]), hk⟩

def NoSlashLit : List Atom → Prop
  | [] => True
  | .lit c :: r => c ≠ '/' ∧ NoSlashLit r
  | _ :: r => NoSlashLit r

/-- a segment's tokens followed by a continuation consume exactly one slash-free chunk -/
theorem toks_append_iff (as : List Atom) (h : NoSlashLit as) (r : List Tok) (s : Str) :
    matchT (toks as ++ r) s = true ↔
      ∃ u v, s = u ++ v ∧ (∀ c ∈ u, c ≠ '/') ∧ segMatch as u = true ∧ matchT r v = true := by
  induction as generalizing s with
  | nil =>
    simp only [toks, List.nil_append, segMatch]
    constructor
    · intro hm; exact ⟨[], s, rfl, by simp, by simp, hm⟩
    · rintro ⟨u, v, rfl, _, hu, hv⟩
      have : u = [] := by simpa using hu
      simpa [this] using hv
  | cons a as ih =>
    cases a with
    | lit c =>
      obtain ⟨hc, h'⟩ := h
      simp only [toks, List.cons_append, matchT]
      cases s with
      | nil =>
        simp only [Bool.false_eq_true, false_iff]
        rintro ⟨u, v, huv, _, hu, _⟩
        have : u = [] := by
          cases u with
          | nil => rfl
          | cons _ _ => simp at huv
        simp [this, segMatch] at hu
      | cons x s' =>
        simp only [Bool.and_eq_true, beq_iff_eq, ih h']
        constructor
        · rintro ⟨rfl, u, v, rfl, hu, hm, hv⟩
          exact ⟨x :: u, v, rfl, by
            intro y hy
            rcases List.mem_cons.mp hy with rfl | hy
            · exact hc
            · exact hu y hy, by simp [segMatch, hm], hv⟩
        · rintro ⟨u, v, huv, hu, hm, hv⟩
          cases u with
          | nil => simp [segMatch] at hm
          | cons y u' =>
            simp only [List.cons_append, List.cons.injEq] at huv
            obtain ⟨rfl, rfl⟩ := huv
            simp only [segMatch, Bool.and_eq_true, beq_iff_eq] at hm
            exact ⟨hm.1, u', v, rfl, fun z hz => hu z (by simp [hz]), hm.2, hv⟩
    | star =>
      simp only [toks, List.cons_append, matchT, segMatch, starLoop_iff]
      have h' : NoSlashLit as := h
      constructor
      · rintro ⟨w, t, rfl, hw, hm⟩
        obtain ⟨u, v, rfl, hu, hsm, hv⟩ := (ih h' t).mp hm
        refine ⟨w ++ u, v, by simp, ?_, ⟨w, u, rfl, hw, hsm⟩, hv⟩
        intro c hc
        rcases List.mem_append.mp hc with hc | hc
        · exact hw c hc
        · exact hu c hc
      · rintro ⟨u, v, rfl, hu, ⟨w, u2, rfl, hw, hsm⟩, hv⟩
        refine ⟨w, u2 ++ v, by simp, hw, (ih h' _).mpr ⟨u2, v, rfl, ?_, hsm, hv⟩⟩
        intro c hc
        exact hu c (by simp [hc])
    | q =>
      have h' : NoSlashLit as := h
      simp only [toks, List.cons_append, matchT]
      cases s with
      | nil =>
        simp only [Bool.false_eq_true, false_iff]
        rintro ⟨u, v, huv, _, hu, _⟩
        have : u = [] := by
          cases u with
          | nil => rfl
          | cons _ _ => simp at huv
        simp [this, segMatch] at hu
      | cons x s' =>
        simp only [Bool.and_eq_true, bne_iff_ne, ne_eq, ih h']
        constructor
        · rintro ⟨hx, u, v, rfl, hu, hm, hv⟩
          exact ⟨x :: u, v, rfl, by
            intro y hy
            rcases List.mem_cons.mp hy with rfl | hy
            · exact hx
            · exact hu y hy, by simp [segMatch, hm, hx], hv⟩
        · rintro ⟨u, v, huv, hu, hm, hv⟩
          cases u with
          | nil => simp [segMatch] at hm
          | cons y u' =>
            simp only [List.cons_append, List.cons.injEq] at huv
            obtain ⟨rfl, rfl⟩ := huv
            simp only [segMatch, Bool.and_eq_true, bne_iff_ne, ne_eq] at hm
            exact ⟨hm.1, u', v, rfl, fun z hz => hu z (by simp [hz]), hm.2, hv⟩

/-! ### well-formed stored patterns -/

/-- no two adjacent `*` -/
def noAdjStar : Str → Bool
  | '*' :: '*' :: _ => false
  | _ :: r => noAdjStar r
  | [] => true

/-- a `/`-separated piece of a pattern is `**` or has no two adjacent `*` -/
def pieceOK (p : Str) : Bool := p == ['*', '*'] || noAdjStar p

/-- Well-formed stored pattern: `**` occurs only as a whole `/`-separated piece, no character is
outside the modelled fragment, and the pattern does not end with `/`. -/
def WFVal (val : Str) : Prop :=
  (∀ p ∈ splitOn '/' val, pieceOK p = true) ∧
  (∀ c ∈ val, unsupportedChar c = false) ∧
  val.getLast? ≠ some '/'

instance (val : Str) : Decidable (WFVal val) := by unfold WFVal; exact inferInstance

theorem noAdjStar_cons_star (r : Str) :
    noAdjStar ('*' :: r) = true → (∀ r', r ≠ '*' :: r') ∧ noAdjStar r = true := by
  intro h
  cases r with
  | nil => exact ⟨by simp, rfl⟩
  | cons x r' =>
    by_cases hx : x = '*'
    · subst hx; simp [noAdjStar] at h
    · refine ⟨by simp [hx], ?_⟩
      rw [noAdjStar.eq_2] at h
      · exact h
      · intro r'' _ e; simp only [List.cons.injEq] at e; exact hx e.1

theorem noAdjStar_cons_ne (c : Char) (r : Str) (hc : c ≠ '*') :
    noAdjStar (c :: r) = noAdjStar r := by
  rw [noAdjStar.eq_2]
  intro r' e _
  exact hc e

theorem compileRx_star (r : Str) (h : ∀ r', r ≠ '*' :: r') :
    compileRx ('*' :: r) = (compileRx r).map (Tok.star :: ·) := by
  rw [compileRx.eq_4]
  · intro r1 e; exact h _ e
  · intro r1 e; exact h _ e

theorem compileRx_lit (c : Char) (r : Str) (h1 : c ≠ '*') (h2 : c ≠ '?')
    (h3 : unsupportedChar c = false) :
    compileRx (c :: r) = (compileRx r).map (Tok.lit c :: ·) := by
  rw [compileRx.eq_6]
  · simp [h3]
  · intro _ e; exact absurd e h1
  · intro _ e; exact absurd e h1
  · exact h1
  · exact h2

/-- the scanner on one piece without adjacent stars, followed by end of pattern or a `/` -/
theorem compileRx_piece (p : Str) (hadj : noAdjStar p = true)
    (hsup : ∀ c ∈ p, unsupportedChar c = false) (hns : '/' ∉ p)
    (rest : Str) (hrest : ∀ r', rest ≠ '*' :: r') :
    compileRx (p ++ rest) = (compileRx rest).map (toks (p.map parseAtom) ++ ·) := by
  induction p with
  | nil => simp [toks]
  | cons c p ih =>
    have hsup' : ∀ c ∈ p, unsupportedChar c = false := fun x hx => hsup x (by simp [hx])
    have hns' : '/' ∉ p := fun hm => hns (by simp [hm])
    by_cases hc : c = '*'
    · subst hc
      obtain ⟨hnext, hadj'⟩ := noAdjStar_cons_star p hadj
      have hnext' : ∀ r', p ++ rest ≠ '*' :: r' := by
        cases p with
        | nil => simpa using hrest
        | cons x p' =>
          intro r' e
          simp only [List.cons_append, List.cons.injEq] at e
          exact hnext p' (by rw [e.1])
      rw [List.cons_append, compileRx_star _ hnext', ih hadj' hsup' hns']
      simp [parseAtom, toks, Option.map_map, Function.comp_def]
    · rw [noAdjStar_cons_ne c p hc] at hadj
      by_cases hq : c = '?'
      · subst hq
        rw [List.cons_append, compileRx.eq_5, ih hadj hsup' hns']
        simp [parseAtom, toks, Option.map_map, Function.comp_def]
      · rw [List.cons_append, compileRx_lit c _ hc hq (hsup c (by simp)), ih hadj hsup' hns']
        simp [parseAtom, hc, hq, toks, Option.map_map, Function.comp_def]

theorem noAdjStar_ne_dstar (p : Str) (h : noAdjStar p = true) : p ≠ ['*', '*'] := by
  intro e; subst e; simp [noAdjStar] at h

theorem parseSeg_of_noAdj (p : Str) (h : noAdjStar p = true) :
    parseSeg p = .seg (p.map parseAtom) := by
  simp [parseSeg, noAdjStar_ne_dstar p h]

theorem getLast?_append_cons_ne_nil {α} (a : List α) (x : α) (b : List α) (hb : b ≠ []) :
    (a ++ x :: b).getLast? = b.getLast? := by
  rw [show a ++ x :: b = (a ++ [x]) ++ b by simp, List.getLast?_append]
  cases b with
  | nil => exact absurd rfl hb
  | cons y b' =>
    cases h : (y :: b').getLast? with
    | none => simp at h
    | some z => simp

/-- the character scanner agrees with the structured compilation, piece by piece -/
theorem compileRx_join (ps : List Str) (hne : ps ≠ [])
    (hok : ∀ p ∈ ps, pieceOK p = true)
    (hsup : ∀ p ∈ ps, ∀ c ∈ p, unsupportedChar c = false)
    (hns : ∀ p ∈ ps, '/' ∉ p)
    (hl : (joinWith '/' ps).getLast? ≠ some '/') :
    compileRx (joinWith '/' ps) = some (compileSegs (ps.map parseSeg)) := by
  induction ps with
  | nil => exact absurd rfl hne
  | cons p ps ih =>
    have hp := hok p (by simp)
    simp only [pieceOK, Bool.or_eq_true, beq_iff_eq] at hp
    cases ps with
    | nil =>
      simp only [joinWith, List.map_cons, List.map_nil]
      rcases hp with rfl | hp
      · simp [compileRx, parseSeg, compileSegs]
      · have := compileRx_piece p hp (hsup p (by simp)) (hns p (by simp)) [] (by simp)
        rw [List.append_nil] at this
        rw [this, parseSeg_of_noAdj p hp]
        simp [compileRx, compileSegs]
    | cons q qs =>
      rw [joinWith_cons_cons] at hl ⊢
      have hJ : joinWith '/' (q :: qs) ≠ [] := by
        intro e; rw [e] at hl; simp at hl
      rw [getLast?_append_cons_ne_nil _ _ _ hJ] at hl
      have ih' := ih (by simp) (fun x hx => hok x (by simp [hx]))
        (fun x hx => hsup x (by simp [hx])) (fun x hx => hns x (by simp [hx])) hl
      simp only [List.map_cons] at ih' ⊢
      rcases hp with rfl | hp
      · have : parseSeg ['*', '*'] = .dstar := by simp [parseSeg]
        rw [this, compileSegs_dstar_cons]
        simp only [List.cons_append, List.nil_append]
        rw [compileRx.eq_2, ih']
        simp [hJ]
      · rw [compileRx_piece p hp (hsup p (by simp)) (hns p (by simp)) _ (by simp),
          compileRx_lit '/' _ (by decide) (by decide) unsupportedChar_slash, ih',
          parseSeg_of_noAdj p hp, compileSegs_seg_cons]
        simp

theorem mem_of_mem_joinWith_piece (c : Char) (ps : List Str) (p : Str) (hp : p ∈ ps) (x : Char)
    (hx : x ∈ p) : x ∈ joinWith c ps := by
  induction ps with
  | nil => cases hp
  | cons s r ih =>
    cases r with
    | nil =>
      simp only [List.mem_singleton] at hp
      subst hp; simpa [joinWith] using hx
    | cons t r' =>
      rw [joinWith_cons_cons]
      rcases List.mem_cons.mp hp with rfl | hp
      · simp [hx]
      · have := ih hp
        simp [this]

theorem mem_of_mem_splitOn (c : Char) (s p : Str) (hp : p ∈ splitOn c s) (x : Char)
    (hx : x ∈ p) : x ∈ s := by
  have := mem_of_mem_joinWith_piece c (splitOn c s) p hp x hx
  rwa [joinWith_splitOn] at this

/-- (a) the model's character scanner on a well-formed stored pattern is the structured
compilation of the parsed pattern -/
theorem compileRx_eq_compileSegs (val : Str) (h : WFVal val) :
    compileRx val = some (compileSegs (parsePat val)) := by
  obtain ⟨h1, h2, h3⟩ := h
  have := compileRx_join (splitOn '/' val) (splitOn_ne_nil _ _) h1
    (fun p hp c hc => h2 c (mem_of_mem_splitOn '/' val p hp c hc))
    (fun p hp => splitOn_noSep '/' val p hp)
    (by rw [joinWith_splitOn]; exact h3)
  rw [joinWith_splitOn] at this
  exact this

/-! ### well-formedness of the parsed segment patterns -/

def WFSegs : List PSeg → Prop
  | [] => True
  | .dstar :: r => WFSegs r
  | .seg as :: r => NoSlashLit as ∧ WFSegs r

theorem noSlashLit_map_parseAtom (p : Str) (h : '/' ∉ p) : NoSlashLit (p.map parseAtom) := by
  induction p with
  | nil => trivial
  | cons c p ih =>
    have hc : c ≠ '/' := fun e => h (by simp [e])
    have ih' := ih (fun hm => h (by simp [hm]))
    simp only [List.map_cons, parseAtom]
    split
    · exact ih'
    · split
      · exact ih'
      · exact ⟨hc, ih'⟩

theorem wfSegs_map_parseSeg (ps : List Str) (h : ∀ p ∈ ps, '/' ∉ p) :
    WFSegs (ps.map parseSeg) := by
  induction ps with
  | nil => trivial
  | cons p ps ih =>
    have ih' := ih (fun x hx => h x (by simp [hx]))
    simp only [List.map_cons, parseSeg]
    split
    · exact ih'
    · exact ⟨noSlashLit_map_parseAtom p (h p (by simp)), ih'⟩

theorem wfSegs_parsePat (val : Str) : WFSegs (parsePat val) :=
  wfSegs_map_parseSeg _ (splitOn_noSep '/' val)

theorem parsePat_ne_nil (val : Str) : parsePat val ≠ [] := by
  simp [parsePat, splitOn_ne_nil]

end Slug
