import SlugModel.Generated.Tr_isWithin
import SlugModel.Unpack
/-!
# `isWithin`: the model function equals the translation of the Go function

The definition `Slug.Gen.isWithin` (Generated/Tr_isWithin.lean) is rewritten from /repo by harness/cmd/go2lean on
every run; the theorem here is re-checked against it.
-/
namespace Slug

theorem gen_isWithin (r p : Str) : Gen.isWithin r p = isWithin r p := by
  unfold Gen.isWithin isWithin
  by_cases h1 : p = r
  · simp [h1, Id.run]; rfl
  · by_cases h2 : hasSuffix r ['/'] = true
    · simp [h1, h2, Id.run, Go.hasSuffix, Go.hasPrefix]; rfl
    · simp [h1, h2, Id.run, Go.hasSuffix, Go.hasPrefix]; rfl

end Slug
