import SlugModel.FS
import SlugModel.Unpack
import SlugModel.Ignore
import SlugModel.Generated.Slug
/-!
# Pack — model of `Packer.Pack` (walk, ignore tests, header construction, dereferencing)

Works on the filesystem model; output is the entry list handed to the tar writer plus `Meta`.
`filepath.Walk` is modelled with its `SkipDir` rules; the two unbounded recursions
(`resolveExternalLink`, the nested walk into dereferenced directories) take fuel and report
`diverged` when it runs out.
-/
namespace Slug

structure PackOpts where
  dereference : Bool
  applyIgnore : Bool
  allow : List Str
  /-- not an option of the real Packer: the physical locations of the directories that are
  currently being archived in place of a symlink, innermost first (the `visiting` argument of
  `packWalkFn`; `os.SameFile` is equality of physical locations).  Empty at the top level; it
  travels with the options because every nested walk receives it the same way. -/
  visiting : List PPath := []
  deriving Repr, DecidableEq

structure PMeta where
  files : List Str
  size : Nat
  deriving Repr, DecidableEq

inductive PResult
  | ok
  | illegal
  | ioerr
  | diverged
  deriving Repr, DecidableEq

structure PState where
  entries : List Entry      -- in emission order
  pmeta : PMeta
  deriving Repr

/-- what a walk callback returns -/
inductive WalkRes
  | cont
  | skipDir
  | stop (r : PResult)
  deriving Repr, DecidableEq

/-- insertion into a list sorted by the lexicographic order on characters (= byte order of the
UTF-8 encodings, which is how `readDirNames` sorts) -/
def insertSorted (x : Str) : List Str → List Str
  | [] => [x]
  | y :: r => if x < y then x :: y :: r else y :: insertSorted x r

/-- sorted names of the directory at physical path `p` -/
def FS.readdir (fs : FS) (p : PPath) : List Str :=
  let names := fs.filterMap fun e =>
    if e.1.dropLast = p ∧ e.1 ≠ [] ∧ (fs.get e.1).isSome then e.1.getLast? else none
  let dedup := names.foldl (fun acc n => if acc.contains n then acc else acc ++ [n]) []
  dedup.foldr insertSorted []

/-- `os.Readlink` -/
def FS.readlink (fs : FS) (path : Str) : Except Errno Str :=
  match fs.lstat path with
  | .ok (.link t) => .ok t
  | .ok _ => .error .einval
  | .error e => .error e

/-- `os.Open` + read everything: follows links; a directory cannot be read -/
def FS.readFile (fs : FS) (path : Str) : Except Errno Str :=
  match fs.stat path with
  | .ok (_, .file _ _ c) => .ok c
  | .ok (_, .dir _ _) => .error .eisdir
  | .ok _ => .error .einval
  | .error e => .error e

/-- tar.Writer with FormatUnknown rounds the modification time to the nearest second
(times are nanoseconds in the Pack model's filesystem) -/
def roundSec (ns : Int) : Int := (ns + 500000000) / 1000000000

/-- first-occurrence `strings.Replace(s, old, new, 1)` -/
def replaceFirst (s old new : Str) : Str :=
  match indexOf old s with
  | none => s
  | some i => s.take i ++ new ++ s.drop (i + old.length)

/-- bound on the length of a symlink chain followed when dereferencing (`maxLinkHops`) -/
def maxLinkHops : Nat := Generated.maxLinkHops   -- extracted from slug.go on every run

/-- `resolveExternalLinkHops`: (absolute target, node) of the first non-link at the end of the
chain; the argument counts the hops still allowed ("too many levels of symbolic links" when
none is left) -/
def resolveExternalLink (fs : FS) : Nat → Str → Except PResult (Str × Node)
  | 0, _ => .error .ioerr
  | fuel + 1, path =>
    match fs.readlink path with
    | .error _ => .error .ioerr
    | .ok target =>
      let absTarget := if isAbs target then target else pathJoin (pathDir path) target
      match fs.lstat absTarget with
      | .error _ => .error .ioerr
      | .ok (.link _) => resolveExternalLink fs fuel absTarget
      | .ok n => .ok (absTarget, n)

def ruleExcludes (rules : Option (List Rule)) (p : Str) : Bool × Bool :=
  match rules with
  | none => (false, false)
  | some rs => excludes rs p

mutual
/-- `filepath.Walk`'s inner `walk(path, info, fn)` with `fn = packWalkFn(root, src, dst)` -/
def walkNode (fs : FS) (cwd : Str) (o : PackOpts) (rules : Option (List Rule)) (root src dst : Str) :
    Nat → Str → Node → PState → PState × WalkRes
  | 0, _, _, st => (st, .stop .diverged)
  | fuel + 1, path, node, st =>
    match node with
    | .dir _ _ =>
      let (st1, r) := visit fs cwd o rules root src dst fuel path node st
      match r with
      | .cont =>
        match fs.resolvePath path true with
        | .error _ => (st1, .stop .ioerr)
        | .ok p => walkChildren fs cwd o rules root src dst fuel path (fs.readdir p) st1
      | other => (st1, other)
    | _ => visit fs cwd o rules root src dst fuel path node st

/-- the loop over the sorted names of a directory -/
def walkChildren (fs : FS) (cwd : Str) (o : PackOpts) (rules : Option (List Rule)) (root src dst : Str) :
    Nat → Str → List Str → PState → PState × WalkRes
  | 0, _, _, st => (st, .stop .diverged)
  | _ + 1, _, [], st => (st, .cont)
  | fuel + 1, path, name :: rest, st =>
    let filename := pathJoin path name
    match fs.lstat filename with
    | .error _ => (st, .stop .ioerr)      -- the callback returns the Lstat error
    | .ok child =>
      let (st1, r) := walkNode fs cwd o rules root src dst fuel filename child st
      match r with
      | .cont => walkChildren fs cwd o rules root src dst fuel path rest st1
      | .skipDir =>
        -- SkipDir from a directory skips that directory; from a non-directory it ends this directory
        match child with
        | .dir _ _ => walkChildren fs cwd o rules root src dst fuel path rest st1
        | _ => (st1, .skipDir)
      | .stop x => (st1, .stop x)

/-- the callback `packWalkFn(root, src, dst)(path, info, nil)` -/
def visit (fs : FS) (cwd : Str) (o : PackOpts) (rules : Option (List Rule)) (root src dst : Str) :
    Nat → Str → Node → PState → PState × WalkRes
  | 0, _, _, st => (st, .stop .diverged)
  | fuel + 1, path, node, st =>
    match pathRel src path with
    | none => (st, .stop .ioerr)
    | some sub0 =>
      if sub0 = dot then (st, .cont)
      else
        -- the path the file gets in the archive; the ignore rules are matched against it
        match pathRel root (replaceFirst path src dst) with
        | none => (st, .stop .ioerr)
        | some sub =>
          if sub = dot then (st, .cont)
          else if (ruleExcludes rules sub).1 then (st, .cont)
          else
            let isDir := match node with
              | .dir _ _ => true
              | _ => false
            let dirVerdict := if isDir then ruleExcludes rules (sub ++ ['/']) else (false, false)
            if dirVerdict.1 then (st, if dirVerdict.2 then .skipDir else .cont)
            else
              match node with
              | .special => (st, .cont)
              | .dir perm mt =>
                let e : Entry := { name := sub ++ ['/'], typ := tDir, mode := perm &&& 0o777, mtime := roundSec mt, link := [], body := [] }
                ({ entries := st.entries ++ [e], pmeta := { files := st.pmeta.files ++ [e.name], size := st.pmeta.size } }, .cont)
              | .file perm mt content =>
                match fs.readFile path with
                | .error _ => (st, .stop .ioerr)
                | .ok body =>
                  let e : Entry := { name := sub, typ := tReg, mode := perm &&& 0o777, mtime := roundSec mt, link := [], body := content }
                  ({ entries := st.entries ++ [e],
                     pmeta := { files := st.pmeta.files ++ [e.name], size := st.pmeta.size + utf8Len body } }, .cont)
              | .link target =>
                if validSymlink cwd o.allow root path target then
                  let e : Entry := { name := sub, typ := tSymlink, mode := 0o777, mtime := 0, link := target, body := [] }
                  ({ entries := st.entries ++ [e], pmeta := { files := st.pmeta.files ++ [e.name], size := st.pmeta.size } }, .cont)
                else if !o.dereference then (st, .stop .illegal)
                else
                  match resolveExternalLink fs maxLinkHops path with
                  | .error r => (st, .stop r)
                  | .ok (absTarget, .dir _ _) =>
                    -- a directory that is already being archived through a link and is reached again
                    -- from inside itself: "symlink cycle" error (`os.SameFile` on the visiting list)
                    match fs.resolvePath absTarget true with
                    | .error _ => (st, .stop .ioerr)
                    | .ok phys =>
                      if o.visiting.contains phys then (st, .stop .ioerr)
                      else
                        -- nested filepath.Walk(absTarget, packWalkFn(root, absTarget, path, visiting'))
                        match fs.lstat absTarget with
                        | .error _ => (st, .stop .ioerr)
                        | .ok n =>
                          let (st1, r) := walkNode fs cwd { o with visiting := phys :: o.visiting } rules
                            root absTarget path fuel absTarget n st
                          match r with
                          | .skipDir => (st1, .cont)     -- Walk turns a final SkipDir into nil
                          | other => (st1, other)
                  | .ok (_, .file perm mt content) =>
                    -- the header (size, mode, time) comes from the node `resolveExternalLink` found
                    -- (lexical joins), the body from `os.Open(path)` (kernel resolution); when a
                    -- directory component above a relative link is itself a link these may be two
                    -- different files: a length mismatch makes the tar writer fail
                    match fs.readFile path with
                    | .error _ => (st, .stop .ioerr)
                    | .ok body =>
                      if utf8Len body ≠ utf8Len content then (st, .stop .ioerr)
                      else
                      let e : Entry := { name := sub, typ := tReg, mode := perm &&& 0o777, mtime := roundSec mt, link := [], body := body }
                      ({ entries := st.entries ++ [e],
                         pmeta := { files := st.pmeta.files ++ [e.name], size := st.pmeta.size + utf8Len body } }, .cont)
                  | .ok _ => (st, .cont)    -- the target is a special file: skipped like one in the tree
end

def packFuel : Nat := 4000

/-- `parseIgnoreFile(rootPath)`: rule file of the directory, or the default rules -/
def loadIgnore (fs : FS) (cwd src : Str) : List Rule :=
  match fs.readFile (pathAbs cwd (pathJoin src ".terraformignore".toList)) with
  | .ok content => readRules content
  | .error _ => defaultRules

/-- `Packer.Pack(src, w)` -/
def pack (fs : FS) (cwd : Str) (o : PackOpts) (src : Str) : PState × PResult :=
  let empty : PState := { entries := [], pmeta := { files := [], size := 0 } }
  -- `os.Lstat(src)`: a trailing slash makes the kernel follow a final symlink
  let rootInfo : Except Errno Node :=
    if hasSuffix src ['/'] ∧ src ≠ ['/'] then
      -- with a trailing slash the name must denote a directory (ENOTDIR otherwise)
      match fs.stat (pathAbs cwd src) with
      | .ok (_, .dir pm mt) => .ok (.dir pm mt)
      | .ok _ => .error .enotdir
      | .error e => .error e
    else fs.lstat (pathAbs cwd src)
  match rootInfo with
  | .error _ => (empty, .ioerr)
  | .ok info =>
    let src1 : Except Errno Str := match info with
      | .link t => .ok t
      | _ => .ok src
    match src1 with
    | .error _ => (empty, .ioerr)
    | .ok s1 =>
      let rules := if o.applyIgnore then some (loadIgnore fs cwd s1) else none
      let abs := pathAbs cwd s1
      match fs.lstat abs with
      | .error _ => (empty, .ioerr)
      | .ok n =>
        let (st, r) := walkNode fs cwd o rules abs abs abs packFuel abs n empty
        match r with
        | .stop x => (st, x)
        | _ => (st, .ok)

end Slug
