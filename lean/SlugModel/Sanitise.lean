import SlugModel.FS
import SlugModel.Pack
import SlugModel.Ignore
/-!
# Sanitise — model of the package preparation in `Builder.ensureRemotePackage`

After the fetcher has filled the temporary work directory: load the ignore rules, walk the
directory removing what they exclude and refusing anything that is not a regular file, a
directory, or a symlink resolving (physically, in the then-current state) inside the package;
hash the tree (which opens every non-directory: a dangling link or a link to a directory
fails); rename the work directory to its final name or drop it when that name already exists.
-/
namespace Slug

/-- `os.RemoveAll(path)`: removes the node at the physical location of `path` (no following of
a final link) and everything below it -/
def FS.removeAll (fs : FS) (path : Str) : FS :=
  match fs.resolvePath path false with
  | .ok p => if p = [] then fs else fs.delTree p
  | .error _ => fs

/-- `filepath.EvalSymlinks(path)`: the physical path, `none` if a component is missing or loops -/
def FS.evalSymlinks (fs : FS) (path : Str) : Option PPath :=
  match fs.resolvePath path true with
  | .ok p => if (fs.lookup p).isSome then some p else none
  | .error _ => none

inductive SRes
  | cont
  | skipDir
  | fail
  | diverged
  deriving Repr, DecidableEq

/-- the callback `packagePrepareWalkFn(root, rules)(absPath, info, nil)` -/
def prepVisit (rules : List Rule) (root : Str) (fs : FS) (absPath : Str) (node : Node) : FS × SRes :=
  match pathRel root absPath with
  | none => (fs, .fail)
  | some rel =>
    if rel = dot then (fs, .cont)
    else if (excludes rules rel).1 then (fs.removeAll absPath, .cont)
    else
      let isDir := match node with
        | .dir _ _ => true
        | _ => false
      if isDir && (excludes rules (rel ++ ['/'])).1 then (fs.removeAll absPath, .skipDir)
      else
        match fs.evalSymlinks root with
        | none => (fs, .fail)
        | some absRoot =>
          match fs.evalSymlinks (pathJoin ('/' :: joinWith '/' absRoot) rel) with
          | none => (fs, .fail)
          | some real =>
            -- `filepath.IsLocal(Rel(absRoot, real))`: the real path is the root or below it
            if !(absRoot.isPrefixOf real) then (fs, .fail)
            else
              -- a link must also be relative and stay inside the package as written (the package
              -- directory is renamed after the walk)
              let linkOK := match node with
                | .link t => !isAbs t && isLocal (pathJoin (pathDir rel) t)
                | _ => true
              if !linkOK then (fs, .fail)
              else
              match fs.lookup real with
              | some (.file _ _ _) => (fs, .cont)
              | some (.dir _ _) => (fs, .cont)
              | _ => (fs, .fail)

mutual
/-- `filepath.Walk`'s `walk(path, info, fn)`: the names of a directory are read BEFORE the
callback runs on the directory itself -/
def prepWalk (rules : List Rule) (root : Str) : Nat → FS → Str → Node → FS × SRes
  | 0, fs, _, _ => (fs, .diverged)
  | fuel + 1, fs, path, node =>
    match node with
    | .dir _ _ =>
      let names := match fs.resolvePath path true with
        | .ok p => fs.readdir p
        | .error _ => []
      let (fs1, r) := prepVisit rules root fs path node
      match r with
      | .cont => prepChildren rules root fuel fs1 path names
      | other => (fs1, other)
    | _ => prepVisit rules root fs path node

def prepChildren (rules : List Rule) (root : Str) : Nat → FS → Str → List Str → FS × SRes
  | 0, fs, _, _ => (fs, .diverged)
  | _ + 1, fs, _, [] => (fs, .cont)
  | fuel + 1, fs, path, name :: rest =>
    let filename := pathJoin path name
    match fs.lstat filename with
    | .error _ => (fs, .fail)          -- the callback returns the Lstat error
    | .ok child =>
      let (fs1, r) := prepWalk rules root fuel fs filename child
      match r with
      | .cont => prepChildren rules root fuel fs1 path rest
      | .skipDir =>
        match child with
        | .dir _ _ => prepChildren rules root fuel fs1 path rest
        | _ => (fs1, .skipDir)
      | other => (fs1, other)
end

/-- all non-directory paths below `p` (what `dirhash.DirFiles` lists) -/
def FS.filesBelow (fs : FS) (p : PPath) : List PPath :=
  let keys := fs.foldl (fun acc e => if acc.contains e.1 then acc else acc ++ [e.1]) []
  keys.filter fun k =>
    p.isPrefixOf k && decide (k ≠ p) &&
      (match fs.get k with
       | some (.dir _ _) => false
       | some _ => true
       | none => false)

/-- `dirhash.HashDir` succeeds iff every listed file can be opened and read: regular files, or
links that resolve to regular files -/
def hashable (fs : FS) (dir : PPath) : Bool :=
  (fs.filesBelow dir).all fun k =>
    match fs.readFile ('/' :: joinWith '/' k) with
    | .ok _ => true
    | .error _ => false

/-- `os.Rename(workDir, finalDir)` of a directory onto a missing name: re-key the subtree -/
def FS.renameDir (fs : FS) (src dst : PPath) : FS :=
  fs.filterMap fun e =>
    if (fs.get e.1).isNone then none
    else if src.isPrefixOf e.1 then some (dst ++ e.1.drop src.length, e.2)
    else some e

inductive EnsureRes
  | ok (dir : PPath)
  | fail
  | diverged
  deriving Repr, DecidableEq

def prepFuel : Nat := 4000

/-- the part of `ensureRemotePackage` after the fetch: `work` is the temporary directory the
fetcher filled, `final` the content-hash name it is renamed to -/
def ensurePrepared (fs : FS) (work final : Str) : FS × EnsureRes :=
  let rules : List Rule :=
    match fs.readFile (pathJoin work ".terraformignore".toList) with
    | .ok content => readRules content
    | .error .enoent => defaultRules
    | .error _ => defaultRules      -- a read error of an existing file fails earlier; see lane
  match fs.lstat work with
  | .error _ => (fs, .fail)
  | .ok n =>
    match prepWalk rules work prepFuel fs work n with
    | (fs1, .fail) => (fs1, .fail)
    | (fs1, .diverged) => (fs1, .diverged)
    | (fs1, _) =>
      match fs1.resolvePath work true with
      | .error _ => (fs1, .fail)
      | .ok wp =>
        if !hashable fs1 wp then (fs1, .fail)
        else
          match fs1.lstat final with
          | .ok (.dir _ _) => (fs1.removeAll work, .ok (pathSegs final))
          | _ => (fs1.renameDir wp (pathSegs final), .ok (pathSegs final))

end Slug
