import SlugModel.Base.Path
import SlugModel.Ignore
/-!
# GoLib — the Go operations the translated definitions (Generated/Trans.lean) are written over

`harness/cmd/go2lean` turns Go functions of /repo into Lean definitions.  Their expressions use the
operations below: Go's built-in string operations and the standard-library functions the translated
code calls, read over the model's types (`string` is `Str = List Char`, `int` is `Int`).

Reading of strings: Go strings are byte sequences and `len`, `strings.Index` and slicing count
bytes; here they count characters.  The translated functions only slice at positions computed by
`strings.Index` of ASCII patterns and by `len`, where splitting by characters and splitting by bytes
give the same pieces; that reading is part of the trusted base and is what the `addr`, `resolve` and
`paths` lanes compare with the real code (non-ASCII inputs included).
The library functions are the models of Base/Str and Base/Path (validated on the `paths` lane).
An index expression out of range panics in Go; the operations here are total (`take`/`drop`), and the
no-panic theorems of C19 are stated separately over the hand model.
-/
namespace Slug.Go

def len (s : Str) : Int := s.length
/-- `strings.Index` -/
def index (s p : Str) : Int :=
  match indexOf p s with
  | some i => (i : Int)
  | none => -1
/-- `s[lo:hi]` -/
def slice (s : Str) (lo hi : Int) : Str := (s.take hi.toNat).drop lo.toNat
/-- `s[lo:]` -/
def sliceFrom (s : Str) (lo : Int) : Str := s.drop lo.toNat
/-- `s[:hi]` -/
def sliceTo (s : Str) (hi : Int) : Str := s.take hi.toNat
def hasPrefix (s p : Str) : Bool := Slug.hasPrefix s p
def hasSuffix (s p : Str) : Bool := Slug.hasSuffix s p
def contains (s p : Str) : Bool := Slug.contains s p
/-- `strings.ContainsAny` -/
def containsAny (s chars : Str) : Bool := s.any fun c => chars.contains c
/-- `strings.TrimPrefix` -/
def trimPrefix (s p : Str) : Str := if Slug.hasPrefix s p then s.drop p.length else s
/-- `strings.TrimSuffix` -/
def trimSuffix (s p : Str) : Str := if Slug.hasSuffix s p then s.take (s.length - p.length) else s
def trimSpace (s : Str) : Str := Slug.trimSpace s
def pathClean (s : Str) : Str := Slug.pathClean s
def pathJoin (a b : Str) : Str := Slug.pathJoin a b
def pathBase (s : Str) : Str := Slug.pathBase s
def pathDir (s : Str) : Str := Slug.pathDir s
def isAbs (s : Str) : Bool := Slug.isAbs s
def validPath (s : Str) : Bool := Slug.validPath s
/-- `filepath.Abs` with the working directory as a parameter; `os.Getwd` failing is not modelled -/
def pathAbs (cwd s : Str) : Str × Bool := (Slug.pathAbs cwd s, false)

/-- `(*rule).match`: compile the rule's pattern and match the path.  The error result (a pattern the
regexp engine rejects) is not modelled: rule files with patterns outside the modelled fragment are
skipped by the lanes, see Ignore.lean. -/
def ruleMatch (r : Rule) (path : Str) : Bool × Bool := (ruleMatches r path, false)

theorem index_some {p s : Str} {i : Nat} (h : indexOf p s = some i) : index s p = (i : Int) := by
  simp [index, h]
theorem index_none {p s : Str} (h : indexOf p s = none) : index s p = -1 := by
  simp [index, h]

end Slug.Go
