import SlugModel.Base.Path
import SlugModel.Ignore
import SlugModel.FS
/-!
# GoLib — the Go operations the translated definitions (Generated/Trans.lean) are written over

`harness/cmd/go2lean` turns Go functions of /repo into Lean definitions.  Their expressions use the
operations below: Go's built-in string operations and the standard-library functions the translated
code calls, read over the model's types (`string` is `Str = List Char`, `int` is `Int`).

Reading of strings: Go strings are byte sequences and `len`, `strings.Index` and slicing count
bytes; here they count characters.  The translated functions only slice at positions computed by
`strings.Index` of ASCII patterns and by `len`, where splitting by characters and splitting by bytes
give the same pieces; that reading is part of the trusted base and is what the `addr`, `resolve` and
`paths` lanes compare with the real code (non-ASCII inputs included).
The library functions are the models of Base/Str and Base/Path (validated on the `paths` lane).
An index expression out of range panics in Go; the operations here are total (`take`/`drop`), and the
no-panic theorems of C19 are stated separately over the hand model.
-/
namespace Slug.Go

def len (s : Str) : Int := s.length
/-- `strings.Index` -/
def index (s p : Str) : Int :=
  match indexOf p s with
  | some i => (i : Int)
  | none => -1
/-- `s[lo:hi]` -/
def slice (s : Str) (lo hi : Int) : Str := (s.take hi.toNat).drop lo.toNat
/-- `s[lo:]` -/
def sliceFrom (s : Str) (lo : Int) : Str := s.drop lo.toNat
/-- `s[:hi]` -/
def sliceTo (s : Str) (hi : Int) : Str := s.take hi.toNat
def hasPrefix (s p : Str) : Bool := Slug.hasPrefix s p
def hasSuffix (s p : Str) : Bool := Slug.hasSuffix s p
def contains (s p : Str) : Bool := Slug.contains s p
/-- `strings.ContainsAny` -/
def containsAny (s chars : Str) : Bool := s.any fun c => chars.contains c
/-- `strings.TrimPrefix` -/
def trimPrefix (s p : Str) : Str := if Slug.hasPrefix s p then s.drop p.length else s
/-- `strings.TrimSuffix` -/
def trimSuffix (s p : Str) : Str := if Slug.hasSuffix s p then s.take (s.length - p.length) else s
def trimSpace (s : Str) : Str := Slug.trimSpace s
def pathClean (s : Str) : Str := Slug.pathClean s
def pathJoin (a b : Str) : Str := Slug.pathJoin a b
def pathBase (s : Str) : Str := Slug.pathBase s
def pathDir (s : Str) : Str := Slug.pathDir s
def isAbs (s : Str) : Bool := Slug.isAbs s
def validPath (s : Str) : Bool := Slug.validPath s
/-- `filepath.Abs` with the working directory as a parameter; `os.Getwd` failing is not modelled -/
def pathAbs (cwd s : Str) : Str × Bool := (Slug.pathAbs cwd s, false)

/-- `(*rule).match`: compile the rule's pattern and match the path.  The error result (a pattern the
regexp engine rejects) is not modelled: rule files with patterns outside the modelled fragment are
skipped by the lanes, see Ignore.lean. -/
def ruleMatch (r : Rule) (path : Str) : Bool × Bool := (ruleMatches r path, false)

/-! ### pieces used by the translation of `NewUnpackInfo` -/

/-- `s[i]` (a byte; the translated code compares it with ASCII characters only).  Out of range the Go
expression panics; here it is a character that equals none of those it is compared with. -/
def byteAt (s : Str) (i : Int) : Char := if i < 0 then Char.ofNat 0 else (s[i.toNat]?).getD (Char.ofNat 0)
/-- `xs[i]` for a `[]string` -/
def listAt (xs : List Str) (i : Int) : Str := if i < 0 then [] else (xs[i.toNat]?).getD []
def lenList (xs : List Str) : Int := xs.length
/-- the values `0, 1, …, n-1` of a loop `for i := 0; i < n; i++` -/
def range0 (n : Int) : List Int := (List.range n.toNat).map (fun (k : Nat) => Int.ofNat k)
/-- `strings.Split(s, sep)` for a one-character separator -/
def split (s sep : Str) : List Str :=
  match sep with
  | [c] => splitOn c s
  | _ => [s]
/-- `filepath.Rel` -/
def pathRel (base targ : Str) : Str × Bool :=
  match Slug.pathRel base targ with
  | some r => (r, false)
  | none => ([], true)

/-- an error of the `os` package as far as the translated code distinguishes: nil, "does not exist", other -/
inductive OsErr
  | nil | notExist | other
  deriving DecidableEq, Repr
def nonNil : OsErr → Bool
  | .nil => false
  | _ => true
def isNotExist : OsErr → Bool
  | .notExist => true
  | _ => false
/-- `os.FileInfo` as far as the translated code looks at it: is the mode a symlink's? -/
structure FileInfo where
  symlink : Bool
  deriving DecidableEq, Repr
def isSymlinkMode (fi : FileInfo) : Bool := fi.symlink
/-- `os.Lstat` over the filesystem model -/
def lstat (fs : FS) (path : Str) : FileInfo × OsErr :=
  match fs.lstat path with
  | .ok (.link _) => (⟨true⟩, .nil)
  | .ok _ => (⟨false⟩, .nil)
  | .error .enoent => (⟨false⟩, .notExist)
  | .error _ => (⟨false⟩, .other)
/-- `unpackinfo.UnpackInfo` as far as the translated code builds it (the time and mode fields are copied
from the header and not looked at again before `RestoreInfo`) -/
structure UnpackInfo where
  path : Str
  typeflag : Char
  deriving DecidableEq, Repr

/-! ### pieces used by the translation of `readRules` -/

/-- the package-level `defaultExclusions` (the extracted rule table, see Ignore.lean) -/
def defaultExclusions : List Rule := Slug.defaultRules
/-- `rule{}` -/
def zeroRule : Rule := { val := [], negated := false, negAfter := false }
/-- `make([]rule, n)` -/
def zeroRules (n : Int) : List Rule := List.replicate n.toNat zeroRule
def lenRules (rs : List Rule) : Int := rs.length
/-- `copy(dst, src)`: the first `min(len dst, len src)` elements of `dst` are replaced -/
def copyRules (dst src : List Rule) : List Rule := src.take dst.length ++ dst.drop src.length
/-- `rs[i]` (out of range: the zero rule; Go panics) -/
def ruleAt (rs : List Rule) (i : Int) : Rule := if i < 0 then zeroRule else (rs[i.toNat]?).getD zeroRule
/-- `rs[i].field = v`, as an update of element `i` -/
def setRuleAt (rs : List Rule) (i : Int) (f : Rule → Rule) : List Rule :=
  if i < 0 then rs else rs.modify i.toNat f
/-- the values `n, n-1, …, 0` of a loop `for i := n; i >= 0; i--` (none when `n < 0`) -/
def rangeDown (n : Int) : List Int := if n < 0 then [] else ((List.range (n.toNat + 1)).map (fun (k : Nat) => Int.ofNat k)).reverse

theorem index_some {p s : Str} {i : Nat} (h : indexOf p s = some i) : index s p = (i : Int) := by
  simp [index, h]
theorem index_none {p s : Str} (h : indexOf p s = none) : index s p = -1 := by
  simp [index, h]

end Slug.Go
