import SlugModel.Base.Str
import SlugModel.Generated.Ignore
/-!
# Ignore — model of `internal/ignorefiles`

`readRules` (line loop, trimming, comments, `!`, the backwards `negationsAfter` marking loop with
its early `break`, trailing-`/` ⇒ `**`, leading-`/` anchoring, implicit `**/`), `compileRx`
(the scanner loop of `rule.compile`, emitting the five regex fragments the code can emit),
`matchT` (the regexp engine restricted to those fragments, continuation style) and `excludes`
(last match wins, `dominating`).
-/
namespace Slug

/-- the regular-expression fragments `rule.compile` emits -/
inductive Tok
  | lit (c : Char)   -- a literal character (escaped or not)
  | star             -- `[^/]*`
  | any1             -- `[^/]`
  | dirs             -- `(.*/)?`
  | rest             -- `.*`
  deriving Repr, DecidableEq

-- `[^/]*` followed by the continuation `k` is `starLoop k` (Base/Str)

/-- may `.` consume `c`?  With the `(?s)` flag (extracted fact `Generated.dotAll`) every character. -/
def dotOK (c : Char) : Bool := Generated.dotAll || c != '\n'

/-- `.*` followed by `k` -/
def dotLoop (k : Str → Bool) : Str → Bool
  | [] => k []
  | c :: s => k (c :: s) || (dotOK c && dotLoop k s)

/-- the non-empty branch of `(.*/)?` followed by `k`: consume `.*` then a `/` -/
def dirsLoop (k : Str → Bool) : Str → Bool
  | [] => false
  | c :: s => (c == '/' && k s) || (dotOK c && dirsLoop k s)

/-- anchored match `^toks$` -/
def matchT : List Tok → Str → Bool
  | [], s => s.isEmpty
  | .lit c :: r, s => match s with
      | x :: s' => x == c && matchT r s'
      | [] => false
  | .star :: r, s => starLoop (matchT r) s
  | .any1 :: r, s => match s with
      | x :: s' => x != '/' && matchT r s'
      | [] => false
  | .dirs :: r, s => matchT r s || dirsLoop (matchT r) s
  | .rest :: r, s => dotLoop (matchT r) s

/-- characters that are operators of the regexp syntax (besides `*`, `?`, `[`, `]`, `\`) -/
def regexMeta : List Char := ['.', '$', '+', '(', ')', '|', '^', '{', '}']

/-- a pattern character whose meaning is outside the modelled fragment: bracket classes and
backslash escapes (passed to the regexp engine as they are), and any regexp operator that
`compile` does not escape (extracted fact `Generated.escapedChars`) -/
def unsupportedChar (c : Char) : Bool :=
  c = '[' || c = ']' || c = '\\' || (regexMeta.contains c && !Generated.escapedChars.contains c)

/-- The scanner loop of `rule.compile`. `none` = the pattern uses something outside the modelled
fragment (`[`, `]`, `\`), whose meaning is whatever the regexp engine makes of it. -/
def compileRx : Str → Option (List Tok)
  | [] => some []
  | '*' :: '*' :: '/' :: r =>
    (compileRx r).map fun t => (if r = [] then Tok.rest else Tok.dirs) :: t
  | '*' :: '*' :: r =>
    (compileRx r).map fun t => (if r = [] then Tok.rest else Tok.dirs) :: t
  | '*' :: r => (compileRx r).map (Tok.star :: ·)
  | '?' :: r => (compileRx r).map (Tok.any1 :: ·)
  | c :: r =>
    if unsupportedChar c then none
    else (compileRx r).map (Tok.lit c :: ·)

structure Rule where
  val : Str
  negated : Bool
  negAfter : Bool
  deriving Repr, DecidableEq

def defaultRules : List Rule :=
  Generated.defaultRulesRaw.map fun (v, n, a) => { val := v.toList, negated := n, negAfter := a }

/-- the marking loop, on the rule list reversed (most recent rule first):
set `negationsAfter` going backwards, stop at the first rule that already has it -/
def markBack : List Rule → List Rule
  | [] => []
  | r :: rs => if r.negAfter then r :: rs else { r with negAfter := true } :: markBack rs

/-- `bufio.ScanLines`: split at `\n`, drop one trailing `\r` per line, no final empty line -/
def scanLines (s : Str) : List Str :=
  let ls := splitOn '\n' s
  let ls := if ls.getLast? = some [] then ls.dropLast else ls
  ls.map fun l => if l.getLast? = some '\r' then l.dropLast else l

/-- one iteration of the line loop; `acc` is the rule list reversed -/
def readLine (acc : List Rule) (line : Str) : List Rule :=
  if line = [] then acc
  else
    let p := trimSpace line
    match p with
    | [] => acc
    | '#' :: _ => acc
    | c :: rest =>
      let neg := c = '!'
      let p1 := if neg then rest else p
      if p1 = [] then acc
      else
        let acc1 := if neg then markBack acc else acc
        let p2 := if p1.getLast? = some '/' then p1 ++ ['*', '*'] else p1
        let p3 := match p2 with
          | '/' :: r => r
          | _ => '*' :: '*' :: '/' :: p2
        { val := p3, negated := neg, negAfter := false } :: acc1

/-- `readRules` on the content of a rule file -/
def readRules (content : Str) : List Rule :=
  ((scanLines content).foldl readLine defaultRules.reverse).reverse

/-- does one rule match the path? (a pattern outside the modelled fragment never matches here;
the lanes skip such rule files) -/
def ruleMatches (r : Rule) (path : Str) : Bool :=
  match compileRx r.val with
  | some toks => matchT toks path
  | none => false

/-- `Ruleset.Excludes`: (Excluded, Dominating) -/
def excludes (rules : List Rule) (path : Str) : Bool × Bool :=
  rules.foldl (fun (acc : Bool × Bool) r =>
    if ruleMatches r path then (!r.negated, !r.negated && !r.negAfter) else acc) (false, false)

def supported (rules : List Rule) : Bool := rules.all fun r => (compileRx r.val).isSome

end Slug
