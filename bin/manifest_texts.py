TEXTS = {
 "C11": {
  "text": "Lean theorems (C11_join_spec, C11_resolve_spec, C11_never_escapes, C11_same_kind, C11_abs_unchanged) prove for every valid base sub-path and every relative path, of any depth, that the modelled joinSubPath/resolveRelative is the failing segment stack; the model is run next to ResolveRelativeSource/ResolveRelativeFinalSource/FinalSourceAddr on an exhaustive small-scope enumeration plus random cases on every run, and every case is also judged by an independent Go segment-stack oracle.",
  "note": "Trusted: Lean kernel (+propext, Quot.sound, Classical.choice), the Base/Path model of Go's path.Clean/Join and fs.ValidPath (validated on the paths lane), the harness. Package/URL parts are opaque in this slice. Composition law is validated by the oracle only (no theorem yet).",
  "technique": "Lean 4 proof (induction over segment lists) + differential correspondence with the real code",
 },
}
NOT_APPLICABLE = {}
