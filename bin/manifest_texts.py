TEXTS = {
 "C01": {
  "text": "Lean theorem C01_frame_partial proves, for every entry list with tidy link targets (no '..' after a name), every reader fault position and every outcome, that Unpack changes no filesystem path outside dst in the model (unbounded archive length, depth and names; entry orders and repetitions are the list's). The hypothesis is exactly the complement of the recorded open finding F3, for which the closed counterexample C01_cex_write_through_link is proved and replayed against the real code as KNOWN-FINDING. The model (Unpack.lean over FS.lean) runs next to the real Unpack in a fresh arena on every check and whole-arena dumps are compared; the implementation-level oracle snapshots everything outside dst (incl. ctime/inode).",
  "note": "Trusted: Lean kernel; the FS model (validated by the lane, root privileges); tar decoding. Not modelled: hard links, mount points, concurrent modification of dst. With an allow-list the allow-listed places are exempt.",
  "technique": "Lean 4 proof (invariant over the entry loop + kernel path-resolution lemma) + differential correspondence on a real filesystem",
 },
 "C04": {
  "text": "Lean theorems prove that after Unpack — whatever it returns — every symlink under dst resolves physically (through any chain of links, fuel-independent) to a place under dst, for all archives with tidy link targets (C04_safe_after_unpack_partial via the syntactic invariant AllGood, C04_allGood_safe), that rejected targets make the step fail with illegal-slug without creating the link (C04_reject), and that the separator-aware containment test is component-prefix containment (isWithin_iff). Open findings F3 ('..' after a name; C04_cex_dotdot_after_link) and F12 (absolute in-dst targets accepted) are reported as KNOWN-FINDING from the oracle. Correspondence as for C01; the oracle walks dst and resolves each link with Lstat/Readlink.",
  "note": "Trusted: Lean kernel; FS model; tar decoding. Allow-listed targets are exempt as the property says.",
  "technique": "Lean 4 proof (syntactic link invariant implies physical containment) + differential correspondence + physical-resolution oracle",
 },
 "C12": {
  "text": "Unpack part (Pack-writer and bundle-builder parts are added as their lanes land): Lean theorems over the entry-loop model prove for every archive and every fault position that a successful run equals the fault-free run (C12_unpack_ok_complete), that a fault that is reached is always reported (C12_unpack_header_fault_reported, C12_unpack_body_fault_reported), that a reader fault is never reported as a policy rejection (C12_fault_never_illegal) and that every illegal-slug result has a culprit entry (C12_illegal_has_culprit). The model runs next to the real Unpack with the tar stream cut at every position (quick: a stride; thorough: every byte) and full filesystem dumps are compared; gzip-level faults are judged by the oracle.",
  "note": "Trusted: Lean kernel; FS model; archive/tar+gzip as decoder (the cut position is mapped to the model's fault by decoding with the same library). Builder and Pack parts of C12 are not yet claimed by this check.",
  "technique": "Lean 4 proof (induction over the entry loop with a fault parameter) + differential correspondence under injected faults",
 },
 "C15": {
  "text": "Lean theorems prove the type gate (unsupported entry types always fail, never dropped: C15_unsupported_fails for every archive), the skipping of unnamed entries and the deferred, in-order application of directory metadata (C15_dirs_restored_last). That the destination equals the sequential reading of the entries is established on every run by differential correspondence: real Unpack vs. the Lean filesystem model vs. an independent Go reference interpreter on generated archives (duplicates, children before parents, leading '/' and './', PAX global headers).",
  "note": "Trusted: Lean kernel; FS model (root privileges only so far: the read-only-overwrite retry is modelled but exercised only as root); tar decoding by archive/tar. The full refinement theorem (model = spec interpreter) is not proved; it rests on correspondence.",
  "technique": "Lean 4 proof (entry-loop induction) + differential correspondence with a reference interpreter",
 },
 "C03": {
  "text": "Lean theorems prove, for every well-formed rule and every path string (no length/depth bound, newlines and metacharacters included), that the regular-expression tokens the code compiles decide exactly the documented segment-wise glob (C03_compile_sound), that evaluation is last-match-wins (C03_last_match_wins), what the built-in rules exclude (C03_defaults), that parsing establishes the negationsAfter invariant (C03_marking) and that pruning on a dominating match is sound for tail-closed rule sets (C03_prune_sound; counterexample C03_cex_prune_star_tail for 'foo/*', recorded finding F32). The model is run next to the real ParseIgnoreFileContent/Excludes on generated rule files x paths on every run and every verdict is also judged by an independent Go matcher; the rule table, escape set and (?s) flag are re-extracted from the source before the proofs are re-checked.",
  "note": "Trusted: Lean kernel (+propext, Quot.sound, Classical.choice); regexp engine modelled on the five-fragment subset; patterns using [ ] or backslash are outside the model; Pack-level and bundle-level filtering (walk + pruning) are covered by the pack/bundle lanes as they are added (see level of C03 in DESIGN.md §8).",
  "technique": "Lean 4 proof (strong induction over pattern/path; invariant over the line loop) + differential correspondence + regenerated facts",
 },
 "C11": {
  "text": "Lean theorems (C11_join_spec, C11_resolve_spec, C11_never_escapes, C11_same_kind, C11_abs_unchanged) prove for every valid base sub-path and every relative path, of any depth, that the modelled joinSubPath/resolveRelative is the failing segment stack; the model is run next to ResolveRelativeSource/ResolveRelativeFinalSource/FinalSourceAddr on an exhaustive small-scope enumeration plus random cases on every run, and every case is also judged by an independent Go segment-stack oracle.",
  "note": "Trusted: Lean kernel (+propext, Quot.sound, Classical.choice), the Base/Path model of Go's path.Clean/Join and fs.ValidPath (validated on the paths lane), the harness. Package/URL parts are opaque in this slice. Composition law is validated by the oracle only (no theorem yet).",
  "technique": "Lean 4 proof (induction over segment lists) + differential correspondence with the real code",
 },
}
NOT_APPLICABLE = {}
