"""Per-property configuration of bin/check: lanes and sizes per tier, trusted base, assumptions."""

STDLIB = "Go path/filepath/strings/io-fs functions are modelled (Base/Str, Base/Path), validated on the 'paths' lane, not verified"

BUILDERMODEL = "Builder.lean models the queue/memo logic of sourcebundle.Builder over a finite scripted world; package content is an opaque id and the directory name a function of it (dirhash assumed injective); go-versions ordering and Set.Has come from the real library as ranks/allowed lists; fetching, ignore processing and hashing of real trees are exercised by the lanes, not modelled here"

FSMODEL = "FS.lean models the Linux VFS + Go os package for the calls Unpack makes (lstat/stat/mkdir/MkdirAll/symlink/create/chmod/chtimes, kernel symlink following, umask 022, root privileges; no hard links, mount points, concurrency, ENOSPC); archive/tar + gzip are trusted as an identity between byte streams and entry lists (the harness decodes with the same library)"

PROPS = {
    "C01": {
        "lanes": [
            {"lane": "unpack", "quick": 2500, "thorough": 60000},
            {"lane": "unpack-faults", "quick": 8, "thorough": 30},
            {"lane": "unpack", "thorough": 20000, "uid": 65534},   # the same as an unprivileged user
        ],
        "trusted_base": [STDLIB, FSMODEL],
        "assumptions": ["dst is an absolute clean path whose own components are real directories; links already under dst are tidy and lexically inside (an empty destination satisfies this); no allow-list (with one, the allow-listed places are excluded from the oracle)",
                        "open finding F3 (a link target with '..' after a name): the frame theorem carries TidyLinks; such archives are judged by the oracle and reported as KNOWN-FINDING"],
        "explanation": "C01_frame_partial: for every archive whose link targets are tidy, every fault position, every result (ok/illegal/io) and every privilege level, no path outside dst changes in the filesystem model (induction over the entry loop with the invariant RealDir & KeysPhysical & AllGood; per-syscall frame lemmas; resolution lemma resolve_under). C01_cex_write_through_link shows the TidyLinks hypothesis is needed on the unchanged code. Tie: 'unpack' and 'unpack-faults' lanes compare the whole arena (dst, prefix-sharing siblings, decoys, two levels of parents) between real Unpack and the model, and the oracle snapshots (type, mode, size, mtime, ctime, inode, content, target) outside dst before/after. Session 3: Props/C01t — isWithin and validSymlink of the model equal the Lean translations of the Go functions (regenerated on every run).",
    },
    "C04": {
        "lanes": [
            {"lane": "unpack", "quick": 2500, "thorough": 60000},
        ],
        "trusted_base": [STDLIB, FSMODEL],
        "assumptions": ["as C01; open finding F3 (TidyLinks). F12 (absolute in-dst targets were accepted) is repaired: C04_abs_target_refused / C04_unpack_ok_links_relative"],
        "explanation": "C04_safe_after_unpack_partial: after Unpack (any result, any fault) every link under dst resolves, the way the kernel follows it through any chain of other links, to a place under dst; C04_allGood_safe (syntactic invariant implies physical safety), C04_links_inside_partial (the invariant is preserved), C04_reject / C04_accepted_is_lexically_inside (decision logic of validSymlink), isWithin_iff (the separator-aware containment test equals component-prefix containment). Absolute targets: C04_abs_target_refused, C04_abs_target_needs_allow, C04_accepted_target_relative, C04_unpack_ok_links_relative (an Unpack that succeeds without an allow-list created only relative links). Counterexamples C04_cex_dotdot_after_link (F3). Tie: 'unpack' lane; oracle resolves every link under dst physically with Lstat/Readlink. Session 3: Props/C04t — validSymlink, allowedSymlinkTarget, isWithin of the model equal the Lean translations of the Go functions (regenerated on every run).",
    },
    "C12": {
        "lanes": [
            {"lane": "robust", "quick": 60, "thorough": 400, "pubwork": True},   # Pack that cannot read its walk root (no descriptor, unreadable directory) returns an error
            {"lane": "unpack-faults", "quick": 12, "thorough": 40},
            {"lane": "unpack", "quick": 1500, "thorough": 30000},   # policy rejections are reported; success means the whole archive
            {"lane": "builder-faults", "quick": 40, "thorough": 400},
            {"lane": "builder", "quick": 600, "thorough": 10000},
            {"lane": "pack-faults", "quick": 12, "thorough": 60},
        ],
        "trusted_base": [STDLIB, FSMODEL, BUILDERMODEL],
        "assumptions": ["fault model of the reader: the stream fails (error or clean truncation) at a byte offset; fh.Close() errors inside Unpack cannot be injected through an io.Reader and are outside the property's fault model"],
        "explanation": "Unpack part: C12_unpack_ok_complete (a run that reports success did everything the fault-free run does, for every fault position), C12_unpack_header_fault_reported, C12_unpack_body_fault_reported, C12_fault_never_illegal / C12_illegal_has_culprit (policy rejections are distinguishable and have a culprit entry). Tie: 'unpack-faults' lane cuts the tar stream at every position (mapped to the model's fault by decoding with archive/tar) and compares full filesystem dumps; gzip-level read errors/truncations are judged by the oracle (success => fully materialised). Pack part (Props/C12p over PackIO.lean): C12_pack_write_fault_reported — for every tree, option set and source, a writer failure surfacing at ANY write-side operation (header or body of any entry, tar close, gzip close) makes Pack return an error and no Meta; C12_pack_checks_extracted evaluates the regenerated fact Generated.ioErrChecks (each of tarW.WriteHeader, io.Copy(tarW,..), tarW.Close, gzipW.Close has one call site whose error is tested and returned), so a dropped or deferred check breaks the build; C12_cex_unchecked_gzclose shows which check is essential. Tie: extracted facts + pack-faults lane (writer failing at every byte offset of generated slugs). Session 3 (builder lane): finder diagnostics raised vs delivered compared as multisets (severity, summary, expected name P//file) for the caller and the tracer, with finders that keep and reuse their range objects across packages.",
    },
    "C02": {
        "lanes": [
            {"lane": "robust", "quick": 60, "thorough": 400, "pubwork": True},   # resource limits: Unpack under a low descriptor limit keeps every entry
            {"lane": "pack", "quick": 2500, "thorough": 60000},
            {"lane": "unpack", "quick": 1200, "thorough": 20000},
            {"lane": "pack-spelling", "quick": 40, "thorough": 400},   # a reused Packer still reproduces the tree
        ],
        "trusted_base": [STDLIB, FSMODEL, "tar.Writer rounds ModTime to the nearest second under FormatUnknown (modelled as roundSec); PAX/USTAR encodings of long and non-ASCII names are exercised but not modelled below the entry level"],
        "assumptions": ["trees of regular files, directories and relative links that stay inside the tree without re-entering it by its own name (F37); special files are skipped; the round-trip oracle is applied without ignore rules and without dereferencing"],
        "explanation": "Props/C02f (ignore processing ON): C02_roundtrip_filtered_partial and C02_roundtrip_kept_files (Pack with rules then Unpack into an empty directory: every file, link and directory whose own path the rules keep and no pruned directory hides is reproduced with content/target, mode and rounded mtime; paths above a kept entry whose own directory entry was excluded come back as implicit directories 0755/unpack time — C02_cex_excluded_dir_implicit; everything else is absent), C02_untar_filter, C02_pack_untar_filtered. The round trip is the composition of the Pack model and the Unpack model through the entry list: C20_meta / C05_bodies_from_fs / C05_link_entries_validated characterise what Pack emits (names, bodies, validated links), C15 theorems what Unpack makes of an entry list (C15_refines_partial when present: the destination is exactly the sequential reading), C16_spelling that the entry list does not depend on how the source is spelled. No single composed theorem is proved; the end-to-end statement is decided on every run by the 'pack' lane: real Pack -> real Unpack into an empty directory -> recursive comparison of relative paths, types, contents, permission bits, link targets and mtimes rounded to the second (incl. empty and read-only directories, mode 0000 files, .4/.5/.6 s fractions), next to the model comparison of both halves. Session 3: generated trees and archives carry edge modification times (0, 0.4 s, 1 s, 2^31-1, 2^31, 8^11 = first value beyond the ustar field), archives record access/change times that differ from the mtime (PAX and GNU formats); a umask-027 run of the unpack lane is judged by the oracles only.",
    },
    "C05": {
        "lanes": [
            {"lane": "pack", "quick": 2500, "thorough": 60000},
            {"lane": "pack-spelling", "quick": 60, "thorough": 500},   # one Packer reused for two roots
        ],
        "trusted_base": [STDLIB, FSMODEL],
        "assumptions": ["open findings F13, F14 (links inside / nested dereferenced directories) and F37 (a link re-entering the source directory through its own name) are reported as KNOWN-FINDING; the 'Unpack accepts Pack's output' oracle is applied without allow-lists"],
        "explanation": "C05_link_entries_validated (every link entry of the output was accepted by validSymlink at its on-disk path, for every tree and option set), C05_no_deref_illegal + C05_stop_propagates + C05_illegal_cause (without dereferencing an out-of-tree link makes Pack return illegal-slug, and illegal-slug has no other cause), C05_bodies_from_fs / C05_bodies_direct / C05_bodies_inside_partial (every file body is the content of a file of the tree; with dereferencing off, of a file lexically inside the source directory), C20_deref_header_body_may_differ (observation F38). Tie: 'pack' lane: model comparison of the full entry list + oracles: link entries read at their archive position, bodies vs files inside the source directory, and real Unpack run on every produced slug. Session 3: Props/C05t — validSymlink / allowedSymlinkTarget of the model equal the Lean translations of the Go methods (regenerated on every run). pack-spelling lane: overlapping package-level Pack calls with different dereference settings (gated writer) — a non-dereferencing call over an out-of-tree link must fail with an illegal-slug error whatever runs beside it.",
    },
    "C16": {
        "lanes": [
            {"lane": "pack-spelling", "quick": 120, "thorough": 1000},   # (each tree: ~20 spellings, histories and fresh-process children; 3 seeds in the thorough tier)
            {"lane": "ignore", "quick": 1500, "thorough": 30000},
            {"lane": "pack-spelling", "thorough": 60, "race": True},
        ],
        "trusted_base": [STDLIB, FSMODEL, "the process working directory is a parameter (cwd) of the model; data races between concurrent Pack calls cannot be exhibited by the model: covered by the -race supporting run (thorough) and by the repaired aliasing of the default rule list (F24, extracted fact: readRules copies the defaults)"],
        "assumptions": ["open findings F22, F23, F30 (root given as a relative link / chained link / 'link/') are reported as KNOWN-FINDING (closed counterexamples C16_cex_*)"],
        "explanation": "C16_cwd_irrelevant (for an absolute clean source the result does not depend on the working directory), C16_spelling / C16_spelling_trailing_slash / C16_spelling_relative (spellings that denote the same directory give the same result: dot segments, '..' detours, trailing slash, relative to cwd), counterexamples for the three root-link findings. History independence holds by construction of the model (no state between calls) and is tied to the code by the 'ignore' lane's check that parsing never changes DefaultRuleset. Tie: 'pack-spelling' lane: twelve spellings/cwds of each tree + preceding parses + four concurrent Pack calls, compared with each other and with the model. Session 3: pack-spelling lane compares the last Pack of a generated history with the same Pack in a FRESH PROCESS (child vh), which is what exposes package-level caches; overlapping package-level Pack calls with different options. Props/C16s: C16_no_new_process_state — regenerated fact: the package-level variables of the source are the known read-only tables or immutable values (a new cache, map, sync.Once or counter breaks the obligation).",
    },
    "C20": {
        "lanes": [
            {"lane": "pack", "quick": 2500, "thorough": 60000},
            {"lane": "pack-spelling", "quick": 40, "thorough": 400},   # Packer reuse after a failed Pack
            {"lane": "pack-faults", "quick": 6, "thorough": 40},   # a Meta is only returned for a slug that was written in full
        ],
        "trusted_base": [STDLIB, FSMODEL],
        "assumptions": [],
        "explanation": "C20_meta / C20_meta_sum: for every filesystem, working directory, option set and source — whatever Pack returns — Meta.Files is the list of entry names in order and Meta.Size is the number of content bytes stored for regular entries (invariant of the mutually recursive walk incl. dereferenced files and directories and ignored subtrees); C20_entries_only_grow. Tie: 'pack' lane: returned Meta vs headers and bodies read back from the real slug (names in order, sizes, header sizes), and full model comparison. Props/C20p: C20_meta_only_for_complete_slug / C20_no_meta_on_write_fault — a Meta comes back only when no writer failure surfaced at any write-side operation (PackIO.lean; tie: extracted error-check facts, pack-faults lane).",
    },
    "C06": {
        "lanes": [
            {"lane": "addr", "quick": 6000, "thorough": 150000},
            {"lane": "resolve", "quick": 800, "thorough": 20000},
            {"lane": "registry", "quick": 4000, "thorough": 60000},
        ],
        "trusted_base": [STDLIB, "net/url, terraform-registry-address, terraform-svchost (IDNA) and go-versions are parameters: on the lane the model receives the real library's answers as an oracle table for exactly the strings it asks about; URL printing (URL.String) is not modelled, so the print/parse round trip of remote addresses is established by the lane's oracle on real values, not by a theorem"],
        "assumptions": ["open findings F17, F18, F33-F36 (sub-paths that URL escaping rewrites, RawPath or fragment or trailing-slash package path combined with a sub-path, constructor inputs the parsers never produce, '@'/newline in a final registry sub-path) are reported as KNOWN-FINDING by mechanism"],
        "explanation": "Props/C06r (registry addresses, under explicit laws about the external parsers — RegLaws/VerLaws: a printed package/version parses to itself and has no '?', '//', trailing ':' etc.): C06_registry_roundtrip_partial, C06_registry_print_canonical, C06_registry_print_inj (two registry addresses are equal exactly when they print the same), C06_matchFinal_spec (the hand-written matcher is exactly the pattern's leftmost-greedy semantics: soundness, completeness, maximality), C06_final_registry_roundtrip_partial (incl. the 'pkg//' quirk for an empty sub-path), C06_dispatch_registry / C06_dispatch_final_registry (ParseSource / ParseFinalSource hand printed registry addresses to the registry parser), C19_registry_no_panic_partial; counterexamples C06_cex_final_sub_at / _newline (F36), C06_cex_registry_sub_trailing_space (F42), C06_cex_registry_sub_query. Registry.lean models ParseRegistrySource / ParseFinalRegistrySource (incl. the hand-written matcher for the pattern ^(.+)@([^/]+)(//(.+))?$), their String methods and the dispatch of ParseSource / ParseFinalSource, with regaddr.ParseModuleSource and versions.ParseVersion as oracle parameters; the 'registry' lane asks the model which strings it needs parsed, answers with the real libraries and compares results and dispatch. C06_local_roundtrip, C06_local_resolve_canonical / _roundtrip (the repaired local resolution always yields a canonical, re-parseable local address: F16), C06_subpath_split_roundtrip_partial / _url (printing pkg//sub?query splits back; counterexamples C06_cex_split_* for the excluded shapes), C06_normalize_idem. Tie: 'addr' lane compares ParseRemoteSource / MakeRemoteSource / ParseLocalSource / ValidSubPath with the model (front end + URL record from the real net/url) and applies the round-trip oracle Parse(String(x)) == x to every accepted and every derived value (relative resolution, Versioned, FinalSourceAddr, SourceAddr), plus 'equal iff prints the same'. Session 3: Props/C06t — splitSubPath, ParseLocalSource, looksLikeLocalSource, normalizeSubpath of the model equal the Lean translations of the Go functions (regenerated on every run). Props/C06s: C06_no_new_process_state — regenerated fact: the package-level variables of the source are the known read-only tables or immutable values (a new cache, map, sync.Once or counter breaks the obligation).",
    },
    "C07": {
        "lanes": [
            {"lane": "addr", "quick": 6000, "thorough": 150000},
        ],
        "trusted_base": ["net/url is a parameter of the model (every policy check is made on what the URL parser returned, so soundness holds for ANY parser function)", "tables regenerated from the source on every run: source types, git schemes and query keys, archive values and suffixes, shorthand prefixes, whether MakeRemoteSource checks user info (Generated/Remote.lean)"],
        "assumptions": ["completeness ('every documented-valid address is accepted') is proved at the level of the URL record (C07_complete_partial); that url.Parse produces such a record for the documented grammar is checked by the lane's valid-grammar stream"],
        "explanation": "C07_sound_parse (for any URL parser and any string, an accepted address satisfies the declarative Policy and carries no user info), C07_sound_make (constructor route), C07_case (type and scheme are lower-cased before lookup), C07_complete_partial / C07_complete_parse_partial, C07_front_shorthand (github.com / gitlab.com expansion). Tie: 'addr' lane: field-wise comparison of accepted values with the model + independent Go policy predicate on every accepted value of every route. Session 3: Props/C07t — normalizeSubpath and splitSubPath of the model equal the Lean translations of the Go functions (regenerated on every run). Props/C07s: C07_no_new_process_state — regenerated fact: the package-level variables of the source are the known read-only tables or immutable values (a new cache, map, sync.Once or counter breaks the obligation).",
    },
    "C18": {
        "lanes": [
            {"lane": "bundle", "quick": 3000, "thorough": 100000},
        ],
        "trusted_base": [STDLIB, "address/version/registry-package parsers are parameters of the model (BundleOracle); on the lane the real parsers answer for exactly the strings in the manifest; encoding/json as an identity on the manifest structure"],
        "assumptions": ["the bundle root is an absolute clean path; sub-paths handed to lookups are valid sub-paths (the address types guarantee it: C19_normalize_valid)"],
        "explanation": "C18_refuse (a package directory named '', '.', '..' or containing a separator makes OpenDir fail, whatever the parsers say), C18_dirs_valid, C18_inside / C18_inside_registry (every lookup of an opened bundle lies strictly inside the root; component-level form C18_inside_segs), C18_roundtrip / C18_roundtrip_back / C18_alias_same_path (path -> (directory, sub-path) -> path is the identity, for any alias), C18_not_in_bundle*; Props/C18b: C18_reverse_order_free (the reverse lookup does not depend on the stored order of the table = map iteration order), C18_pick_min / C18_pick_perm, C18_addrBefore_strict_total, C18_reverse_sound, C18_reverse_roundtrip_addr, C18_reverse_total. Tie: 'bundle' lane: OpenDir on generated and mutated manifests, every lookup and SourceForLocalPath over 14 path shapes, compared with the model and the containment/inversion oracle. Session 3: lookups of addresses derived through ResolveRelative(Final)Source with up to eight leading '../' from the bundle's own registry and remote sources: refused, or strictly inside the bundle root.",
    },
    "C09": {
        "lanes": [
            {"lane": "bundle-roundtrip", "quick": 20, "thorough": 300, "umask": "077"},   # extraction under a stricter umask gives the same files (oracle only)
            {"lane": "bundle-roundtrip", "quick": 120, "thorough": 3000},
            {"lane": "bundle", "quick": 1000, "thorough": 20000},
        ],
        "trusted_base": [BUILDERMODEL, FSMODEL, "encoding/json as an identity on the manifest structure; the archive round trip is Pack(dereference) followed by Unpack, whose models are tied by the pack/unpack lanes (C02, C15); ChecksumV1 is a function of the manifest bytes, which the lane compares"],
        "assumptions": ["metadata strings are valid UTF-8 (JSON replaces invalid bytes); a commit message stored with an empty commit id is not kept (C09_cex_meta_dropped: the manifest keeps metadata only with a commit id)"],
        "explanation": "Props/C09s (the manifest as actually written, rows sorted): C09_reopen_sorted (for every run, opening manifestSorted of the final state succeeds and reproduces the tables; hypotheses on the environment only), C09_reopen_sorted_partial, C09_openDir_perm (opening is insensitive to row order when keys are distinct; C09_cex_perm_needs_distinct / C09_cex_regs_needs_distinct show the key hypothesis is needed), C09_lookups_same_sorted (all lookups incl. the reverse lookup agree). C09_reopen_partial / C09_reopen_tables_partial: opening the manifest written from the builder's final tables yields exactly those tables (package -> directory, metadata with a commit id, resolved versions -> source address, deprecations), for parsers that read printed keys back (C06) and distinct keys (each package is fetched once: C14). Counterexamples C09_cex_meta_dropped, C09_cex_shadowed. Tie: 'bundle-roundtrip' lane re-opens every finished bundle and archives + extracts it elsewhere, comparing all accessors, checksum, root-relative lookups and the recursive tree listing. Session 3: Props/C09a (archive half) — C09_archive_files_partial: extracting the archive WriteArchive produces from a bundle directory (tidy relative links) into an empty directory yields exactly the bundle's files, directories and links (permission bits, contents, targets, times to the second); C09_archive_deref_irrelevant (the DereferenceSymlinks option changes nothing when every link is accepted); C09_archive_manifest_same + C09_openDir_root (same manifest bytes, hence the same opened bundle up to its root). bundle-roundtrip lane also under umask 077 (oracle only).",
    },
    "C19": {
        "lanes": [
            {"lane": "robust", "quick": 240, "thorough": 4000, "pubwork": True},
            {"lane": "ignore", "quick": 2000, "thorough": 40000},
            {"lane": "addr", "quick": 3000, "thorough": 50000},
            {"lane": "unpack", "quick": 1500, "thorough": 30000},
            {"lane": "bundle", "quick": 1500, "thorough": 30000},
            {"lane": "pack", "quick": 1200, "thorough": 20000},
            {"lane": "registry", "quick": 2000, "thorough": 30000},
        ],
        "trusted_base": [STDLIB, FSMODEL, "stack exhaustion and blocking system calls are runtime events the model cannot exhibit: the model shows the divergence (fuel) or the open of a non-regular file, the watched-subprocess lane shows the crash or hang (partial)"],
        "assumptions": ["C19_pack_terminates assumes PackNamesOK (every component of every path in the tree is a proper file name: non-empty, no slash, not '.' or '..' — what a real directory can contain; C19_cex_terminates_needs_names shows the model needs it) and an absolute start path; findings F25 (link cycle outside the tree), F26 (dereferenced directory containing itself) and F27 (dereferenced link to a fifo) are repaired in /repo and listed as fixed"],
        "explanation": "C19_split_idem (the 'post-split registry address still has subdir' panic is unreachable), C19_normalize_valid / C19_joinSubPath_valid / C19_finalSourceSub_valid (sub-paths stored in addresses are always valid, so the panicking SourceAddr is never reached with an invalid one), C12/C15 loop theorems give termination of Unpack (one step per entry), C14_terminates for the builder; Props/C19p: C19_pack_terminates (the Pack walk, including nested walks into dereferenced directories, returns for every finite tree with well-formed names, any options and any visiting list, within an explicit fuel bound pkTermBound fs; measure: directories not yet on the visiting stack, then depth below the walk root), C19_pack_fuel_irrelevant, C19_pack_never_diverges, C19_visiting_grows, C19_pack_deref_cycle_is_error / C19_pack_deref_ancestor_cycle_is_error (cycles are errors) and C19_pack_deref_twice_is_ok (the visiting list is a stack, not a global visited set), C19_resolveExternalLink_never_diverges, C19_link_cycle_is_error, C19_deref_special_skipped; parsing of rule files is total in the model (readRules has no partial operation after the F7 repair). Tie: all lanes report panics/timeouts; the 'robust' lane runs each hostile case (link cycles, self-containing dereferenced directories, fifos, mutated tar streams with repaired checksums, mutated manifests, mutated address strings) in a watched worker process. Session 3: Props/C19t — every slice position splitSubPath computes lies inside the string (C19_tie_splitSubPath_slices_in_range), for the translated function.",
    },
    "C08": {
        "lanes": [
            {"lane": "builder", "quick": 1500, "thorough": 40000},
        ],
        "trusted_base": [BUILDERMODEL],
        "assumptions": ["lookups (LocalPathFor*) and the content of package directories are checked by the lane's oracle against the scripted world; the model's final tables are compared with the bundle's accessors"],
        "explanation": "C08_closure (error-free run: every artefact of the order-free reachability closure Reach is analysed and its package stored under its fetched content), C08_sound (every analysed artefact is reachable, for any run), C08_exact, C08_nothing_pending, C08_registry_same_place / C08_registry_lookup (a registry source is queued as the registry's answer joined with the caller's sub-path), C08_meta_kept; Props/C08b: C08_tables_wellkept (distinct keys in pkgDirs/resolved, metadata only for fetched packages, deprecation recorded exactly with a resolved version — every run), C08_reopen (manifest of the final tables opens to the same tables, hypotheses on the environment only), C08_lookup_remote / C08_lookup_registry / C08_lookup_sound / C08_lookup_meta / C08_lookup_deprec (lookups on the re-opened bundle answer root/content/sub inside root), C08_reach_validSub, C08_cex_sub_escapes (why normalised sub-paths are assumed). Tie: 'builder' lane: full call-log and final-table comparison; oracle = reference closure computed in Go from the scripted world + every lookup + file contents + metadata. Session 3: a share of the remote addresses the builder lane adds and lets finders report is built with MakeRemoteSource from oddly spelled URLs (raw space, '|', non-ASCII, quote) and looked up with that same value in the finished and the re-opened bundle.",
    },
    "C13": {
        "lanes": [
            {"lane": "builder-order", "quick": 60, "thorough": 1500},
            {"lane": "builder-order", "quick": 6, "thorough": 40, "race": True},   # race detector: the concrete interleaving when the lock facts break
        ],
        "trusted_base": [BUILDERMODEL, "encoding/json + sort: the manifest is a function of the final tables (sections sorted by printed address); checked by byte comparison on the lane, not modelled"],
        "assumptions": ["interleavings below the granularity of the builder's mutex (Go memory model) cannot be exhibited by the model: covered by the supporting -race run in the thorough tier only (partial)"],
        "explanation": "C13_order (permuting the Add calls of an error-free build leaves analysed set, package directories, metadata, resolved versions and deprecations unchanged), C13_clean_same / C13_clean_order (error-freeness itself is order independent), C13_dirs_spec / C13_resolved_spec / C13_deprec_spec (order-free characterisation of each table), C13_coalesce (same directory iff same fetched content); Props/C13m: C13_manifest_written / C13_manifest_order (the sorted row sequence writeManifest produces is the same for every permutation of the calls), C13_sortStr_sorted / _perm / _canonical, C13_manifestSorted_rows (the sorted manifest has the rows of manifestOf). Tie: 'builder-order' lane builds every permutation (exhaustive up to 4 calls) and a concurrent run, compares manifest bytes, ChecksumV1 and directory listing, and compares each permutation with the model. Session 3: C13_resolvePending_holds_lock — extracted fact: resolvePending takes the lock once and releases it only in a deferred function (no Unlock around callbacks); lock facts for helper methods are computed from their call sites. The race-detector run of builder-order is part of the quick tier (6 worlds).",
    },
    "C14": {
        "lanes": [
            {"lane": "builder", "quick": 1500, "thorough": 40000},
            {"lane": "builder-faults", "quick": 20, "thorough": 200},
            {"lane": "builder-order", "quick": 25, "thorough": 300},   # overlapping Add calls: fetched / analysed once
        ],
        "trusted_base": [BUILDERMODEL],
        "assumptions": ["exactly-once for fetch / version list / source address is stated for keys without a failure event (a failed fetch may be retried within the same call; the build is poisoned afterwards)"],
        "explanation": "C14_analyse_once, C14_fetch_once, C14_versions_once, C14_source_once (counts over the call log of every run, any world, any Add sequence), C14_trace_bracketed (bracket automaton accepts every log), C14_logOK_* (log/memo-table invariant), C14_terminates (explicit fuel bound; file C14t). Tie: 'builder' lane compares the complete call/trace sequence of the real builder with the model's log on scripted worlds (cycles, diamonds, self-references, repeats) and checks exactly-once and bracketing on the real logs; watchdog for termination.",
    },
    "C17": {
        "lanes": [
            {"lane": "builder", "quick": 1500, "thorough": 40000},
        ],
        "trusted_base": [BUILDERMODEL, "go-versions: the version order is the library's (ranks), assumed a strict weak order on the generated versions (single pre-release identifier; 0.0.0 excluded: it is the library's 'unspecified' sentinel)"],
        "assumptions": [],
        "explanation": "C17_newest / C17_none_iff (selected = maximum rank among offered and allowed; none iff nothing allowed), C17_order_irrelevant (listing order), C17_cache_irrelevant(_fn) (answer is a function of world and request, whatever was resolved before), C17_final_exact, C17_none_error, C17_deprecation. Tie: 'builder' lane; oracle = brute-force maximum with the real LessThan/Has and the registry's own deprecation note. Session 3: AddFinalRegistrySource with versions the registry does not list (below all, between two, above all, pre-releases): exactly that version or an error.",
    },
    "C15": {
        "lanes": [
            {"lane": "unpack", "quick": 600, "thorough": 15000, "umask": "077"},   # recorded permission bits do not depend on the process umask (oracle only)
            {"lane": "unpack", "quick": 2500, "thorough": 60000},
            {"lane": "unpack", "quick": 1500, "thorough": 30000, "uid": 65534},
        ],
        "trusted_base": [STDLIB, FSMODEL],
        "assumptions": ["well-formed archives for the oracle: no entry passes through or lands on a link, no kind conflict on a path, names inside dst, link targets relative and staying inside (kind conflicts are outside the property's claim)"],
        "explanation": "C15_unsupported_fails (a successful Unpack saw only representable entries), C15_unsupported_is_illegal, C15_empty_name_skipped, C15_dirs_restored_last (directory mode/mtime are applied after all entries, in archive order). The refinement to the sequential reading is established by correspondence: the 'unpack' lane compares the real destination tree with the model's filesystem and with an independent reference interpreter of the entry list. Session 3: archives with access/change times different from the mtime (PAX, GNU), edge mtimes, and a run of the unpack lane under umask 077 judged by the reference interpreter (explicit entries have their recorded bits whatever the umask; implicit parents 0755 &^ umask). Unprivileged runs skip archives in which a directory entry lacking the owner's search bit precedes a directory entry below it (directory permission checks are outside the filesystem model).",
    },
    "C03": {
        "lanes": [
            {"lane": "pack-spelling", "quick": 40, "thorough": 600},   # fresh-process history oracle: what ships depends on the rule file alone
            {"lane": "ignore", "quick": 4000, "thorough": 120000},
            {"lane": "pack", "quick": 1500, "thorough": 40000},
            {"lane": "sanitise", "quick": 1500, "thorough": 40000},
        ],
        "trusted_base": [STDLIB,
                         "Go regexp engine restricted to the five fragments compile emits (lit, [^/]*, [^/], (.*/)?, .*) is modelled by matchT; bufio.ScanLines, strings.TrimSpace modelled",
                         "facts regenerated from the source on every run: default rule table, escaped-character set, (?s) flag (Generated/Ignore.lean)"],
        "assumptions": ["patterns with '[', ']' or '\\' are outside the modelled fragment (the rule language leaves them unspecified); '**' glued to other characters in one segment is outside WFVal"],
        "explanation": "C03_compile_sound: for every well-formed stored pattern and EVERY path string the compiled regexp tokens decide exactly the segment-wise glob; C03_last_match_wins; C03_defaults (exact characterisation of the built-in rules); C03_marking (negationsAfter invariant of parsing, incl. the early break); C03_prune_sound under TailClosed + C03_cex_prune_star_tail; Props/C03w (walk level): C03_pack_excluded_never_ships_any (any options incl. dereferencing; F43 repaired), C03_pack_ships_iff, C03_pack_filter, C03_pack_included_ships_partial, C03_pack_nofilter, C03_bundle_excluded_removed, C03_bundle_included_kept_partial, C03_cex_bundle_reinclude / C03_cex_bundle_default_modules / C03_cex_bundle_dir_pattern_fails (F9 and its variants). Tie: 'ignore' lane runs ParseIgnoreFileContent/Excludes next to the model and an independent Go segment-wise matcher. Session 3: Props/C03t C03_tie_excludes — the model's excludes equals the Lean translation of Ruleset.Excludes regenerated from the Go source on every run (loop, last-match-wins assignments, dominating flag). Oracle-only corpus cases: rule files of more than 1 MiB and with a line of more than 64 KiB (F46, repaired) in the ignore, pack and sanitise lanes; the pack-spelling lane repeats the last Pack of a generated history (rule files replaced, deleted, re-created; shared pattern texts with and without later negations) in a fresh process and charges name-set differences to C03. Props/C03s: C03_no_new_process_state — regenerated fact: the package-level variables of the source are the known read-only tables or immutable values (a new cache, map, sync.Once or counter breaks the obligation).",
    },
    "C10": {
        "lanes": [
            {"lane": "sanitise", "quick": 2500, "thorough": 60000},
        ],
        "trusted_base": [STDLIB, FSMODEL, "dirhash is modelled as 'opens and reads every non-directory below the package root' (hashable); the content hash itself is an opaque injective name; filepath.EvalSymlinks = physical resolution with existence"],
        "assumptions": ["C10_links_survive_rename assumes the final name is a fresh sibling of the work directory (what the builder guarantees); on a FAILED fetch/preparation the temporary directory stays behind (C10_cex_tmp_left_on_failure) - the builder is poisoned then, so no finished bundle contains it"],
        "explanation": "C10_sanitised_before_rename / C10_sanitised_partial (after a successful preparation every binding below the package directory is a regular file, a directory, or a link resolving to a regular file inside the package, and nothing the ignore rules exclude is left), C10_links_survive_rename / C10_sanitised (after the rename to the final name every link is relative, lexically local and resolves to a regular file inside the package; F31 repaired: C10_abs_link_into_workdir_refused, C10_rel_link_through_workdir_name_refused; C10_kept_links_relative_local, C10_walk_alone_not_enough), C10_fail_on_dangling / _escape / _special + propagation lemmas (such content makes the build fail), C10_hash_rejects_bad_links, C10_no_tmp_left (success leaves no temporary directory), C10_frame / C10_frame_ensure (nothing outside the work and final directories changes), C10_only_deletes, C10_ignored_removed*. Tie: 'sanitise' lane: one fetched tree per real build, whole-arena filesystem comparison with the model (also on failure) + physical-resolution walk of the finished package directory.",
    },
    "C11": {
        "lanes": [
            {"lane": "resolve", "quick": 2000, "thorough": 40000},
            {"lane": "paths", "quick": 1500, "thorough": 30000},
        ],
        "trusted_base": [STDLIB,
                         "package parts of addresses are opaque in this slice (URL/registry parsing is not involved in resolution)"],
        "assumptions": ["relative arguments reach the resolution functions only as LocalSource values (non-empty, not rooted)"],
        "explanation": "C11_join_spec/C11_resolve_spec: joinSubPath = failing segment stack for every valid base sub-path and every relative path (all depths); C11_never_escapes; C11_same_kind; C11_abs_unchanged. Tie: 'resolve' lane runs ResolveRelativeSource/ResolveRelativeFinalSource/FinalSourceAddr next to the model and a Go segment-stack reference. Session 3: Props/C11t — joinSubPath and normalizeSubpath of the model equal the Lean translations of the Go functions (regenerated on every run). resolve lane: final registry bases with build metadata / pre-release versions; the final route must keep package and selected version.",
    },
}

# ---------------------------------------------------------------------------------------------
# Neighbouring lanes.  The model of one Go function is shared by several properties (all Pack
# properties rest on Pack.lean, all builder properties on Builder.lean, ...).  A change that breaks
# the correspondence of such a model breaks the tie of every theorem stated over it, also when the
# property's own oracle looks at something else (rounds 5 and 6 of the seeded changes: 20 of 40 were
# first seen only by a neighbouring property's lane).  Every property therefore also runs, at a small
# size, the other lanes of the models its theorems are stated over; from those lanes only
# model/implementation differences and this property's own oracle failures count.
_PACK = [("pack", 600, 15000), ("pack-spelling", 20, 400), ("pack-faults", 3, 20), ("ignore", 600, 15000)]
_UNPACK = [("unpack", 800, 15000), ("unpack-faults", 4, 15)]
_BUILDER = [("builder", 300, 8000), ("builder-faults", 8, 80), ("builder-order", 10, 120), ("bundle-roundtrip", 20, 400), ("sanitise", 500, 10000)]
_BUNDLE = [("bundle", 500, 10000)]
_ADDR = [("addr", 1500, 40000), ("resolve", 300, 8000), ("registry", 1000, 20000)]
_NEIGHBOURS = {
    "C01": _UNPACK, "C02": _PACK + _UNPACK, "C03": _PACK + [("sanitise", 500, 10000)], "C04": _UNPACK,
    "C05": _PACK + [("unpack", 500, 10000)], "C06": _ADDR + [("builder", 300, 8000)], "C07": _ADDR, "C08": _BUILDER + _BUNDLE,
    "C09": _BUILDER + _BUNDLE, "C10": [("sanitise", 500, 10000), ("ignore", 600, 15000), ("builder", 300, 8000)],
    "C11": _ADDR + [("builder", 300, 8000)], "C12": _UNPACK + _BUILDER + [("pack-faults", 3, 20)], "C13": _BUILDER + _BUNDLE, "C14": _BUILDER,
    "C15": _UNPACK, "C16": _PACK, "C17": _BUILDER, "C18": _BUNDLE + [("builder", 300, 8000), ("bundle-roundtrip", 20, 400)],
    "C19": _PACK + _UNPACK + _ADDR + _BUNDLE + [("builder", 300, 8000)], "C20": _PACK,
}
for _p, _ls in _NEIGHBOURS.items():
    _have = {l["lane"] for l in PROPS[_p]["lanes"] if not l.get("uid") and not l.get("race") and not l.get("umask")}
    for _name, _q, _t in _ls:
        if _name not in _have:
            PROPS[_p]["lanes"].append({"lane": _name, "quick": _q, "thorough": _t, "neighbour": True})
            _have.add(_name)
