"""Per-property configuration of bin/check: lanes and sizes per tier, trusted base, assumptions."""

STDLIB = "Go path/filepath/strings/io-fs functions are modelled (Base/Str, Base/Path), validated on the 'paths' lane, not verified"

PROPS = {
    "C11": {
        "lanes": [
            {"lane": "resolve", "quick": 2000, "thorough": 40000},
            {"lane": "paths", "quick": 1500, "thorough": 30000},
        ],
        "trusted_base": [STDLIB,
                         "package parts of addresses are opaque in this slice (URL/registry parsing is not involved in resolution)"],
        "assumptions": ["relative arguments reach the resolution functions only as LocalSource values (non-empty, not rooted)"],
        "explanation": "C11_join_spec/C11_resolve_spec: joinSubPath = failing segment stack for every valid base sub-path and every relative path (all depths); C11_never_escapes; C11_same_kind; C11_abs_unchanged. Tie: 'resolve' lane runs ResolveRelativeSource/ResolveRelativeFinalSource/FinalSourceAddr next to the model and a Go segment-stack reference.",
    },
}
