"""Per-property configuration of bin/check: lanes and sizes per tier, trusted base, assumptions."""

STDLIB = "Go path/filepath/strings/io-fs functions are modelled (Base/Str, Base/Path), validated on the 'paths' lane, not verified"

PROPS = {
    "C03": {
        "lanes": [
            {"lane": "ignore", "quick": 4000, "thorough": 120000},
        ],
        "trusted_base": [STDLIB,
                         "Go regexp engine restricted to the five fragments compile emits (lit, [^/]*, [^/], (.*/)?, .*) is modelled by matchT; bufio.ScanLines, strings.TrimSpace modelled",
                         "facts regenerated from the source on every run: default rule table, escaped-character set, (?s) flag (Generated/Ignore.lean)"],
        "assumptions": ["patterns with '[', ']' or '\\' are outside the modelled fragment (the rule language leaves them unspecified); '**' glued to other characters in one segment is outside WFVal"],
        "explanation": "C03_compile_sound: for every well-formed stored pattern and EVERY path string the compiled regexp tokens decide exactly the segment-wise glob; C03_last_match_wins; C03_defaults (exact characterisation of the built-in rules); C03_marking (negationsAfter invariant of parsing, incl. the early break); C03_prune_sound under TailClosed + C03_cex_prune_star_tail. Tie: 'ignore' lane runs ParseIgnoreFileContent/Excludes next to the model and an independent Go segment-wise matcher.",
    },
    "C11": {
        "lanes": [
            {"lane": "resolve", "quick": 2000, "thorough": 40000},
            {"lane": "paths", "quick": 1500, "thorough": 30000},
        ],
        "trusted_base": [STDLIB,
                         "package parts of addresses are opaque in this slice (URL/registry parsing is not involved in resolution)"],
        "assumptions": ["relative arguments reach the resolution functions only as LocalSource values (non-empty, not rooted)"],
        "explanation": "C11_join_spec/C11_resolve_spec: joinSubPath = failing segment stack for every valid base sub-path and every relative path (all depths); C11_never_escapes; C11_same_kind; C11_abs_unchanged. Tie: 'resolve' lane runs ResolveRelativeSource/ResolveRelativeFinalSource/FinalSourceAddr next to the model and a Go segment-stack reference.",
    },
}
