"""Per-property configuration of bin/check: lanes and sizes per tier, trusted base, assumptions."""

STDLIB = "Go path/filepath/strings/io-fs functions are modelled (Base/Str, Base/Path), validated on the 'paths' lane, not verified"

FSMODEL = "FS.lean models the Linux VFS + Go os package for the calls Unpack makes (lstat/stat/mkdir/MkdirAll/symlink/create/chmod/chtimes, kernel symlink following, umask 022, root privileges; no hard links, mount points, concurrency, ENOSPC); archive/tar + gzip are trusted as an identity between byte streams and entry lists (the harness decodes with the same library)"

PROPS = {
    "C12": {
        "lanes": [
            {"lane": "unpack-faults", "quick": 12, "thorough": 40},
        ],
        "trusted_base": [STDLIB, FSMODEL],
        "assumptions": ["fault model of the reader: the stream fails (error or clean truncation) at a byte offset; fh.Close() errors inside Unpack cannot be injected through an io.Reader and are outside the property's fault model"],
        "explanation": "Unpack part: C12_unpack_ok_complete (a run that reports success did everything the fault-free run does, for every fault position), C12_unpack_header_fault_reported, C12_unpack_body_fault_reported, C12_fault_never_illegal / C12_illegal_has_culprit (policy rejections are distinguishable and have a culprit entry). Tie: 'unpack-faults' lane cuts the tar stream at every position (mapped to the model's fault by decoding with archive/tar) and compares full filesystem dumps; gzip-level read errors/truncations are judged by the oracle (success => fully materialised).",
    },
    "C15": {
        "lanes": [
            {"lane": "unpack", "quick": 2500, "thorough": 60000},
        ],
        "trusted_base": [STDLIB, FSMODEL],
        "assumptions": ["well-formed archives for the oracle: no entry passes through or lands on a link, no kind conflict on a path, names inside dst, link targets relative and staying inside (kind conflicts are outside the property's claim)"],
        "explanation": "C15_unsupported_fails (a successful Unpack saw only representable entries), C15_unsupported_is_illegal, C15_empty_name_skipped, C15_dirs_restored_last (directory mode/mtime are applied after all entries, in archive order). The refinement to the sequential reading is established by correspondence: the 'unpack' lane compares the real destination tree with the model's filesystem and with an independent reference interpreter of the entry list.",
    },
    "C03": {
        "lanes": [
            {"lane": "ignore", "quick": 4000, "thorough": 120000},
        ],
        "trusted_base": [STDLIB,
                         "Go regexp engine restricted to the five fragments compile emits (lit, [^/]*, [^/], (.*/)?, .*) is modelled by matchT; bufio.ScanLines, strings.TrimSpace modelled",
                         "facts regenerated from the source on every run: default rule table, escaped-character set, (?s) flag (Generated/Ignore.lean)"],
        "assumptions": ["patterns with '[', ']' or '\\' are outside the modelled fragment (the rule language leaves them unspecified); '**' glued to other characters in one segment is outside WFVal"],
        "explanation": "C03_compile_sound: for every well-formed stored pattern and EVERY path string the compiled regexp tokens decide exactly the segment-wise glob; C03_last_match_wins; C03_defaults (exact characterisation of the built-in rules); C03_marking (negationsAfter invariant of parsing, incl. the early break); C03_prune_sound under TailClosed + C03_cex_prune_star_tail. Tie: 'ignore' lane runs ParseIgnoreFileContent/Excludes next to the model and an independent Go segment-wise matcher.",
    },
    "C11": {
        "lanes": [
            {"lane": "resolve", "quick": 2000, "thorough": 40000},
            {"lane": "paths", "quick": 1500, "thorough": 30000},
        ],
        "trusted_base": [STDLIB,
                         "package parts of addresses are opaque in this slice (URL/registry parsing is not involved in resolution)"],
        "assumptions": ["relative arguments reach the resolution functions only as LocalSource values (non-empty, not rooted)"],
        "explanation": "C11_join_spec/C11_resolve_spec: joinSubPath = failing segment stack for every valid base sub-path and every relative path (all depths); C11_never_escapes; C11_same_kind; C11_abs_unchanged. Tie: 'resolve' lane runs ResolveRelativeSource/ResolveRelativeFinalSource/FinalSourceAddr next to the model and a Go segment-stack reference.",
    },
}
