// go2lean: a small translator from a subset of Go to Lean 4.
//
// It regenerates lean/SlugModel/Generated/Trans.lean from /repo on every run: each listed
// function of the repository is parsed with go/parser and written out as a Lean definition in
// `Id.run do` notation over the model's types (strings are `Str = List Char`, `int` is `Int`,
// `error` results are a Bool "is non-nil", one-field address structs are their field).  The
// hand-written model functions are proved equal to these generated definitions in
// Lemmas/Trans*.lean, so a change of the Go source changes a definition a proof depends on.
//
// Supported subset (anything else makes the function "untranslatable", which is recorded in the
// output and makes the dependent proofs fail to build):
//   statements   x := e | x = e | x += e | var x T [= e] | a, b := f(..) | if [init;] c {..} [else ..]
//                | return e.. | for _, v := range xs {..} | for i, v := range xs {..} | continue | break
//   expressions  string/int/bool literals, identifiers, == != < <= > >= && || ! + - , s[a:b] s[a:] s[:b],
//                len(s), calls of the library functions in `lib`, calls of other translated functions,
//                T{field: e} / T{} for the one-field structs in `newtypes`, fmt.Errorf(..) / nil as errors
package main

import (
	"flag"
	"fmt"
	"go/ast"
	"go/parser"
	"go/token"
	"os"
	"path/filepath"
	"sort"
	"strconv"
	"strings"
)

type ty string

const (
	tStr   ty = "Str"
	tInt   ty = "Int"
	tBool  ty = "Bool"
	tErr   ty = "Bool" // an error result: true = non-nil
	tStrs  ty = "List Str"
	tRule  ty = "Rule"       // ignorefiles.rule: the model's structure Rule (val, negated, negAfter)
	tRules ty = "List Rule"
	tExcl  ty = "Bool × Bool" // ignorefiles.ExcludesResult: (Excluded, Dominating)
	tChar  ty = "Char"        // a byte of a string / a tar type flag
	tOsErr ty = "Go.OsErr"    // an error of the os package (nil / not-exist / other)
	tStat  ty = "Go.FileInfo" // os.FileInfo as far as the translated code looks at it
	tInfo  ty = "Go.UnpackInfo" // unpackinfo.UnpackInfo: (path, typeflag)
	tFS    ty = "FS"
	tSrc   ty = "Str × Str" // sourceaddrs.RemoteSource / RegistrySource: (package as printed — opaque here, sub-path)
	tUnknown ty = "?"
)

type libFn struct {
	lean string
	args []ty
	res  []ty
}

// library functions: Go name -> Lean name in namespace Slug.Go (SlugModel/GoLib.lean)
var lib = map[string]libFn{
	"strings.Index":       {"Go.index", []ty{tStr, tStr}, []ty{tInt}},
	"strings.HasPrefix":   {"Go.hasPrefix", []ty{tStr, tStr}, []ty{tBool}},
	"strings.HasSuffix":   {"Go.hasSuffix", []ty{tStr, tStr}, []ty{tBool}},
	"strings.Contains":    {"Go.contains", []ty{tStr, tStr}, []ty{tBool}},
	"strings.ContainsAny": {"Go.containsAny", []ty{tStr, tStr}, []ty{tBool}},
	"strings.TrimPrefix":  {"Go.trimPrefix", []ty{tStr, tStr}, []ty{tStr}},
	"strings.TrimSuffix":  {"Go.trimSuffix", []ty{tStr, tStr}, []ty{tStr}},
	"strings.TrimSpace":   {"Go.trimSpace", []ty{tStr}, []ty{tStr}},
	"path.Clean":          {"Go.pathClean", []ty{tStr}, []ty{tStr}},
	"path.Join":           {"Go.pathJoin", []ty{tStr, tStr}, []ty{tStr}},
	"path.Base":           {"Go.pathBase", []ty{tStr}, []ty{tStr}},
	"path.Dir":            {"Go.pathDir", []ty{tStr}, []ty{tStr}},
	"path.IsAbs":          {"Go.isAbs", []ty{tStr}, []ty{tBool}},
	"filepath.Clean":      {"Go.pathClean", []ty{tStr}, []ty{tStr}},
	"filepath.Join":       {"Go.pathJoin", []ty{tStr, tStr}, []ty{tStr}},
	"filepath.Dir":        {"Go.pathDir", []ty{tStr}, []ty{tStr}},
	"filepath.Base":       {"Go.pathBase", []ty{tStr}, []ty{tStr}},
	"filepath.IsAbs":      {"Go.isAbs", []ty{tStr}, []ty{tBool}},
	"fs.ValidPath":        {"Go.validPath", []ty{tStr}, []ty{tBool}},
	"filepath.Abs":        {"Go.pathAbs cwd", []ty{tStr}, []ty{tStr, tErr}},
	"filepath.Rel":        {"Go.pathRel", []ty{tStr, tStr}, []ty{tStr, tErr}},
	"strings.Split":       {"Go.split", []ty{tStr, tStr}, []ty{tStrs}},
	"os.Lstat":            {"Go.lstat fs", []ty{tStr}, []ty{tStat, tOsErr}},
	"os.IsNotExist":       {"Go.isNotExist", []ty{tOsErr}, []ty{tBool}},
}

// one-field structs that the model represents by their field
var newtypes = map[string]string{"LocalSource": "relPath"}

type target struct {
	file string // relative to the repository
	recv string // "" for a plain function
	name string
	lean string // Lean name of the definition
	// extra leading parameters: the process state the function reads ("cwd": the working directory
	// filepath.Abs consults) and the receiver fields it reads, in this order
	extra []string
}

// types of the extra parameters
var extraTypes = map[string]ty{"cwd": tStr, "allowSymlinkTargets": tStrs, "rules": tRules, "fs": tFS, "lines": tStrs}

// parameters of pointer-to-struct type that are passed as the fields the code reads: parameter name ->
// field -> (Lean parameter name, type)
var structParams = map[string]map[string][2]string{
	"header": {"Name": {"hdrName", string(tStr)}, "Typeflag": {"hdrTypeflag", string(tChar)}},
}

// fields of unpackinfo.UnpackInfo kept by the model's structure (the time and mode fields are carried
// to RestoreInfo unchanged and are not part of the translated result)
var infoFields = map[string][2]string{"Path": {"path", string(tStr)}, "Typeflag": {"typeflag", string(tChar)}}

// tar type flag constants
var tarFlags = map[string]string{"tar.TypeReg": "'0'", "tar.TypeRegA": "(Char.ofNat 0)", "tar.TypeLink": "'1'", "tar.TypeSymlink": "'2'",
	"tar.TypeChar": "'3'", "tar.TypeBlock": "'4'", "tar.TypeDir": "'5'", "tar.TypeFifo": "'6'", "tar.TypeXHeader": "'x'", "tar.TypeXGlobalHeader": "'g'"}

// fields of the structs the model has a structure for: Go field -> (Lean field, type)
var ruleFields = map[string][2]string{"val": {"val", string(tStr)}, "negated": {"negated", string(tBool)}, "negationsAfter": {"negAfter", string(tBool)}}

// methods of values whose implementation is outside the translated subset: receiver type + name -> model function
var methods = map[string]libFn{
	"Rule.match": {"Go.ruleMatch", []ty{tStr}, []ty{tBool, tErr}}, // (*rule).match: compiles the pattern, matches the path
}

// result structs read as tuples: field order
var tupleStructs = map[string][]string{"ExcludesResult": {"Excluded", "Dominating"}}

var targets = []target{
	{"sourceaddrs/subpath.go", "", "normalizeSubpath", "normalizeSubpath", nil},
	{"sourceaddrs/subpath.go", "", "splitSubPath", "splitSubPath", nil},
	{"sourceaddrs/subpath.go", "", "joinSubPath", "joinSubPath", nil},
	{"sourceaddrs/source_local.go", "", "looksLikeLocalSource", "looksLikeLocalSource", nil},
	{"sourceaddrs/source_local.go", "", "ParseLocalSource", "parseLocalSource", nil},
	{"internal/unpackinfo/unpackinfo.go", "", "isWithin", "isWithin", nil},
	{"slug.go", "Packer", "allowedSymlinkTarget", "allowedSymlinkTarget", []string{"allowSymlinkTargets"}},
	{"slug.go", "Packer", "validSymlink", "validSymlink", []string{"cwd", "allowSymlinkTargets"}},
	{"internal/ignorefiles/ignorerules.go", "Ruleset", "Excludes", "excludes", []string{"rules"}},
	{"internal/unpackinfo/unpackinfo.go", "UnpackInfo", "IsSymlink", "isSymlink", nil},
	{"internal/unpackinfo/unpackinfo.go", "UnpackInfo", "IsDirectory", "isDirectory", nil},
	{"internal/unpackinfo/unpackinfo.go", "UnpackInfo", "IsTypeX", "isTypeX", nil},
	{"internal/unpackinfo/unpackinfo.go", "UnpackInfo", "IsRegular", "isRegular", nil},
	{"internal/unpackinfo/unpackinfo.go", "", "NewUnpackInfo", "newUnpackInfo", []string{"fs"}},
	{"sourceaddrs/source_registry.go", "RegistrySource", "FinalSourceAddr", "finalSourceAddr", nil},
	{"sourceaddrs/subpath.go", "", "ValidSubPath", "validSubPath", nil},
	{"internal/ignorefiles/terraformignore.go", "", "readRules", "readRules", []string{"lines"}},
}

var leanKeywords = map[string]bool{"end": true, "from": true, "at": true, "have": true, "show": true, "match": true,
	"then": true, "fun": true, "open": true, "in": true, "do": true, "let": true, "if": true, "else": true, "with": true,
	"def": true, "theorem": true, "by": true, "where": true, "instance": true, "class": true, "structure": true,
	"namespace": true, "section": true, "variable": true, "import": true, "mut": true, "for": true, "return": true,
	"Type": true, "Prop": true, "Sort": true, "macro": true, "syntax": true, "notation": true, "prefix": true, "infix": true,
	"private": true, "protected": true, "unless": true, "try": true, "catch": true, "finally": true, "deriving": true,
	"using": true, "calc": true, "suffices": true, "obtain": true, "exact": true, "pure": true, "bind": true}

type untranslatable struct{ why string }

func fail(format string, a ...interface{}) { panic(untranslatable{fmt.Sprintf(format, a...)}) }

type sig struct {
	lean  string
	args  []ty
	res   []ty
	extra []string
}

type tr struct {
	recvName string   // name of the receiver variable ("" if none)
	recvType string   // its type name
	scanner  string   // name of a bufio.Scanner variable over the "lines" parameter ("" if none)
	lineVar  string   // Lean name of the current line inside `for scanner.Scan()`
	extra    []string // extra parameters available in this function
	fset   *token.FileSet
	sigs   map[string]sig // translated functions by Go name
	scopes []map[string]string
	types  map[string]ty // lean variable name -> type
	used   map[string]int
	out    []string
	res    []ty
}

func (t *tr) emit(ind int, s string) { t.out = append(t.out, strings.Repeat("  ", ind)+s) }
func (t *tr) push()                  { t.scopes = append(t.scopes, map[string]string{}) }
func (t *tr) pop()                   { t.scopes = t.scopes[:len(t.scopes)-1] }

func (t *tr) lookup(name string) (string, bool) {
	for i := len(t.scopes) - 1; i >= 0; i-- {
		if l, ok := t.scopes[i][name]; ok {
			return l, true
		}
	}
	return "", false
}

func (t *tr) declare(name string, typ ty) string {
	base := name
	if leanKeywords[base] {
		base += "'"
	}
	l := base
	if n := t.used[base]; n > 0 {
		l = fmt.Sprintf("%s_%d", base, n)
	}
	t.used[base]++
	t.scopes[len(t.scopes)-1][name] = l
	t.types[l] = typ
	return l
}

func leanStrLit(s string) string {
	if s == "" {
		return "([] : Str)"
	}
	var parts []string
	for _, c := range s {
		switch {
		case c == '\'':
			parts = append(parts, `'\''`)
		case c == '\\':
			parts = append(parts, `'\\'`)
		case c == '\n':
			parts = append(parts, `'\n'`)
		case c == '\t':
			parts = append(parts, `'\t'`)
		case c >= 32 && c < 127:
			parts = append(parts, fmt.Sprintf("'%c'", c))
		default:
			parts = append(parts, fmt.Sprintf("(Char.ofNat %d)", c))
		}
	}
	return "([" + strings.Join(parts, ", ") + "] : Str)"
}

func typeOf(e ast.Expr) ty {
	switch x := e.(type) {
	case *ast.Ident:
		switch x.Name {
		case "string":
			return tStr
		case "int":
			return tInt
		case "bool":
			return tBool
		case "error":
			return tErr
		}
		if _, ok := newtypes[x.Name]; ok {
			return tStr
		}
		if x.Name == "ExcludesResult" {
			return tExcl
		}
		if x.Name == "rule" {
			return tRule
		}
		if x.Name == "UnpackInfo" {
			return tInfo
		}
		if x.Name == "RemoteSource" || x.Name == "RegistrySource" {
			return tSrc
		}
		if x.Name == "byte" {
			return tChar
		}
	case *ast.ArrayType:
		if x.Len == nil && typeOf(x.Elt) == tStr {
			return tStrs
		}
		if x.Len == nil && typeOf(x.Elt) == tRule {
			return tRules
		}
	}
	fail("unsupported type %T", e)
	return tUnknown
}

// exprName: "pkg.Name" of a selector on an identifier ("" otherwise)
func exprName(e ast.Expr) string {
	if x, ok := e.(*ast.SelectorExpr); ok {
		if id, ok := x.X.(*ast.Ident); ok {
			return id.Name + "." + x.Sel.Name
		}
	}
	return ""
}

// isModeSymlinkTest: fi.Mode()&fs.ModeSymlink (or os.ModeSymlink)
func isModeSymlinkTest(e ast.Expr) bool {
	b, ok := e.(*ast.BinaryExpr)
	if !ok || b.Op != token.AND {
		return false
	}
	if n := exprName(b.Y); n != "fs.ModeSymlink" && n != "os.ModeSymlink" {
		return false
	}
	c, ok := b.X.(*ast.CallExpr)
	if !ok || len(c.Args) != 0 {
		return false
	}
	sel, ok := c.Fun.(*ast.SelectorExpr)
	return ok && sel.Sel.Name == "Mode"
}

func exprText(e ast.Expr) string {
	switch x := e.(type) {
	case *ast.Ident:
		return x.Name
	case *ast.SelectorExpr:
		return exprText(x.X) + "." + x.Sel.Name
	}
	return "?"
}

func callName(e ast.Expr) string {
	switch x := e.(type) {
	case *ast.Ident:
		return x.Name
	case *ast.SelectorExpr:
		if id, ok := x.X.(*ast.Ident); ok {
			return id.Name + "." + x.Sel.Name
		}
	}
	return ""
}

// expr translates an expression; want is the expected type where the context fixes it ("" otherwise)
func (t *tr) expr(e ast.Expr, want ty) (string, ty) {
	switch x := e.(type) {
	case *ast.ParenExpr:
		s, ty := t.expr(x.X, want)
		return "(" + s + ")", ty
	case *ast.BasicLit:
		switch x.Kind {
		case token.STRING:
			s, err := strconv.Unquote(x.Value)
			if err != nil {
				fail("string literal %s", x.Value)
			}
			return leanStrLit(s), tStr
		case token.INT:
			return "(" + x.Value + " : Int)", tInt
		case token.CHAR:
			c, _, _, err := strconv.UnquoteChar(x.Value[1:len(x.Value)-1], '\'')
			if err != nil {
				fail("char literal %s", x.Value)
			}
			return strings.TrimSuffix(strings.TrimPrefix(leanStrLit(string(c)), "(["), "] : Str)"), tChar
		}
		fail("literal %s", x.Value)
	case *ast.Ident:
		switch x.Name {
		case "true", "false":
			return x.Name, tBool
		case "nil":
			if want == tErr {
				return "false", tErr
			}
			if want == tRules {
				return "([] : List Rule)", tRules
			}
			fail("nil outside an error position")
		}
		l, ok := t.lookup(x.Name)
		if !ok {
			if x.Name == "defaultExclusions" {
				return "Go.defaultExclusions", tRules
			}
			fail("unknown identifier %s", x.Name)
		}
		return l, t.types[l]
	case *ast.UnaryExpr:
		switch x.Op {
		case token.NOT:
			s, _ := t.expr(x.X, tBool)
			return "(!" + s + ")", tBool
		case token.SUB:
			s, _ := t.expr(x.X, tInt)
			return "(-" + s + ")", tInt
		case token.AND:
			// &SomeError{...} in an error position
			if _, ok := x.X.(*ast.CompositeLit); ok && want == tErr {
				return "true", tErr
			}
		}
		fail("unary operator %s", x.Op)
	case *ast.BinaryExpr:
		switch x.Op {
		case token.LAND, token.LOR:
			a, _ := t.expr(x.X, tBool)
			b, _ := t.expr(x.Y, tBool)
			op := "&&"
			if x.Op == token.LOR {
				op = "||"
			}
			return "(" + a + " " + op + " " + b + ")", tBool
		case token.EQL, token.NEQ:
			if id, ok := x.X.(*ast.Ident); ok && t.recvName != "" && id.Name == t.recvName {
				if n, ok := x.Y.(*ast.Ident); ok && n.Name == "nil" {
					// the receiver is not nil in the model (a nil receiver is outside it)
					if x.Op == token.EQL {
						return "false", tBool
					}
					return "true", tBool
				}
			}
			if isModeSymlinkTest(x.X) {
				if lit, ok := x.Y.(*ast.BasicLit); ok && lit.Value == "0" {
					c := x.X.(*ast.BinaryExpr).X.(*ast.CallExpr).Fun.(*ast.SelectorExpr).X
					fi, tf := t.expr(c, tStat)
					if tf != tStat {
						fail("Mode() of %s", tf)
					}
					if x.Op == token.NEQ {
						return "(Go.isSymlinkMode " + fi + ")", tBool
					}
					return "(!(Go.isSymlinkMode " + fi + "))", tBool
				}
			}
			if id, ok := x.Y.(*ast.Ident); ok && id.Name == "nil" {
				if a, ta := t.expr(x.X, ""); ta == tOsErr {
					if x.Op == token.NEQ {
						return "(Go.nonNil " + a + ")", tBool
					}
					return "(!(Go.nonNil " + a + "))", tBool
				}
			}
			a, ta := t.expr(x.X, "")
			b, tb := t.expr(x.Y, ta)
			if ta == tBool && tb == tBool {
				// comparison with nil of an error value
				if id, ok := x.Y.(*ast.Ident); ok && id.Name == "nil" {
					if x.Op == token.EQL {
						return "(!" + a + ")", tBool
					}
					return a, tBool
				}
			}
			if ta != tb {
				fail("comparison of %s and %s", ta, tb)
			}
			op := "=="
			if x.Op == token.NEQ {
				op = "!="
			}
			return "(" + a + " " + op + " " + b + ")", tBool
		case token.LSS, token.LEQ, token.GTR, token.GEQ:
			a, ta := t.expr(x.X, tInt)
			b, tb := t.expr(x.Y, tInt)
			if ta != tInt || tb != tInt {
				fail("ordered comparison of non-integers")
			}
			return "(decide (" + a + " " + x.Op.String() + " " + b + "))", tBool
		case token.ADD:
			a, ta := t.expr(x.X, want)
			b, tb := t.expr(x.Y, ta)
			if ta != tb {
				fail("+ of %s and %s", ta, tb)
			}
			if ta == tStr {
				return "(" + a + " ++ " + b + ")", tStr
			}
			return "(" + a + " + " + b + ")", tInt
		case token.SUB:
			a, _ := t.expr(x.X, tInt)
			b, _ := t.expr(x.Y, tInt)
			return "(" + a + " - " + b + ")", tInt
		}
		fail("binary operator %s", x.Op)
	case *ast.IndexExpr:
		a, ta := t.expr(x.X, "")
		i, ti := t.expr(x.Index, tInt)
		if ti != tInt {
			fail("index of type %s", ti)
		}
		switch ta {
		case tStr:
			return "(Go.byteAt " + a + " " + i + ")", tChar
		case tStrs:
			return "(Go.listAt " + a + " " + i + ")", tStr
		}
		fail("index into %s", ta)
	case *ast.SliceExpr:
		if x.Slice3 {
			fail("3-index slice")
		}
		s, ts := t.expr(x.X, tStr)
		if ts != tStr {
			fail("slice of a non-string")
		}
		switch {
		case x.Low != nil && x.High != nil:
			lo, _ := t.expr(x.Low, tInt)
			hi, _ := t.expr(x.High, tInt)
			return "(Go.slice " + s + " " + lo + " " + hi + ")", tStr
		case x.Low != nil:
			lo, _ := t.expr(x.Low, tInt)
			return "(Go.sliceFrom " + s + " " + lo + ")", tStr
		case x.High != nil:
			hi, _ := t.expr(x.High, tInt)
			return "(Go.sliceTo " + s + " " + hi + ")", tStr
		}
		return s, tStr
	case *ast.CompositeLit:
		if id, ok := x.Type.(*ast.Ident); ok {
			if field, ok := newtypes[id.Name]; ok {
				if len(x.Elts) == 0 {
					return "([] : Str)", tStr
				}
				if len(x.Elts) == 1 {
					if kv, ok := x.Elts[0].(*ast.KeyValueExpr); ok {
						if k, ok := kv.Key.(*ast.Ident); ok && k.Name == field {
							return t.expr(kv.Value, tStr)
						}
					}
				}
			}
		}
		if id, ok := x.Type.(*ast.Ident); ok && id.Name == "rule" && len(x.Elts) == 0 {
			return "Go.zeroRule", tRule
		}
		if id, ok := x.Type.(*ast.Ident); ok && (id.Name == "RemoteSource" || id.Name == "RegistrySource") {
			pk, sub := "([] : Str)", "([] : Str)"
			for _, el := range x.Elts {
				kv, ok := el.(*ast.KeyValueExpr)
				if !ok {
					fail("positional composite literal")
				}
				k, _ := kv.Key.(*ast.Ident)
				switch {
				case k != nil && k.Name == "pkg":
					pk, _ = t.expr(kv.Value, tStr)
				case k != nil && k.Name == "subPath":
					sub, _ = t.expr(kv.Value, tStr)
				default:
					fail("field of a source address literal")
				}
			}
			return "((" + pk + ", " + sub + ") : Str × Str)", tSrc
		}
		if id, ok := x.Type.(*ast.Ident); ok && id.Name == "UnpackInfo" {
			pathV, flagV := "([] : Str)", "(Char.ofNat 0)"
			for _, el := range x.Elts {
				kv, ok := el.(*ast.KeyValueExpr)
				if !ok {
					fail("positional composite literal")
				}
				k, _ := kv.Key.(*ast.Ident)
				if k == nil {
					fail("composite literal key")
				}
				switch k.Name {
				case "Path":
					pathV, _ = t.expr(kv.Value, tStr)
				case "Typeflag":
					flagV, _ = t.expr(kv.Value, tChar)
				case "OriginalAccessTime", "OriginalModTime", "OriginalMode":
					// carried to RestoreInfo unchanged; not part of the model's structure
				default:
					fail("field %s of UnpackInfo", k.Name)
				}
			}
			return "({ path := " + pathV + ", typeflag := " + flagV + " } : Go.UnpackInfo)", tInfo
		}
		if id, ok := x.Type.(*ast.Ident); ok {
			if fields, ok := tupleStructs[id.Name]; ok {
				vals := make([]string, len(fields))
				for i := range vals {
					vals[i] = "false"
				}
				for _, el := range x.Elts {
					kv, ok := el.(*ast.KeyValueExpr)
					if !ok {
						fail("positional composite literal")
					}
					k, _ := kv.Key.(*ast.Ident)
					found := false
					for i, f := range fields {
						if k != nil && k.Name == f {
							v, tv := t.expr(kv.Value, tBool)
							if tv != tBool {
								fail("field %s of type %s", f, tv)
							}
							vals[i] = v
							found = true
						}
					}
					if !found {
						fail("unknown field in composite literal")
					}
				}
				return "(" + strings.Join(vals, ", ") + ")", tExcl
			}
		}
		fail("composite literal")
	case *ast.SelectorExpr:
		// a field of the receiver that is passed as an extra parameter
		if id, ok := x.X.(*ast.Ident); ok && t.recvName != "" && id.Name == t.recvName {
			for _, e := range t.extra {
				if e == x.Sel.Name {
					return e, extraTypes[e]
				}
			}
		}
		if fl, ok := tarFlags[exprName(x)]; ok {
			return fl, tChar
		}
		if n := exprName(x); n == "os.PathSeparator" || n == "filepath.Separator" {
			return "'/'", tChar
		}
		// rules[i].field
		if ix, ok := x.X.(*ast.IndexExpr); ok {
			a, ta := t.expr(ix.X, "")
			i, _ := t.expr(ix.Index, tInt)
			if ta == tRules {
				if f, ok := ruleFields[x.Sel.Name]; ok {
					return "(Go.ruleAt " + a + " " + i + ")." + f[0], ty(f[1])
				}
			}
		}
		if id, ok := x.X.(*ast.Ident); ok {
			if fields, ok := structParams[id.Name]; ok {
				if _, shadow := t.lookup(id.Name); !shadow {
					if f, ok := fields[x.Sel.Name]; ok {
						return f[0], ty(f[1])
					}
					fail("field %s of %s", x.Sel.Name, id.Name)
				}
			}
			if l, ok := t.lookup(id.Name); ok && t.types[l] == tSrc {
				switch x.Sel.Name {
				case "pkg":
					return l + ".1", tStr
				case "subPath":
					return l + ".2", tStr
				}
			}
			if l, ok := t.lookup(id.Name); ok && t.types[l] == tInfo {
				if f, ok := infoFields[x.Sel.Name]; ok {
					return l + "." + f[0], ty(f[1])
				}
			}
			if t.recvName != "" && id.Name == t.recvName && t.recvType == "UnpackInfo" {
				if f, ok := infoFields[x.Sel.Name]; ok {
					return t.recvName + "." + f[0], ty(f[1])
				}
			}
			if l, ok := t.lookup(id.Name); ok && t.types[l] == tRule {
				if f, ok := ruleFields[x.Sel.Name]; ok {
					return l + "." + f[0], ty(f[1])
				}
			}
		}
		fail("selector %s", x.Sel.Name)
	case *ast.CallExpr:
		name := callName(x.Fun)
		if name == "string" && len(x.Args) == 1 {
			if c := callName(x.Args[0]); c == "filepath.Separator" || c == "os.PathSeparator" {
				return leanStrLit("/"), tStr
			}
		}
		if t.recvName != "" && strings.HasPrefix(name, t.recvName+".") {
			name = strings.TrimPrefix(name, t.recvName+".") // a method of the same receiver
		}
		if name == "len" && len(x.Args) == 1 {
			s, ts := t.expr(x.Args[0], "")
			if ts == tStrs {
				return "(Go.lenList " + s + ")", tInt
			}
			if ts == tRules {
				return "(Go.lenRules " + s + ")", tInt
			}
			if ts != tStr {
				fail("len of a non-string")
			}
			return "(Go.len " + s + ")", tInt
		}
		if name == "fmt.Errorf" || name == "errors.New" {
			return "true", tErr
		}
		if t.scanner != "" && name == t.scanner+".Text" {
			if t.lineVar == "" {
				fail("scanner.Text() outside the scanning loop")
			}
			return t.lineVar, tStr
		}
		if t.scanner != "" && name == t.scanner+".Err" {
			// reading the lines cannot fail in the model (the reader is given as its lines)
			return "false", tErr
		}
		if name == "make" && len(x.Args) == 2 {
			if at, ok := x.Args[0].(*ast.ArrayType); ok && at.Len == nil && exprText(at.Elt) == "rule" {
				n, tn := t.expr(x.Args[1], tInt)
				if tn != tInt {
					fail("make length")
				}
				return "(Go.zeroRules " + n + ")", tRules
			}
		}
		if name == "append" && len(x.Args) == 2 {
			a, ta := t.expr(x.Args[0], "")
			b, tb := t.expr(x.Args[1], "")
			if ta == tRules && tb == tRule {
				return "(" + a + " ++ [" + b + "])", tRules
			}
			fail("append of %s to %s", tb, ta)
		}
		var f sig
		if sel, ok := x.Fun.(*ast.SelectorExpr); ok {
			if id, ok := sel.X.(*ast.Ident); ok {
				if l, ok := t.lookup(id.Name); ok && t.types[l] == tInfo {
					if sg, ok := t.sigs[sel.Sel.Name]; ok && len(x.Args) == 0 {
						return "(" + sg.lean + " " + l + ")", sg.res[0]
					}
				}
				if l, ok := t.lookup(id.Name); ok {
					if m, ok := methods[string(t.types[l])+"."+sel.Sel.Name]; ok {
						f = sig{m.lean + " " + l, m.args, m.res, nil}
						name = string(t.types[l]) + "." + sel.Sel.Name
					}
				}
			}
		}
		if f.lean != "" {
		} else if l, ok := lib[name]; ok {
			f = sig{l.lean, l.args, l.res, nil}
		} else if s, ok := t.sigs[name]; ok {
			f = s
		} else {
			fail("call of %s", name)
		}
		if len(x.Args) != len(f.args) {
			fail("call of %s with %d arguments", name, len(x.Args))
		}
		parts := []string{f.lean}
		for _, e := range f.extra {
			ok := false
			for _, have := range t.extra {
				ok = ok || have == e
			}
			if !ok {
				fail("call of %s needs %s, which this function does not have", name, e)
			}
			parts = append(parts, e)
		}
		if name == "filepath.Abs" {
			ok := false
			for _, have := range t.extra {
				ok = ok || have == "cwd"
			}
			if !ok {
				fail("filepath.Abs in a function without the cwd parameter")
			}
		}
		for i, a := range x.Args {
			s, ta := t.expr(a, f.args[i])
			if ta != f.args[i] {
				fail("argument %d of %s has type %s", i, name, ta)
			}
			parts = append(parts, s)
		}
		if len(f.res) == 1 {
			return "(" + strings.Join(parts, " ") + ")", f.res[0]
		}
		return "(" + strings.Join(parts, " ") + ")", ty("tuple")
	}
	fail("expression %T", e)
	return "", tUnknown
}

func (t *tr) callResults(e ast.Expr) (string, []ty) {
	c, ok := e.(*ast.CallExpr)
	if !ok {
		fail("multi-value right-hand side that is not a call")
	}
	s, _ := t.expr(c, "")
	name := callName(c.Fun)
	if sel, ok := c.Fun.(*ast.SelectorExpr); ok {
		if id, ok := sel.X.(*ast.Ident); ok {
			if l, ok := t.lookup(id.Name); ok {
				if m, ok := methods[string(t.types[l])+"."+sel.Sel.Name]; ok {
					return s, m.res
				}
			}
		}
	}
	if l, ok := lib[name]; ok {
		return s, l.res
	}
	if t.recvName != "" {
		name = strings.TrimPrefix(name, t.recvName+".")
	}
	return s, t.sigs[name].res
}

func (t *tr) assignNew(ind int, lhs []ast.Expr, rhs []ast.Expr, define bool) {
	if len(lhs) == len(rhs) {
		for i := range lhs {
			id, ok := lhs[i].(*ast.Ident)
			if !ok {
				fail("assignment target %T", lhs[i])
			}
			var want ty
			if !define {
				if l, ok := t.lookup(id.Name); ok {
					want = t.types[l]
				}
			}
			s, ts := t.expr(rhs[i], want)
			if id.Name == "_" {
				continue
			}
			_, inCur := t.scopes[len(t.scopes)-1][id.Name]
			if define && !inCur {
				l := t.declare(id.Name, ts)
				t.emit(ind, fmt.Sprintf("let mut %s : %s := %s", l, ts, s))
			} else {
				l, ok := t.lookup(id.Name)
				if !ok {
					fail("assignment to unknown %s", id.Name)
				}
				if t.types[l] != ts {
					fail("assignment of %s to %s variable %s", ts, t.types[l], id.Name)
				}
				t.emit(ind, fmt.Sprintf("%s := %s", l, s))
			}
		}
		return
	}
	if len(rhs) != 1 {
		fail("assignment shape")
	}
	s, res := t.callResults(rhs[0])
	if len(res) != len(lhs) {
		fail("assignment count")
	}
	tmp := make([]string, len(lhs))
	for i := range lhs {
		t.used["r'"]++
		tmp[i] = fmt.Sprintf("r'_%d", t.used["r'"])
	}
	t.emit(ind, fmt.Sprintf("let (%s) := %s", strings.Join(tmp, ", "), s))
	for i := range lhs {
		id, ok := lhs[i].(*ast.Ident)
		if !ok {
			fail("assignment target %T", lhs[i])
		}
		if id.Name == "_" {
			continue
		}
		_, inCur := t.scopes[len(t.scopes)-1][id.Name]
		if define && !inCur {
			l := t.declare(id.Name, res[i])
			t.emit(ind, fmt.Sprintf("let mut %s : %s := %s", l, res[i], tmp[i]))
		} else {
			l, ok := t.lookup(id.Name)
			if !ok {
				fail("assignment to unknown %s", id.Name)
			}
			t.emit(ind, fmt.Sprintf("%s := %s", l, tmp[i]))
		}
	}
}

func zero(typ ty) string {
	switch typ {
	case tStr:
		return "([] : Str)"
	case tInt:
		return "(0 : Int)"
	case tBool:
		return "false"
	case tExcl:
		return "(false, false)"
	case tInfo:
		return "({ path := ([] : Str), typeflag := (Char.ofNat 0) } : Go.UnpackInfo)"
	}
	fail("zero value of %s", typ)
	return ""
}

func (t *tr) block(ind int, stmts []ast.Stmt) {
	t.push()
	defer t.pop()
	n0 := len(t.out)
	for _, s := range stmts {
		t.stmt(ind, s)
	}
	if len(t.out) == n0 {
		t.emit(ind, "pure ()")
	}
}

func (t *tr) stmt(ind int, s ast.Stmt) {
	switch x := s.(type) {
	case *ast.ExprStmt:
		c, ok := x.X.(*ast.CallExpr)
		if !ok {
			fail("expression statement")
		}
		name := callName(c.Fun)
		switch {
		case name == "copy" && len(c.Args) == 2:
			dst, ok := c.Args[0].(*ast.Ident)
			if !ok {
				fail("copy target")
			}
			l, ok := t.lookup(dst.Name)
			if !ok || t.types[l] != tRules {
				fail("copy into %s", dst.Name)
			}
			src, ts := t.expr(c.Args[1], tRules)
			if ts != tRules {
				fail("copy from %s", ts)
			}
			t.emit(ind, fmt.Sprintf("%s := Go.copyRules %s %s", l, l, src))
		case t.scanner != "" && (name == t.scanner+".Buffer" || name == t.scanner+".Split"):
			// configuration of the scanner: line splitting without a length limit is what `lines` is
			if name == t.scanner+".Split" && (len(c.Args) != 1 || exprText(c.Args[0]) != "bufio.ScanLines") {
				fail("scanner split function")
			}
		default:
			fail("call statement %s", name)
		}
		return
	case *ast.AssignStmt:
		// scanner := bufio.NewScanner(input)
		if x.Tok == token.DEFINE && len(x.Lhs) == 1 && len(x.Rhs) == 1 {
			if c, ok := x.Rhs[0].(*ast.CallExpr); ok && callName(c.Fun) == "bufio.NewScanner" {
				hasLines := false
				for _, e := range t.extra {
					hasLines = hasLines || e == "lines"
				}
				if !hasLines || t.scanner != "" {
					fail("bufio.NewScanner")
				}
				t.scanner = x.Lhs[0].(*ast.Ident).Name
				return
			}
		}
		// v.field = e   and   xs[i].field = e   for the modelled rule structure
		if x.Tok == token.ASSIGN && len(x.Lhs) == 1 && len(x.Rhs) == 1 {
			if sel, ok := x.Lhs[0].(*ast.SelectorExpr); ok {
				if f, ok := ruleFields[sel.Sel.Name]; ok {
					if id, ok := sel.X.(*ast.Ident); ok {
						if l, ok := t.lookup(id.Name); ok && t.types[l] == tRule {
							v, tv := t.expr(x.Rhs[0], ty(f[1]))
							if tv != ty(f[1]) {
								fail("field assignment type")
							}
							t.emit(ind, fmt.Sprintf("%s := { %s with %s := %s }", l, l, f[0], v))
							return
						}
					}
					if ix, ok := sel.X.(*ast.IndexExpr); ok {
						if id, ok := ix.X.(*ast.Ident); ok {
							if l, ok := t.lookup(id.Name); ok && t.types[l] == tRules {
								i, _ := t.expr(ix.Index, tInt)
								v, tv := t.expr(x.Rhs[0], ty(f[1]))
								if tv != ty(f[1]) {
									fail("field assignment type")
								}
								t.emit(ind, fmt.Sprintf("%s := Go.setRuleAt %s %s (fun r => { r with %s := %s })", l, l, i, f[0], v))
								return
							}
						}
					}
				}
			}
		}
		switch x.Tok {
		case token.DEFINE:
			t.assignNew(ind, x.Lhs, x.Rhs, true)
		case token.ASSIGN:
			t.assignNew(ind, x.Lhs, x.Rhs, false)
		case token.ADD_ASSIGN:
			if len(x.Lhs) != 1 {
				fail("+= shape")
			}
			id, ok := x.Lhs[0].(*ast.Ident)
			if !ok {
				fail("+= target")
			}
			l, ok := t.lookup(id.Name)
			if !ok {
				fail("+= to unknown %s", id.Name)
			}
			r, tr := t.expr(x.Rhs[0], t.types[l])
			if tr != t.types[l] {
				fail("+= of %s to %s", tr, t.types[l])
			}
			if tr == tStr {
				t.emit(ind, fmt.Sprintf("%s := %s ++ %s", l, l, r))
			} else {
				t.emit(ind, fmt.Sprintf("%s := %s + %s", l, l, r))
			}
		default:
			fail("assignment operator %s", x.Tok)
		}
	case *ast.DeclStmt:
		gd, ok := x.Decl.(*ast.GenDecl)
		if !ok || gd.Tok != token.VAR {
			fail("declaration")
		}
		for _, sp := range gd.Specs {
			vs := sp.(*ast.ValueSpec)
			for i, nm := range vs.Names {
				var typ ty
				var val string
				if vs.Type != nil {
					typ = typeOf(vs.Type)
				}
				if i < len(vs.Values) {
					var tv ty
					val, tv = t.expr(vs.Values[i], typ)
					if typ == "" {
						typ = tv
					}
				} else {
					val = zero(typ)
				}
				l := t.declare(nm.Name, typ)
				t.emit(ind, fmt.Sprintf("let mut %s : %s := %s", l, typ, val))
			}
		}
	case *ast.IfStmt:
		// the init statement's variables are scoped to the if statement
		t.push()
		if x.Init != nil {
			t.stmt(ind, x.Init)
		}
		c, _ := t.expr(x.Cond, tBool)
		t.emit(ind, "if "+c+" then")
		t.block(ind+1, x.Body.List)
		if x.Else != nil {
			t.emit(ind, "else")
			switch e := x.Else.(type) {
			case *ast.BlockStmt:
				t.block(ind+1, e.List)
			case *ast.IfStmt:
				t.push()
				t.stmt(ind+1, e)
				t.pop()
			}
		}
		t.pop()
	case *ast.ReturnStmt:
		if len(x.Results) != len(t.res) {
			fail("return count")
		}
		var parts []string
		for i, r := range x.Results {
			s, tr := t.expr(r, t.res[i])
			if tr != t.res[i] {
				fail("return value %d has type %s, want %s", i, tr, t.res[i])
			}
			parts = append(parts, s)
		}
		if len(parts) == 1 {
			t.emit(ind, "return "+parts[0])
		} else {
			t.emit(ind, "return ("+strings.Join(parts, ", ")+")")
		}
	case *ast.RangeStmt:
		if x.Tok != token.DEFINE {
			fail("range without :=")
		}
		xs, txs := t.expr(x.X, "")
		if txs != tStrs && txs != tRules {
			fail("range over %s", txs)
		}
		elem := tStr
		if txs == tRules {
			elem = tRule
		}
		if x.Key != nil {
			if id, ok := x.Key.(*ast.Ident); !ok || id.Name != "_" {
				fail("range key")
			}
		}
		t.push()
		if id, ok := x.Value.(*ast.Ident); ok && id.Name != "_" {
			v := t.declare(id.Name, elem)
			t.emit(ind, fmt.Sprintf("for %s₀ in %s do", v, xs))
			t.emit(ind+1, fmt.Sprintf("let mut %s : %s := %s₀", v, elem, v))
		} else {
			t.emit(ind, fmt.Sprintf("for _ in %s do", xs))
		}
		t.block(ind+1, x.Body.List)
		t.pop()
	case *ast.ForStmt:
		// for scanner.Scan() { ... }
		if x.Init == nil && x.Post == nil && t.scanner != "" {
			if c, ok := x.Cond.(*ast.CallExpr); ok && callName(c.Fun) == t.scanner+".Scan" {
				if t.lineVar != "" {
					fail("nested scanning loop")
				}
				t.push()
				t.used["line"]++
				lv := fmt.Sprintf("line_%d", t.used["line"])
				t.emit(ind, fmt.Sprintf("for %s in lines do", lv))
				t.lineVar = lv
				t.block(ind+1, x.Body.List)
				t.lineVar = ""
				t.pop()
				return
			}
		}
		// for i := E; i >= 0; i-- { ... }  with i not assigned in the body
		if init, ok := x.Init.(*ast.AssignStmt); ok && init.Tok == token.DEFINE && len(init.Lhs) == 1 && len(init.Rhs) == 1 {
			if cond, ok := x.Cond.(*ast.BinaryExpr); ok && cond.Op == token.GEQ {
				if post, ok := x.Post.(*ast.IncDecStmt); ok && post.Tok == token.DEC {
					iv, ok := init.Lhs[0].(*ast.Ident)
					lit, ok2 := cond.Y.(*ast.BasicLit)
					if ok && ok2 && lit.Value == "0" && exprText(cond.X) == iv.Name && exprText(post.X) == iv.Name {
						assigned := false
						ast.Inspect(x.Body, func(n ast.Node) bool {
							switch a := n.(type) {
							case *ast.AssignStmt:
								for _, l := range a.Lhs {
									if exprText(l) == iv.Name {
										assigned = true
									}
								}
							case *ast.IncDecStmt:
								if exprText(a.X) == iv.Name {
									assigned = true
								}
							}
							return true
						})
						if assigned {
							fail("loop variable assigned in the body")
						}
						t.push()
						start, ts := t.expr(init.Rhs[0], tInt)
						if ts != tInt {
							fail("loop start of type %s", ts)
						}
						v := t.declare(iv.Name, tInt)
						t.emit(ind, fmt.Sprintf("for %s in Go.rangeDown %s do", v, start))
						t.block(ind+1, x.Body.List)
						t.pop()
						return
					}
				}
			}
		}
		// for i := 0; i < N; i++ { ... }  with i not assigned in the body
		init, ok1 := x.Init.(*ast.AssignStmt)
		cond, ok2 := x.Cond.(*ast.BinaryExpr)
		post, ok3 := x.Post.(*ast.IncDecStmt)
		if !ok1 || !ok2 || !ok3 || init.Tok != token.DEFINE || len(init.Lhs) != 1 || len(init.Rhs) != 1 || cond.Op != token.LSS || post.Tok != token.INC {
			fail("for statement shape")
		}
		iv, ok := init.Lhs[0].(*ast.Ident)
		if !ok || exprText(cond.X) != iv.Name || exprText(post.X) != iv.Name {
			fail("for statement variable")
		}
		if lit, ok := init.Rhs[0].(*ast.BasicLit); !ok || lit.Value != "0" {
			fail("for statement start")
		}
		assigned := false
		ast.Inspect(x.Body, func(n ast.Node) bool {
			switch a := n.(type) {
			case *ast.AssignStmt:
				for _, l := range a.Lhs {
					if exprText(l) == iv.Name {
						assigned = true
					}
				}
			case *ast.IncDecStmt:
				if exprText(a.X) == iv.Name {
					assigned = true
				}
			}
			return true
		})
		if assigned {
			fail("loop variable assigned in the body")
		}
		t.push()
		bound, tb := t.expr(cond.Y, tInt)
		if tb != tInt {
			fail("loop bound of type %s", tb)
		}
		v := t.declare(iv.Name, tInt)
		t.emit(ind, fmt.Sprintf("for %s in Go.range0 %s do", v, bound))
		t.block(ind+1, x.Body.List)
		t.pop()
	case *ast.BranchStmt:
		switch x.Tok {
		case token.CONTINUE:
			t.emit(ind, "continue")
		case token.BREAK:
			t.emit(ind, "break")
		default:
			fail("branch %s", x.Tok)
		}
	case *ast.BlockStmt:
		t.emit(ind, "do")
		t.block(ind+1, x.List)
	default:
		fail("statement %T", s)
	}
}

func findFunc(f *ast.File, recv, name string) *ast.FuncDecl {
	for _, d := range f.Decls {
		fd, ok := d.(*ast.FuncDecl)
		if !ok || fd.Name.Name != name {
			continue
		}
		if recv == "" && fd.Recv == nil {
			return fd
		}
		if recv != "" && fd.Recv != nil && len(fd.Recv.List) == 1 {
			rt := fd.Recv.List[0].Type
			if st, ok := rt.(*ast.StarExpr); ok {
				rt = st.X
			}
			if id, ok := rt.(*ast.Ident); ok && id.Name == recv {
				return fd
			}
		}
	}
	return nil
}

func signature(fd *ast.FuncDecl) (names []string, args []ty, res []ty) {
	// a value receiver of a modelled struct type is the first parameter
	if fd.Recv != nil && len(fd.Recv.List) == 1 && len(fd.Recv.List[0].Names) == 1 {
		if id, ok := fd.Recv.List[0].Type.(*ast.Ident); ok && id.Name == "UnpackInfo" {
			names = append(names, fd.Recv.List[0].Names[0].Name)
			args = append(args, tInfo)
		}
		if id, ok := fd.Recv.List[0].Type.(*ast.Ident); ok && (id.Name == "RemoteSource" || id.Name == "RegistrySource") {
			names = append(names, fd.Recv.List[0].Names[0].Name)
			args = append(args, tSrc)
		}
	}
	for _, p := range fd.Type.Params.List {
		// a pointer-to-struct parameter is passed as the fields the code reads
		if len(p.Names) == 1 {
			if fields, ok := structParams[p.Names[0].Name]; ok {
				keys := make([]string, 0, len(fields))
				for k := range fields {
					keys = append(keys, k)
				}
				sort.Strings(keys)
				for _, k := range keys {
					names = append(names, "\x00"+fields[k][0]) // marked: not a Go variable
					args = append(args, ty(fields[k][1]))
				}
				continue
			}
		}
		if exprText(p.Type) == "io.Reader" {
			continue // the reader is read through a bufio.Scanner only: passed as the list of its lines
		}
		pt := typeOf(p.Type)
		for _, n := range p.Names {
			names = append(names, n.Name)
			args = append(args, pt)
		}
	}
	if fd.Type.Results != nil {
		for _, r := range fd.Type.Results.List {
			rt := typeOf(r.Type)
			if len(r.Names) > 0 {
				fail("named results")
			}
			res = append(res, rt)
		}
	}
	if len(res) == 0 {
		fail("no results")
	}
	return
}

func translate(fset *token.FileSet, fd *ast.FuncDecl, tg target, sigs map[string]sig) (text string, err error) {
	defer func() {
		if r := recover(); r != nil {
			if u, ok := r.(untranslatable); ok {
				err = fmt.Errorf("%s", u.why)
				return
			}
			panic(r)
		}
	}()
	names, args, res := signature(fd)
	t := &tr{fset: fset, sigs: sigs, types: map[string]ty{}, used: map[string]int{}, res: res, extra: tg.extra}
	if fd.Recv != nil && len(fd.Recv.List) == 1 && len(fd.Recv.List[0].Names) == 1 {
		t.recvName = fd.Recv.List[0].Names[0].Name
		rt := fd.Recv.List[0].Type
		if st, ok := rt.(*ast.StarExpr); ok {
			rt = st.X
		}
		if id, ok := rt.(*ast.Ident); ok {
			t.recvType = id.Name
		}
	}
	t.push()
	var params []string
	for _, e := range tg.extra {
		t.used[e]++
		params = append(params, fmt.Sprintf("(%s : %s)", e, extraTypes[e]))
	}
	for i, n := range names {
		if strings.HasPrefix(n, "\x00") {
			// a field of a struct parameter: a plain (immutable) Lean parameter
			params = append(params, fmt.Sprintf("(%s : %s)", n[1:], args[i]))
			continue
		}
		if (args[i] == tInfo || args[i] == tSrc) && n == t.recvName {
			t.scopes[len(t.scopes)-1][n] = n
			t.types[n] = args[i]
			t.used[n]++
			params = append(params, fmt.Sprintf("(%s : %s)", n, args[i]))
			continue
		}
		l := t.declare(n, args[i])
		params = append(params, fmt.Sprintf("(%s₀ : %s)", l, args[i]))
	}
	rt := string(res[0])
	if len(res) > 1 {
		var rs []string
		for _, r := range res {
			if strings.Contains(string(r), "×") {
				rs = append(rs, "("+string(r)+")")
			} else {
				rs = append(rs, string(r))
			}
		}
		rt = strings.Join(rs, " × ")
	}
	t.emit(0, fmt.Sprintf("def %s %s : %s := Id.run do", tg.lean, strings.Join(params, " "), rt))
	for i, n := range names {
		if strings.HasPrefix(n, "\x00") || ((args[i] == tInfo || args[i] == tSrc) && n == t.recvName) {
			continue
		}
		l, _ := t.lookup(n)
		t.emit(1, fmt.Sprintf("let mut %s : %s := %s₀", l, args[i], l))
	}
	t.push()
	for _, s := range fd.Body.List {
		t.stmt(1, s)
	}
	return strings.Join(t.out, "\n"), nil
}

func main() {
	repo := flag.String("repo", "/repo", "repository")
	out := flag.String("out", "", "output directory (lean/SlugModel/Generated): one file Tr_<name>.lean per function and Trans.lean importing them")
	flag.Parse()
	fset := token.NewFileSet()
	files := map[string]*ast.File{}
	sigs := map[string]sig{}
	// first pass: signatures, so that translated functions can call each other
	for _, tg := range targets {
		p := filepath.Join(*repo, tg.file)
		f, ok := files[p]
		if !ok {
			var err error
			f, err = parser.ParseFile(fset, p, nil, 0)
			if err != nil {
				f = nil
			}
			files[p] = f
		}
		if f == nil {
			continue
		}
		if fd := findFunc(f, tg.recv, tg.name); fd != nil {
			func() {
				defer func() { recover() }()
				_, args, res := signature(fd)
				sigs[tg.name] = sig{"Gen." + tg.lean, args, res, tg.extra}
			}()
		}
	}
	write := func(name, content string) {
		if *out == "" {
			fmt.Print(content)
			return
		}
		p := filepath.Join(*out, name)
		if old, err := os.ReadFile(p); err == nil && string(old) == content {
			return
		}
		if err := os.WriteFile(p, []byte(content), 0644); err != nil {
			fmt.Fprintln(os.Stderr, err)
			os.Exit(1)
		}
	}
	status := map[string]string{}
	var mods []string
	for _, tg := range targets {
		var b strings.Builder
		b.WriteString("import SlugModel.GoLib\n")
		f := files[filepath.Join(*repo, tg.file)]
		var fd *ast.FuncDecl
		if f != nil {
			fd = findFunc(f, tg.recv, tg.name)
		}
		var text string
		var err error
		if fd == nil {
			err = fmt.Errorf("not found in %s", tg.file)
		} else {
			text, err = translate(fset, fd, tg, sigs)
		}
		// one file per function, importing the files of the translated functions it calls, so that a
		// function that leaves the supported subset breaks only the obligations that depend on it
		if err == nil {
			for _, other := range targets {
				if other.lean != tg.lean && strings.Contains(text, "Gen."+other.lean+" ") {
					b.WriteString("import SlugModel.Generated.Tr_" + other.lean + "\n")
				}
			}
		}
		b.WriteString(fmt.Sprintf("/-! GENERATED by harness/cmd/go2lean from /repo/%s — do not edit.\nTranslation of the Go function `%s` (see the translator for the supported subset and the reading of\ntypes).  Lemmas/TrEq_%s.lean proves the hand-written model function equal to it. -/\n", tg.file, tg.name, tg.lean))
		b.WriteString("set_option linter.unusedVariables false\nnamespace Slug.Gen\nopen Slug\n\n")
		if err != nil {
			status[tg.lean] = "untranslatable: " + err.Error()
			b.WriteString(fmt.Sprintf("-- %s (%s): untranslatable: %s\n\n", tg.name, tg.file, err.Error()))
		} else {
			status[tg.lean] = "ok"
			b.WriteString(fmt.Sprintf("/-- `%s` of %s -/\n%s\n\n", tg.name, tg.file, text))
		}
		b.WriteString("end Slug.Gen\n")
		write("Tr_"+tg.lean+".lean", b.String())
		mods = append(mods, "SlugModel.Generated.Tr_"+tg.lean)
	}
	var b strings.Builder
	for _, m := range mods {
		b.WriteString("import " + m + "\n")
	}
	b.WriteString("/-! GENERATED by harness/cmd/go2lean from /repo — do not edit.\nAll translated functions, and which of them the translator could translate on this run. -/\nnamespace Slug.Gen\n\n")
	keys := make([]string, 0, len(status))
	for k := range status {
		keys = append(keys, k)
	}
	sort.Strings(keys)
	b.WriteString("def translated : List (String × String) := [")
	for i, k := range keys {
		if i > 0 {
			b.WriteString(", ")
		}
		b.WriteString(fmt.Sprintf("(%q, %q)", k, status[k]))
	}
	b.WriteString("]\n\nend Slug.Gen\n")
	write("Trans.lean", b.String())
}
