package main

import (
	"fmt"
	"strings"
	"unicode/utf8"

	"github.com/apparentlymart/go-versions/versions"
	"github.com/hashicorp/go-slug/sourceaddrs"
	regaddr "github.com/hashicorp/terraform-registry-address"
)

// registry lane (C06, C19): ParseRegistrySource, ParseFinalRegistrySource and the dispatch of
// ParseSource / ParseFinalSource against the Lean model (Registry.lean).  The external parsers
// (regaddr.ParseModuleSource, versions.ParseVersion) are the model's oracle: phase 1 asks the
// model which strings it needs answers for, phase 2 supplies the real libraries' answers.

var rgHosts = []string{"", "", "example.com/", "registry.terraform.io/", "EXAMPLE.com/", "ex ample.com/", "テスト.example.com/"}
var rgParts = []string{"ns", "hashicorp", "m0", "aws", "a-b", "a_b", "A", "é", "a.b", "", "a b", "-x"}
var rgSubs = []string{"", "", "", "//sub", "//a/b", "//a/../b", "//.", "//a//b", "// a", "//a ", "//a@b", "//a\nb", "//a?b", "//a#b", "//%2e%2e", "//", "//é"}
// the first six are accepted by every parser; two of them carry upper-case letters in the pre-release / build
// identifiers, which are case sensitive (seed C17-h: the version text lower-cased on the way in)
var rgVers = []string{"1.0.0", "1.2.3", "2.1.0-beta1", "1.2.3+build.7", "1.0.0-RC1", "2.0.0-Beta.2+Build.7", "1.0", "v1.0.0", "V1.0.0", "1.0.0-rc1", "", "x", "1.0.0 ", "1/0", "1.0.0@2"}
var rgWhole = []string{"./a", "../b", ".", "..", "", " ", "git::https://example.com/foo.git", "https://example.com/x.tgz//m", "github.com/org/repo",
	"foo/bar/baz", "foo/bar/baz@1.0.0", "foo/bar/baz@1.0.0//m", "foo/bar/baz@1.0.0-RC1", "example.com/foo/bar/baz@2.0.0-Beta.2+Build.7//m", "foo/bar/baz//m@1.0.0", "a@b@1.0.0", "foo/bar/baz@", "@1.0.0", "foo/bar/baz@1.0.0//", "foo/bar/baz@1.0.0//a@2.0.0//b",
	"example.com/foo/bar/baz//m?x=y", "foo/bar/baz?ref=1", "foo/bar/baz@1.0.0?x", "foo/bar\n/baz@1.0.0", "foo/bar/baz@1.0.0//a\nb", "foo/bar/baz@1.0.0\n", "foo/bar/baz ", " foo/bar/baz"}

func genRegString(r *Rng) string {
	if r.Chance(18) {
		return r.Pick(rgWhole)
	}
	// mostly-valid stream: 70% of the strings are built from parts every parser accepts
	valid := r.Chance(70)
	pick := func(all []string, good int) string {
		if valid {
			return all[r.Intn(good)]
		}
		return r.Pick(all)
	}
	s := pick(rgHosts, 5) + pick(rgParts, 6) + "/" + pick(rgParts, 6) + "/" + pick(rgParts, 6)
	if !valid && r.Chance(10) {
		s += "/" + r.Pick(rgParts)
	}
	final := r.Chance(50)
	if final {
		s += "@" + pick(rgVers, 6)
	}
	if valid {
		s += r.Pick([]string{"", "", "//sub", "//a/b", "//é", "//modules/vpc", "//a@b", "//a b", "//x y/z"})
	} else {
		s += r.Pick(rgSubs)
	}
	if r.Chance(6) {
		s += r.Pick([]string{"?ref=x", "@1.0.0", " ", "\n"})
	}
	if r.Chance(8) && len(s) > 0 {
		// one character mutation
		rs := []rune(s)
		i := r.Intn(len(rs))
		rs[i] = []rune{'@', '/', '?', ' ', '\n', ':', '.', 'x'}[r.Intn(8)]
		s = string(rs)
	}
	return s
}

func regParseAnswer(q string) string {
	defer func() { recover() }()
	m, err := regaddr.ParseModuleSource(q)
	if err != nil {
		return X(q) + "=-"
	}
	return X(q) + "=" + X(m.Package.String()) + ":" + X(m.Subdir)
}

func verParseAnswer(v string) string {
	pv, err := versions.ParseVersion(v)
	if err != nil {
		return "-"
	}
	return X(pv.String())
}

func classifyDispatch(src interface{}, err error) string {
	if err == nil {
		switch src.(type) {
		case sourceaddrs.LocalSource:
			return "local"
		case sourceaddrs.RegistrySource, sourceaddrs.RegistrySourceFinal:
			return "registry"
		case sourceaddrs.RemoteSource:
			return "remote"
		}
		return "unknown"
	}
	msg := err.Error()
	switch {
	case strings.HasPrefix(msg, "source address must not have leading or trailing spaces"), strings.HasPrefix(msg, "a valid source address is required"):
		return "reject"
	case strings.HasPrefix(msg, "invalid local source address"):
		return "local"
	case strings.HasPrefix(msg, "invalid module registry source address"):
		return "registry"
	case strings.HasPrefix(msg, "invalid remote source address"):
		return "remote"
	}
	return "unknown:" + msg
}

func init() {
	lanes["registry"] = func(cfg *Config, rep *Report) {
		rep.Rule = "strings from a registry-address grammar (optional host incl. upper case / space / non-ASCII x three or four name parts incl. empty, spaces, non-ASCII x optional '@version' over 15 version texts (incl. pre-release / build identifiers with upper-case letters; the version text of an accepted final address must come back byte for byte) x 17 sub-path shapes incl. '@', newline, white space at the edges, '?', escapes) + 28 whole-string shapes (local, remote, shorthand, several '@', '//' after the version twice) + 8% one-character mutations; non-trivial = contains '@' or '//'; distinct by string"
		r := NewRng(cfg.Seed)
		seen := map[string]bool{}
		var inputs []string
		// exact replay (-case): the recorded string (a bare string or {"input": ...}) goes first
		hasReplay := false
		want := cfg.N
		{
			var rs string
			var rin struct {
				Input *string `json:"input"`
			}
			ok := loadReplayInput(cfg, "registry", &rs)
			if !ok && loadReplayInput(cfg, "registry", &rin) && rin.Input != nil {
				rs, ok = *rin.Input, true
			}
			if ok && utf8.ValidString(rs) {
				hasReplay = true
				seen[rs] = true
				inputs = append(inputs, rs)
				want++
			} else {
				replayMissing(cfg, rep, "registry")
			}
		}
		for _, w := range rgWhole {
			if !seen[w] {
				seen[w] = true
				inputs = append(inputs, w)
			}
		}
		for len(inputs) < want {
			s := genRegString(r)
			if seen[s] || !utf8.ValidString(s) {
				if len(seen) > 200000 {
					break
				}
				seen[s] = true
				continue
			}
			seen[s] = true
			inputs = append(inputs, s)
		}
		// phase 1
		var ask []string
		for _, s := range inputs {
			ask = append(ask, "reg ask "+X(s))
		}
		qs, err := RunDriver(cfg.Driver, ask)
		if err != nil || len(qs) != len(inputs) {
			rep.Broken = append(rep.Broken, fmt.Sprintf("driver (ask): %v", err))
			return
		}
		var reqs, impl []string
		var human []interface{}
		for i, s := range inputs {
			if i == 0 && hasReplay {
				rep.BeginReplay()
			}
			if i == 1 && hasReplay {
				rep.EndReplay(reqs...)
			}
			parts := strings.Split(qs[i], " ")
			if len(parts) != 2 {
				rep.Broken = append(rep.Broken, "driver (ask) answered "+qs[i])
				return
			}
			var tab []string
			done := map[string]bool{}
			for _, qx := range strings.Split(parts[0], ",") {
				q, ok := UnX(qx)
				if !ok || done[q] {
					continue
				}
				done[q] = true
				tab = append(tab, regParseAnswer(q))
			}
			vq, _ := UnX(parts[1])
			reqs = append(reqs, "reg eval "+X(s)+" "+strings.Join(tab, ",")+" "+verParseAnswer(vq))
			// implementation
			var out []string
			func() {
				defer func() {
					if x := recover(); x != nil {
						out = append(out, "panic")
						rep.AddOracle(OracleFailure{Property: "C19", Lane: "registry", What: fmt.Sprintf("ParseRegistrySource panics: %v", x), Input: s})
					}
				}()
				rs, err := sourceaddrs.ParseRegistrySource(s)
				if err != nil {
					out = append(out, "err")
				} else {
					out = append(out, "ok:"+X(rs.Package().String())+":"+X(rs.SubPath()))
				}
			}()
			func() {
				defer func() {
					if x := recover(); x != nil {
						out = append(out, "panic")
						rep.AddOracle(OracleFailure{Property: "C19", Lane: "registry", What: fmt.Sprintf("ParseFinalRegistrySource panics: %v", x), Input: s})
					}
				}()
				rf, err := sourceaddrs.ParseFinalRegistrySource(s)
				if err != nil {
					out = append(out, "err")
				} else {
					out = append(out, "ok:"+X(rf.Package().String())+":"+X(rf.SelectedVersion().String())+":"+X(rf.SubPath()))
					// the version text of a parsed final registry address round-trips byte for byte (C06; seed C17-h)
					rep.Count("final:version-text-checked")
					checkFinalVersionText(rep, "registry", "ParseFinalRegistrySource", s, rf, map[string]string{"input": s})
				}
			}()
			func() {
				defer func() {
					if x := recover(); x != nil {
						out = append(out, "panic")
					}
				}()
				src, err := sourceaddrs.ParseSource(s)
				out = append(out, classifyDispatch(src, err))
			}()
			func() {
				defer func() {
					if x := recover(); x != nil {
						out = append(out, "panic")
					}
				}()
				src, err := sourceaddrs.ParseFinalSource(s)
				out = append(out, classifyDispatch(src, err))
			}()
			impl = append(impl, strings.Join(out, " "))
			human = append(human, map[string]string{"input": s})
			rep.Case("reg "+s, strings.Contains(s, "@") || strings.Contains(s, "//"), map[string]string{"input": s, "result": strings.Join(out, " ")})
			rep.Count("parse:" + strings.SplitN(out[0], ":", 2)[0])
			rep.Count("final:" + strings.SplitN(out[1], ":", 2)[0])
			rep.Count("dispatch:" + out[2])
		}
		if hasReplay && len(inputs) == 1 {
			rep.EndReplay(reqs...)
		}
		rep.Compare(cfg.Driver, reqs, impl, human)
	}
}
