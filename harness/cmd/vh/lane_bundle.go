package main

import (
	"encoding/json"
	"fmt"
	"os"
	"path/filepath"
	"strings"
	"sync"

	"github.com/apparentlymart/go-versions/versions"
	"github.com/hashicorp/go-slug/sourceaddrs"
	"github.com/hashicorp/go-slug/sourcebundle"
)

// bundle lane (C18, C19): OpenDir on harness-written manifests (generated field-wise and mutated
// from valid ones) and all path lookups, against the Lean model (Bundle.lean; the external
// parsers are supplied as oracle tables) and the containment / inversion oracle.

type jDep struct {
	Version string
	Reason  string
	Link    string
}
type jVer struct {
	Source      string `json:"source"`
	Deprecation *jDep  `json:"deprecation"`
}
type jReg struct {
	Source   string          `json:"source"`
	Versions map[string]jVer `json:"versions,omitempty"`
}
type jMeta struct {
	Commit string `json:"git_commit_id,omitempty"`
	Msg    string `json:"git_commit_message,omitempty"`
}
type jPkg struct {
	Source string `json:"source"`
	Local  string `json:"local"`
	Meta   jMeta  `json:"meta,omitempty"`
}
type jManifest struct {
	Format   uint64 `json:"terraform_source_bundle"`
	Packages []jPkg `json:"packages,omitempty"`
	Registry []jReg `json:"registry,omitempty"`
}

var mDirNames = []string{"aGFzaDE", "aGFzaDI", "dir3", "dir30", "..", ".", "", "a/b", "a\\b", "/abs", "a/..", "./a", "..x", "x..", "é", "a b", "aGFzaDE/", "-"}
var mPkgAddrs = []string{"git::https://example.com/p0.git", "git::https://example.com/p1.git", "https://example.com/a2.tar.gz", "git::https://example.com/p0.git?ref=v1",
	"git::https://example.com/p0.git//sub", "http://example.com/x.tgz", "not an address", "", "git::https://EXAMPLE.com/p0.git", "github.com/org/repo"}
var mRegAddrs = []string{"example.com/ns/m0/aws", "ns/m1/aws", "example.com/ns/m0/aws//sub", "bad", ""}
var mVers = []string{"1.0.0", "2.1.0-beta1", "1.2.3", "x", "", "v1.0.0", "1.0"}
var mSrcAddrs = []string{"git::https://example.com/p0.git", "git::https://example.com/p1.git//m", "https://example.com/a2.tar.gz//m/n", "nope", "git::https://example.com/zz.git",
	// percent-escaped dot segments are literal sub-path characters: the lookup stays inside the package (seed C18-d)
	"git::https://example.com/p0.git//%2e%2e/%2e%2e", "git::https://example.com/p1.git//m/%2E%2E/%2e%2e/%2e%2e/x"}

// real-source addresses whose sub-path is a single segment: the boundary of the sub-path definition (".." and
// "." are refused, "..." and "a" are names). One ".." from the manifest and one from the lookup address would
// join to "../..", the parent of the bundle root (seed C18-g)
var mSingleSegSrc = []string{"git::https://example.com/p0.git//..", "git::https://example.com/p1.git//..", "https://example.com/a2.tar.gz//..", "git::https://example.com/p0.git//.",
	"git::https://example.com/p0.git//...", "git::https://example.com/p1.git//a", "https://example.com/a2.tar.gz//a", "git::https://example.com/p0.git//..?ref=v1"}

// single-segment sub-paths of the registry address a lookup is made with
var mSingleSegSubs = []string{"..", ".", "...", "a"}

// bundleCorpus: fixed manifests that run with every seed, after the generated ones
func bundleCorpus() []*jManifest {
	var out []*jManifest
	pk := []jPkg{{Source: mPkgAddrs[0], Local: mDirNames[0]}, {Source: mPkgAddrs[1], Local: mDirNames[1]}, {Source: mPkgAddrs[2], Local: mDirNames[2]}}
	for _, src := range mSingleSegSrc {
		out = append(out, &jManifest{Format: 1, Packages: pk, Registry: []jReg{{Source: mRegAddrs[1], Versions: map[string]jVer{"1.0.0": {Source: src}, "1.2.3": {Source: mSrcAddrs[1]}}}}})
	}
	return out
}

// relative paths for derived lookup addresses: 0..8 leading "../", then nothing, one name (even depths)
// or two names (depths 1 and 8)
type derivRel struct {
	rel string
	loc sourceaddrs.LocalSource
}

var bundleDerivRels = func() []derivRel {
	var out []derivRel
	for ups := 0; ups <= 8; ups++ {
		tails := [][]string{nil}
		if ups%2 == 0 {
			tails = append(tails, []string{"x"})
		}
		if ups == 1 || ups == 8 {
			tails = append(tails, []string{"m", "n"})
		}
		for _, tail := range tails {
			rel := canonicalRel(ups, tail)
			loc, err := sourceaddrs.ParseLocalSource(rel)
			if err != nil {
				panic("harness: relative path " + rel + ": " + err.Error())
			}
			out = append(out, derivRel{rel, loc})
		}
	}
	return out
}()

func genManifest(r *Rng) *jManifest {
	m := &jManifest{Format: 1}
	if r.Chance(8) {
		m.Format = uint64(r.Intn(3))
	}
	valid := r.Chance(55) // mostly-valid stream
	np := r.Intn(4)
	for i := 0; i < np; i++ {
		p := jPkg{Source: mPkgAddrs[r.Intn(4)], Local: mDirNames[r.Intn(4)]}
		if !valid || r.Chance(10) {
			if r.Chance(50) {
				p.Source = r.Pick(mPkgAddrs)
			}
			if r.Chance(60) {
				p.Local = r.Pick(mDirNames)
			}
		}
		if r.Chance(40) {
			p.Meta = jMeta{Commit: r.Pick([]string{"abc123", ""}), Msg: r.Pick([]string{"msg", ""})}
		}
		m.Packages = append(m.Packages, p)
	}
	nr := r.Intn(3)
	for i := 0; i < nr; i++ {
		reg := jReg{Source: mRegAddrs[r.Intn(2)], Versions: map[string]jVer{}}
		if !valid && r.Chance(40) {
			reg.Source = r.Pick(mRegAddrs)
		}
		nv := r.Intn(3)
		for k := 0; k < nv; k++ {
			v := mVers[r.Intn(3)]
			if !valid && r.Chance(40) {
				v = r.Pick(mVers)
			}
			jv := jVer{Source: mSrcAddrs[r.Intn(3)]}
			if !valid && r.Chance(30) {
				jv.Source = r.Pick(mSrcAddrs)
			}
			if r.Chance(7) {
				jv.Source = r.Pick(mSingleSegSrc)
			}
			if r.Chance(30) {
				jv.Deprecation = &jDep{Version: v, Reason: "old", Link: "https://example.com/why"}
			}
			// avoid two spellings of one version in one map (Go map iteration order would decide)
			dup := false
			if pv, err := versions.ParseVersion(v); err == nil {
				for o := range reg.Versions {
					if po, err := versions.ParseVersion(o); err == nil && po.Same(pv) {
						dup = true
					}
				}
			}
			if !dup {
				reg.Versions[v] = jv
			}
		}
		m.Registry = append(m.Registry, reg)
	}
	return m
}

func encManifest(m *jManifest) (string, string) {
	var ps, rs, orc []string
	seen := map[string]bool{}
	addO := func(s string) {
		if !seen[s] {
			seen[s] = true
			orc = append(orc, s)
		}
	}
	for _, p := range m.Packages {
		ps = append(ps, fmt.Sprintf("%s~%s~%s~%s", X(p.Source), X(p.Local), X(p.Meta.Commit), X(p.Meta.Msg)))
		if k, err := sourceaddrs.ParseRemotePackage(p.Source); err != nil {
			addO("p~" + X(p.Source) + "~ERR")
		} else {
			addO("p~" + X(p.Source) + "~" + X(k.String()))
		}
	}
	for _, rg := range m.Registry {
		var vs []string
		// canonical order of the JSON object: encoding/json sorts map keys
		var keys []string
		for k := range rg.Versions {
			keys = append(keys, k)
		}
		sortStrings(keys)
		for _, k := range keys {
			v := rg.Versions[k]
			dep, reason, link := "0", "", ""
			if v.Deprecation != nil {
				dep, reason, link = "1", v.Deprecation.Reason, v.Deprecation.Link
			}
			vs = append(vs, fmt.Sprintf("%s:%s:%s:%s:%s", X(k), X(v.Source), dep, X(reason), X(link)))
			if pv, err := versions.ParseVersion(k); err != nil {
				addO("v~" + X(k) + "~ERR")
			} else {
				addO("v~" + X(k) + "~" + X(pv.String()))
			}
			if s, err := sourceaddrs.ParseRemoteSource(v.Source); err != nil {
				addO("s~" + X(v.Source) + "~ERR")
			} else {
				addO("s~" + X(v.Source) + "~" + X(s.Package().String()) + "~" + X(s.SubPath()))
			}
		}
		vv := "-"
		if len(vs) > 0 {
			vv = strings.Join(vs, "/")
		}
		rs = append(rs, X(rg.Source)+"~"+vv)
		if k, err := sourceaddrs.ParseRegistryPackage(rg.Source); err != nil {
			addO("g~" + X(rg.Source) + "~ERR")
		} else {
			addO("g~" + X(rg.Source) + "~" + X(k.String()))
		}
	}
	j := func(xs []string) string {
		if len(xs) == 0 {
			return "-"
		}
		return strings.Join(xs, ",")
	}
	return fmt.Sprintf("%d;%s;%s", m.Format, j(ps), j(rs)), j(orc)
}

// bundleLookupTable: the answers of every forward lookup and of the reverse lookup of every package
// directory, rendered relative to root (the directory name the bundle was opened with), in a fixed order
func bundleLookupTable(b *sourcebundle.Bundle, root string) []string {
	var out []string
	rel := func(lp string, err error) string {
		if err != nil {
			return "error"
		}
		r, rerr := filepath.Rel(root, lp)
		if rerr != nil {
			return "unrelated:" + lp
		}
		return r
	}
	var pkgs []string
	byName := map[string]sourceaddrs.RemotePackage{}
	for _, p := range b.RemotePackages() {
		pkgs = append(pkgs, p.String())
		byName[p.String()] = p
	}
	sortStrings(pkgs)
	for _, name := range pkgs {
		p := byName[name]
		for _, sub := range []string{"", "m", "m/n"} {
			lp, err := b.LocalPathForRemoteSource(p.SourceAddr(sub))
			out = append(out, fmt.Sprintf("LocalPathForRemoteSource(%s) = %s", p.SourceAddr(sub), rel(lp, err)))
			if err == nil {
				src, rerr := b.SourceForLocalPath(filepath.Join(root, rel(lp, nil)))
				if rerr != nil {
					out = append(out, fmt.Sprintf("SourceForLocalPath(<root>/%s) = error", rel(lp, nil)))
				} else {
					out = append(out, fmt.Sprintf("SourceForLocalPath(<root>/%s) = %s", rel(lp, nil), src))
				}
			}
		}
	}
	var regs []string
	for _, rp := range b.RegistryPackages() {
		regs = append(regs, rp.String())
	}
	sortStrings(regs)
	for _, name := range regs {
		for _, sub := range []string{"", "k"} {
			regStr := name
			if sub != "" {
				regStr += "//" + sub
			}
			rs, err := sourceaddrs.ParseRegistrySource(regStr)
			if err != nil {
				continue
			}
			var vs []string
			for _, v := range b.RegistryPackageVersions(rs.Package()) {
				vs = append(vs, v.String())
			}
			sortStrings(vs)
			for _, vstr := range vs {
				v, _ := versions.ParseVersion(vstr)
				lp, err := b.LocalPathForRegistrySource(rs, v)
				out = append(out, fmt.Sprintf("LocalPathForRegistrySource(%s, %s) = %s", regStr, vstr, rel(lp, err)))
				lp, err = b.LocalPathForSource(rs.Versioned(v))
				out = append(out, fmt.Sprintf("LocalPathForSource(%s) = %s", rs.Versioned(v), rel(lp, err)))
			}
		}
	}
	return out
}

func sortStrings(xs []string) {
	for i := 1; i < len(xs); i++ {
		for j := i; j > 0 && xs[j] < xs[j-1]; j-- {
			xs[j], xs[j-1] = xs[j-1], xs[j]
		}
	}
}

func openDirSafe(dir string) (b *sourcebundle.Bundle, err error, pan interface{}) {
	defer func() {
		if x := recover(); x != nil {
			pan = x
		}
	}()
	b, err = sourcebundle.OpenDir(dir)
	return
}

func init() {
	lanes["bundle"] = func(cfg *Config, rep *Report) {
		rep.Rule = "manifest documents generated field-wise (format number, 0..3 packages over 18 directory names (one a string prefix of another) incl. '..', '.', '', names with separators, 10 address strings incl. invalid ones and two spellings of one package, metadata; 0..2 registry packages x 0..2 versions x source addresses x deprecations), 55% valid stream / 45% single-field mutations; 7% of the registry versions name a real source whose sub-path is a single segment ('..', '.', '...', 'a'), plus a fixed corpus of such manifests, and registry lookups are also made with those single-segment sub-paths; every opened bundle is opened once more through a name with a symbolic link among its components (<case>/lnk -> '.'): lookup answers relative to the root that was passed must equal those of the plain opening (C09) and paths spelled under the passed root must translate to addresses and back (C18); for every opened bundle all remote/registry lookups, lookups of addresses derived with ResolveRelativeSource / ResolveRelativeFinalSource from the bundle's registry and remote sources and 16 relative paths with 0..8 leading '../' (oracle only), and SourceForLocalPath over 17 path shapes (inside a package, aliases, '..' detours, outside, the root, relative); non-trivial = opened or refused for a directory-name reason; distinct by manifest"
		r := NewRng(cfg.Seed)
		n := cfg.N
		reqs := make([]string, n)
		impl := make([]string, n)
		human := make([]interface{}, n)
		mans := make([]*jManifest, n)
		for i := range mans {
			mans[i] = genManifest(r)
		}
		// the fixed corpus takes extra slots after the generated manifests
		for _, m := range bundleCorpus() {
			mans = append(mans, m)
			reqs = append(reqs, "")
			impl = append(impl, "")
			human = append(human, nil)
		}
		n = len(mans)
		// exact replay (-case): the recorded manifest ({"manifest": ...}) takes an extra last slot and runs first, alone
		replayIdx := -1
		{
			var rin struct {
				Manifest *jManifest `json:"manifest"`
			}
			if loadReplayInput(cfg, "bundle", &rin) && rin.Manifest != nil {
				replayIdx = n
				mans = append(mans, rin.Manifest)
				reqs = append(reqs, "")
				impl = append(impl, "")
				human = append(human, nil)
			} else {
				replayMissing(cfg, rep, "bundle")
			}
		}
		var wg sync.WaitGroup
		sem := make(chan struct{}, 16)
		runMan := func(i int) {
				m := mans[i]
				root := filepath.Join(cfg.Work, fmt.Sprintf("m%06d", i), "bundle")
				os.MkdirAll(root, 0755)
				defer os.RemoveAll(filepath.Dir(root))
				data, _ := json.MarshalIndent(m, "", "  ")
				os.WriteFile(filepath.Join(root, "terraform-sources.json"), data, 0644)
				for _, p := range m.Packages {
					if p.Local != "" && !strings.ContainsAny(p.Local, "/\\.") {
						os.MkdirAll(filepath.Join(root, p.Local, "m"), 0755)
					}
				}
				b, err, pan := openDirSafe(root)
				menc, oenc := encManifest(m)
				in := map[string]interface{}{"manifest": m}
				if pan != nil {
					rep.AddOracle(OracleFailure{Property: "C19", Lane: "bundle", What: fmt.Sprintf("OpenDir panics: %v", pan), Input: in, ReqIdx: i + 1})
					return
				}
				// queries
				var qs, answers []string
				fail := func(what string) {
					rep.AddOracle(OracleFailure{Property: "C18", Lane: "bundle", What: what, Input: in, ReqIdx: i + 1})
				}
				badDir := false
				for _, p := range m.Packages {
					if strings.ContainsAny(p.Local, "/\\") && !strings.Contains(p.Local, "\\") || p.Local == "." || p.Local == ".." || p.Local == "" || strings.Contains(p.Local, "/") {
						badDir = true
					}
				}
				nt := err == nil || badDir
				rep.Case(string(data), nt, map[string]interface{}{"manifest": m, "opened": err == nil})
				if err != nil {
					rep.Count("open:refused")
					reqs[i] = fmt.Sprintf("bundle %s %s %s -", X(root), menc, oenc)
					impl[i] = "err"
					human[i] = in
					return
				}
				rep.Count("open:ok")
				if badDir && m.Format == 1 {
					fail("a manifest naming a package directory with a separator, '.', '..' or '' was opened")
				}
				for _, p := range b.RemotePackages() {
					// dotted segments that are not ".." are ordinary names (seed C18-e)
					for _, sub := range []string{"", "m", "m/n", "v1..v2", "...", "..data/x", "a/trailing.."} {
						lp, err := b.LocalPathForRemoteSource(p.SourceAddr(sub))
						qs = append(qs, "lr~"+X(p.String())+"~"+X(sub))
						if err != nil {
							answers = append(answers, "err")
							// the package is in the bundle and the sub-path is a valid one: the lookup must answer
							fail(fmt.Sprintf("lookup of %s//%s, a package the bundle contains, is refused: %v", p, sub, err))
							continue
						}
						answers = append(answers, X(lp))
						if !within(root, lp) || lp == root {
							fail(fmt.Sprintf("lookup of %s//%s returns %s, not inside the bundle root", p, sub, lp))
						}
						// inversion
						src, err := b.SourceForLocalPath(lp)
						if err != nil {
							fail(fmt.Sprintf("path %s returned by a lookup is reported as not belonging to the bundle", lp))
							continue
						}
						back, err := b.LocalPathForSource(src)
						if err != nil || back != lp {
							fail(fmt.Sprintf("translating %s to an address (%s) and back gives %s", lp, src, back))
						}
					}
				}
				// lookups of things the bundle does not contain must be refused, not answered
				{
					absentPkg, _ := sourceaddrs.ParseRemotePackage("git::https://example.com/absent-from-every-manifest.git")
					if lp, err := b.LocalPathForRemoteSource(absentPkg.SourceAddr("m")); err == nil {
						fail("lookup of a package the bundle does not contain is answered with " + lp)
					}
					qs = append(qs, "lr~"+X(absentPkg.String())+"~"+X("m"))
					answers = append(answers, "err")
					absentReg, _ := sourceaddrs.ParseRegistrySource("example.com/absent/everywhere/aws")
					v999, _ := versions.ParseVersion("999.0.0")
					if lp, err := b.LocalPathForRegistrySource(absentReg, v999); err == nil {
						fail("lookup of a registry package the bundle does not contain is answered with " + lp)
					}
					qs = append(qs, "lg~"+X(absentReg.Package().String())+"~"+X("999.0.0")+"~"+X(""))
					answers = append(answers, "err")
					for _, rp := range b.RegistryPackages() {
						rs, perr := sourceaddrs.ParseRegistrySource(rp.String())
						if perr != nil {
							continue
						}
						if lp, err := b.LocalPathForRegistrySource(rs, v999); err == nil {
							fail(fmt.Sprintf("lookup of version 999.0.0 of %s, which the bundle does not contain, is answered with %s", rp, lp))
						}
						qs = append(qs, "lg~"+X(rp.String())+"~"+X("999.0.0")+"~"+X(""))
						answers = append(answers, "err")
					}
				}
				for _, rp := range b.RegistryPackages() {
					for _, v := range b.RegistryPackageVersions(rp) {
						for _, sub := range append([]string{"", "k"}, mSingleSegSubs...) {
							regStr := rp.String()
							if sub != "" {
								regStr += "//" + sub
							}
							rs, perr := sourceaddrs.ParseRegistrySource(regStr)
							if perr != nil {
								// a refused lookup address ("//..", "//.") is fine
								continue
							}
							lp, err := b.LocalPathForRegistrySource(rs, v)
							// the two other entry points to the same lookup must agree with it
							lp2, err2 := b.LocalPathForFinalRegistrySource(rs.Versioned(v))
							lp3, err3 := b.LocalPathForSource(rs.Versioned(v))
							if lp2 != lp || lp3 != lp || (err == nil) != (err2 == nil) || (err == nil) != (err3 == nil) {
								fail(fmt.Sprintf("LocalPathForRegistrySource, LocalPathForFinalRegistrySource and LocalPathForSource disagree for %s@%s: %q / %q / %q", regStr, v, lp, lp2, lp3))
							}
							qs = append(qs, "lg~"+X(rp.String())+"~"+X(v.String())+"~"+X(sub))
							if err != nil {
								answers = append(answers, "err")
								continue
							}
							answers = append(answers, X(lp))
							if !within(root, lp) || lp == root {
								fail(fmt.Sprintf("registry lookup %s@%s returns %s, not inside the bundle root", regStr, v, lp))
							}
						}
					}
				}
				// lookup addresses that were not parsed but derived: a source of the bundle resolved against a
				// local relative path with 0..8 leading "../" (more than registry sub-path + real-source
				// sub-path + 1 levels) through ResolveRelativeSource / ResolveRelativeFinalSource. The
				// resolution may refuse, the lookup may refuse; an answer lies inside the bundle root
				// (seed C18-f: an unvalidated join carries "../" into a registry address). The set of
				// derived addresses is a function of the manifest alone (exact replay).
				{
					inside := func(lp string) bool { return within(root, lp) && lp != root }
					notInside := func(lp string) string {
						if lp == root {
							return "which is the bundle root itself, not a path inside it:"
						}
						return "outside the bundle root"
					}
					// per manifest at most four answers outside the root and two that are the root itself are
					// reported (the outside ones first)
					var outside, atRoot []string
					fail := func(what string) {
						if strings.Contains(what, "outside the bundle root") {
							outside = append(outside, what)
						} else {
							atRoot = append(atRoot, what)
						}
					}
					defer func() {
						for k, what := range outside {
							if k < 4 {
								rep.AddOracle(OracleFailure{Property: "C18", Lane: "bundle", What: what, Input: in, ReqIdx: i + 1})
							}
						}
						for k, what := range atRoot {
							if k < 2 {
								rep.AddOracle(OracleFailure{Property: "C18", Lane: "bundle", What: what, Input: in, ReqIdx: i + 1})
							}
						}
					}()
					derivCount := map[string]int{}
					defer func() {
						rep.mu.Lock()
						for k, n := range derivCount {
							rep.Distribution[k] += n
						}
						rep.mu.Unlock()
					}()
					derivRels := bundleDerivRels
					for _, rp := range b.RegistryPackages() {
						for _, v := range b.RegistryPackageVersions(rp) {
							for _, sub := range []string{"", "a/b/c"} {
								regStr := rp.String()
								if sub != "" {
									regStr += "//" + sub
								}
								rs, perr := sourceaddrs.ParseRegistrySource(regStr)
								if perr != nil {
									continue
								}
								for _, dr := range derivRels {
									rel, loc := dr.rel, dr.loc
									if res, err := sourceaddrs.ResolveRelativeSource(rs, loc); err != nil {
										derivCount["derived-lookup:resolution-refused"]++
									} else if rres, ok := res.(sourceaddrs.RegistrySource); ok {
										derivCount["derived-lookup:registry"]++
										if lp, err := b.LocalPathForRegistrySource(rres, v); err == nil && !inside(lp) {
											fail(fmt.Sprintf("LocalPathForRegistrySource(%s, %s) = %s, %s %s; the address is ResolveRelativeSource(%s, %s)", rres, v, lp, notInside(lp), root, regStr, rel))
										}
									}
									if res, err := sourceaddrs.ResolveRelativeFinalSource(rs.Versioned(v), loc); err != nil {
										derivCount["derived-lookup:resolution-refused"]++
									} else if fres, ok := res.(sourceaddrs.RegistrySourceFinal); ok {
										derivCount["derived-lookup:registry-final"]++
										if lp, err := b.LocalPathForFinalRegistrySource(fres); err == nil && !inside(lp) {
											fail(fmt.Sprintf("LocalPathForFinalRegistrySource(%s) = %s, %s %s; the address is ResolveRelativeFinalSource(%s, %s)", fres, lp, notInside(lp), root, rs.Versioned(v), rel))
										}
										if lp, err := b.LocalPathForSource(fres); err == nil && !inside(lp) {
											fail(fmt.Sprintf("LocalPathForSource(%s) = %s, %s %s; the address is ResolveRelativeFinalSource(%s, %s)", fres, lp, notInside(lp), root, rs.Versioned(v), rel))
										}
									}
								}
							}
						}
					}
					for _, p := range b.RemotePackages() {
						for _, sub := range []string{"m/n"} {
							base := p.SourceAddr(sub)
							for _, dr := range derivRels {
								rel, loc := dr.rel, dr.loc
								if res, err := sourceaddrs.ResolveRelativeSource(base, loc); err != nil {
									derivCount["derived-lookup:resolution-refused"]++
								} else if rres, ok := res.(sourceaddrs.RemoteSource); ok {
									derivCount["derived-lookup:remote"]++
									if lp, err := b.LocalPathForRemoteSource(rres); err == nil && !inside(lp) {
										fail(fmt.Sprintf("LocalPathForRemoteSource(%s) = %s, %s %s; the address is ResolveRelativeSource(%s, %s)", rres, lp, notInside(lp), root, base, rel))
									}
								}
								if res, err := sourceaddrs.ResolveRelativeFinalSource(base, loc); err == nil {
									if lp, err := b.LocalPathForSource(res); err == nil && !inside(lp) {
										fail(fmt.Sprintf("LocalPathForSource(%s) = %s, %s %s; the address is ResolveRelativeFinalSource(%s, %s)", res, lp, notInside(lp), root, base, rel))
									}
								}
							}
						}
					}
				}
				// the same directory opened through a name with a symbolic link among its components
				// (<case>/lnk -> ".", inside the scratch directory): every lookup answer, taken relative to the
				// root that was passed to OpenDir, is the one the bundle opened by the plain name gives (C09:
				// "the same answer to every lookup relative to its root"), and paths spelled under the passed
				// root translate to addresses and back (C18) (seed C09-g: the root kept under its resolved name)
				{
					lnk := filepath.Join(filepath.Dir(root), "lnk")
					if os.Symlink(".", lnk) == nil {
						lroot := filepath.Join(lnk, "bundle")
						bl, lerr, lpan := openDirSafe(lroot)
						switch {
						case lpan != nil:
							rep.AddOracle(OracleFailure{Property: "C19", Lane: "bundle", What: fmt.Sprintf("OpenDir through a symbolic link panics: %v", lpan), Input: in, ReqIdx: i + 1})
						case lerr != nil:
							rep.AddOracle(OracleFailure{Property: "C09", Lane: "bundle", What: fmt.Sprintf("a bundle directory that opens by its plain name %s is refused when opened as %s (lnk is a symbolic link to '.'): %v", root, lroot, lerr), Input: in, ReqIdx: i + 1})
						default:
							rep.Count("open:through-symlinked-component")
							plain, linked := bundleLookupTable(b, root), bundleLookupTable(bl, lroot)
							for k := range plain {
								if k < len(linked) && plain[k] != linked[k] {
									rep.AddOracle(OracleFailure{Property: "C09", Lane: "bundle", What: fmt.Sprintf("the bundle opened as %s (lnk is a symbolic link to '.', so this is the directory %s) answers, relative to the root it was opened with, %s; the bundle opened by the plain name answers %s", lroot, root, linked[k], plain[k]), Input: in, ReqIdx: i + 1})
									break
								}
							}
							for _, p := range bl.RemotePackages() {
								pd, err := b.LocalPathForRemoteSource(p.SourceAddr(""))
								if err != nil {
									continue
								}
								for _, tail := range []string{"", "/x/y"} {
									lp := filepath.Join(lroot, filepath.Base(pd)) + tail
									src, err := bl.SourceForLocalPath(lp)
									if err != nil {
										fail(fmt.Sprintf("path %s, inside a package directory and spelled under the root the bundle was opened with (%s; lnk is a symbolic link to '.'), is reported as not belonging to the bundle: %v", lp, lroot, err))
										break
									}
									if back, err := bl.LocalPathForSource(src); err != nil || back != lp {
										fail(fmt.Sprintf("translating %s (spelled under the root the bundle was opened with, %s) to an address (%s) and back gives %q (err %v)", lp, lroot, src, back, err))
										break
									}
								}
							}
						}
					}
				}
				// SourceForLocalPath over path shapes
				dirs := map[string]string{} // dir -> some pkg
				for _, p := range b.RemotePackages() {
					lp, _ := b.LocalPathForRemoteSource(p.SourceAddr(""))
					dirs[filepath.Base(lp)] = p.String()
				}
				var shapes []string
				for d := range dirs {
					shapes = append(shapes, root+"/"+d, root+"/"+d+"/x/y", root+"/"+d+"/../"+d+"/x", root+"/"+d+"/", root+"/"+d+"/x/../..", root+"/./"+d+"/m",
						// siblings whose names merely extend a package directory's name (seed C18-c)
						root+"/"+d+"x/y", root+"/"+d+".orig", root+"/"+d+"0/m")
				}
				shapes = append(shapes, root, root+"/..", root+"/nodir/x", root+"/terraform-sources.json", filepath.Dir(root)+"/sibling/x", root+"x/y", "/")
				sortStrings(shapes)
				for _, p := range shapes {
					src, err := b.SourceForLocalPath(p)
					qs = append(qs, "sp~"+X(filepath.Clean(p)))
					if err != nil {
						answers = append(answers, "err")
						if rel, rerr := filepath.Rel(root, filepath.Clean(p)); rerr == nil && !strings.HasPrefix(rel, "..") && rel != "." {
							if _, ok := dirs[strings.Split(rel, "/")[0]]; ok {
								fail(fmt.Sprintf("path %s inside package directory is reported as not belonging to the bundle", p))
							}
						}
						continue
					}
					rsrc := src.(sourceaddrs.RemoteSource)
					base, _ := b.LocalPathForRemoteSource(rsrc.Package().SourceAddr(""))
					answers = append(answers, X(filepath.Base(base))+"~"+X(rsrc.SubPath())+"~"+X(rsrc.Package().String()))
					back, err := b.LocalPathForSource(src)
					if err != nil || back != filepath.Clean(p) {
						fail(fmt.Sprintf("translating %s to an address and back gives %q (err %v)", p, back, err))
					}
					if !within(root, filepath.Clean(p)) || filepath.Clean(p) == root {
						fail(fmt.Sprintf("path %s outside every package is accepted as belonging to the bundle", p))
					} else if rel, rerr := filepath.Rel(root, filepath.Clean(p)); rerr == nil {
						if _, ok := dirs[strings.Split(rel, "/")[0]]; !ok {
							fail(fmt.Sprintf("path %s lies in no package directory but is accepted as belonging to the bundle", p))
						}
					}
				}
				// canonical tables
				var dl, ml, sl, pl []string
				for _, p := range b.RemotePackages() {
					lp, _ := b.LocalPathForRemoteSource(p.SourceAddr(""))
					dl = append(dl, X(p.String())+":"+X(filepath.Base(lp)))
					if mt := b.RemotePackageMeta(p); mt != nil {
						ml = append(ml, X(p.String())+":"+X(mt.GitCommitID())+":"+X(mt.GitCommitMessage()))
					}
				}
				for _, rp := range b.RegistryPackages() {
					for _, v := range b.RegistryPackageVersions(rp) {
						if s, ok := b.RegistryPackageSourceAddr(rp, v); ok {
							sl = append(sl, X(rp.String())+":"+X(v.String())+":"+X(s.Package().String())+":"+X(s.SubPath()))
						}
						if d := b.RegistryPackageVersionDeprecation(rp, v); d != nil {
							pl = append(pl, X(rp.String())+":"+X(v.String())+":"+X(d.Reason)+":"+X(d.Link))
						} else {
							pl = append(pl, X(rp.String())+":"+X(v.String())+":-:-")
						}
					}
				}
				enc := func(xs []string) string {
					if len(xs) == 0 {
						return "-"
					}
					sortStrings(xs)
					return strings.Join(xs, ",")
				}
				qenc := "-"
				if len(qs) > 0 {
					qenc = strings.Join(qs, ",")
				}
				reqs[i] = fmt.Sprintf("bundle %s %s %s %s", X(root), menc, oenc, qenc)
				impl[i] = fmt.Sprintf("ok %s %s %s %s %s", enc(dl), enc(ml), enc(sl), enc(pl), strings.Join(answers, "|"))
				human[i] = in
		}
		if replayIdx >= 0 {
			rep.BeginReplay()
			runMan(replayIdx)
			rep.EndReplay(reqs[replayIdx])
		}
		for i := 0; i < n; i++ {
			wg.Add(1)
			sem <- struct{}{}
			go func(i int) {
				defer wg.Done()
				defer func() { <-sem }()
				runMan(i)
			}(i)
		}
		wg.Wait()
		var rq, im []string
		var hu []interface{}
		remap := map[int]int{}
		for i := range reqs {
			if reqs[i] != "" {
				remap[i+1] = len(rq) + 1
				rq = append(rq, reqs[i])
				im = append(im, impl[i])
				hu = append(hu, human[i])
			}
		}
		for k := range rep.OracleFailures {
			rep.OracleFailures[k].ReqIdx = remap[rep.OracleFailures[k].ReqIdx]
		}
		rep.Compare(cfg.Driver, rq, im, hu)
	}
}
