//go:build covrun

package main

import (
	"os"
	"path/filepath"
	"testing"
)

// Coverage probe (not part of any check): runs every lane in-process at a small size so that
// `go test -tags 'verif covrun' -coverpkg=github.com/hashicorp/go-slug/... -coverprofile=...` shows
// which implementation code the lanes reach.
func TestCoverLanes(t *testing.T) {
	sizes := map[string]int{"addr": 3000, "builder": 500, "builder-faults": 15, "builder-order": 40, "bundle": 800, "bundle-roundtrip": 40,
		"ignore": 1500, "pack": 1200, "pack-faults": 6, "pack-spelling": 30, "paths": 300, "registry": 2000, "resolve": 400, "sanitise": 1000,
		"unpack": 1200, "unpack-faults": 5}
	for name, n := range sizes {
		work := filepath.Join(t.TempDir(), name)
		os.MkdirAll(work, 0755)
		cfg := &Config{Seed: 1, N: n, Tier: "quick", Driver: "/verif/lean/.lake/build/bin/driver", Work: work, Prop: "C19"}
		rep := NewReport(name, 1)
		lanes[name](cfg, rep)
		t.Logf("%s: evaluations=%d diffs=%d broken=%v", name, rep.Evaluations, len(rep.Diffs), rep.Broken)
	}
}
