package main

import (
	"fmt"
	"net/url"
	"regexp"
	"sort"
	"strconv"
	"strings"
	"unicode/utf8"

	"github.com/apparentlymart/go-versions/versions"
	"github.com/hashicorp/go-slug/sourceaddrs"
)

// addr lane (C06 C07 C19): the address parsers, printers and constructors against the Lean model
// (Addr.lean / Remote.lean; net/url answers are supplied to the model as an oracle table) and
// against the independent policy predicate (C07) and the print/parse round-trip oracle (C06).

func encURLRec(u *url.URL, perr error) string {
	if perr != nil || u == nil {
		return "perr"
	}
	b := func(x bool) string {
		if x {
			return "1"
		}
		return "0"
	}
	q := u.Query()
	var keys []string
	for k := range q {
		keys = append(keys, k)
	}
	sort.Strings(keys)
	var qs []string
	for _, k := range keys {
		var vs []string
		for _, v := range q[k] {
			vs = append(vs, X(v))
		}
		qs = append(qs, X(k)+"="+strings.Join(vs, "+"))
	}
	qenc := "-"
	if len(qs) > 0 {
		qenc = strings.Join(qs, ";")
	}
	_, qerr := url.ParseQuery(u.RawQuery)
	q2 := u.Query()
	q2.Set("archive", "tgz")
	return strings.Join([]string{X(u.Scheme), X(u.Opaque), b(u.User != nil), X(u.Host), X(u.Path), X(u.RawPath), b(u.ForceQuery),
		X(u.RawQuery), X(u.Fragment), X(u.RawFragment), qenc, b(qerr != nil), X(u.EscapedPath()), X(u.EscapedFragment()), X(q2.Encode())}, ":")
}

func encRemoteImpl(r sourceaddrs.RemoteSource, err error) string {
	if err != nil {
		return "err"
	}
	u := r.Package().URL()
	fq := "0"
	if u.ForceQuery {
		fq = "1"
	}
	return "ok " + X(r.Package().SourceType()) + " " + X(r.SubPath()) + " " +
		strings.Join([]string{X(u.Scheme), X(u.Opaque), X(u.Host), X(u.Path), X(u.RawPath), fq, X(u.RawQuery), X(u.Fragment), X(u.RawFragment)}, ":")
}

// ---------- independent policy predicate (C07) ----------

func policyViolations(r sourceaddrs.RemoteSource) []string {
	var out []string
	p := r.Package()
	u := p.URL()
	ty := p.SourceType()
	switch ty {
	case "git":
		if u.Scheme != "https" && u.Scheme != "ssh" {
			out = append(out, "git address with scheme "+u.Scheme)
		}
		for k, vs := range u.Query() {
			if k != "ref" {
				out = append(out, "git address with query argument "+k)
			}
			if len(vs) > 1 {
				out = append(out, "git address with repeated "+k)
			}
		}
	case "http", "https":
		if u.Scheme != "https" {
			out = append(out, "archive address with scheme "+u.Scheme)
		}
		q := u.Query()
		if len(q["checksum"]) > 0 {
			out = append(out, "archive address with checksum argument")
		}
		if a := q["archive"]; len(a) > 0 {
			if len(a) != 1 || a[0] != "tgz" {
				out = append(out, fmt.Sprintf("archive argument %v not normalised to a single tgz", a))
			}
		} else if ep := u.EscapedPath(); !strings.HasSuffix(ep, ".tar.gz") && !strings.HasSuffix(ep, ".tgz") {
			out = append(out, "archive address whose path does not end in .tar.gz/.tgz")
		}
	default:
		out = append(out, "unknown source type "+ty)
	}
	if u.User != nil {
		out = append(out, "address carries user information")
	}
	// the policy above reads the query leniently (Query() drops pairs it cannot parse); the query that
	// is kept and printed is RawQuery, so every raw pair must be a permitted one (seed C07-c)
	if u.RawQuery != "" {
		if _, err := url.ParseQuery(u.RawQuery); err != nil {
			out = append(out, "kept query "+fmt.Sprintf("%q", u.RawQuery)+" does not parse strictly, so it was not what the policy checked")
		}
		for _, pair := range strings.Split(u.RawQuery, "&") {
			k, _, _ := strings.Cut(pair, "=")
			if uk, err := url.QueryUnescape(k); err == nil {
				k = uk
			}
			switch {
			case pair == "":
			case ty == "git" && k != "ref":
				out = append(out, "git address keeps raw query pair "+fmt.Sprintf("%q", pair))
			case ty != "git" && k == "checksum":
				out = append(out, "archive address keeps raw query pair "+fmt.Sprintf("%q", pair))
			}
		}
	}
	if sp := r.SubPath(); sp != "" {
		for _, seg := range strings.Split(sp, "/") {
			if seg == "" || seg == "." || seg == ".." {
				out = append(out, "sub-path with segment "+fmt.Sprintf("%q", seg))
			}
		}
	}
	return out
}

// ---------- generators ----------

var aHosts = []string{"example.com", "EXAMPLE.com", "example.com:8080", "h", "テラフォーム.example.com", "ex ample.com"}
var aPaths = []string{"/foo.git", "/a/b.git", "/foo.tar.gz", "/x.tgz", "/foo", "/a%2Fb.git", "/a b.git", "/é.git", "/foo.zip", "", "/", "/a//b.tgz", "/q.tar.gz/"}
var aQueries = []string{"", "", "", "?ref=main", "?ref=a&ref=b", "?depth=1", "?archive=tgz", "?archive=tar.gz", "?archive=zip", "?checksum=x", "?a=1&archive=tar.gz", "?ref=v1%2E0",
	"?x=%zz", "?", "?ref=", "?sshkey=k", "?archive=tgz&archive=tgz", "?archive=tar.gz&checksum=md5:x", "?b=2&a=1", "?ref=a+b",
	// a query that itself contains "//" or "://" (seed C06-e: the sub-path marker searched past the '?')
	"?ref=release//2024", "?mirror=https://m.example.net/p.tgz", "?x=a//b", "?ref=a//b//c",
	"?sshkey=x;ref=main", "?ref=a;ref=b", "?checksum=md5:x;x=1", "?depth=%zz", "?ref=main&", "?&ref=main", "?archive=tgz;checksum=x",
	// another argument whose RAW text contains "archive=tar.gz" (as the tail of its key, or inside its value: a
	// nested URL / query) BEFORE the real archive argument, and the same pairs the other way round: the
	// normalisation of the archive argument must hit the real one, so that printing is idempotent (seed C06-h)
	"?src-archive=tar.gz&archive=tar.gz", "?archive=tar.gz&src-archive=tar.gz", "?from=/dl/pkg?archive=tar.gz&archive=tar.gz",
	"?mirror=https://m.example.net/p?archive=tar.gz&archive=tar.gz", "?xarchive=tar.gz&archive=tar.gz&z=1", "?note=archive=tar.gz&archive=tar.gz",
	"?src-archive=tar.gz&archive=tgz", "?archive=tar.gz&from=/dl/pkg?archive=tar.gz"}
var aFrags = []string{"", "", "", "#frag", "#a b", "#a%20b"}
var aTypes = []string{"", "", "", "git::", "GIT::", "https::", "http::", "hg::", "git::git::", "Git::", "s3::", "::"}
var aSchemes = []string{"https://", "https://", "HTTPS://", "http://", "ssh://", "git://", "file://", "", "https:/", "Ssh://"}
var aUsers = []string{"", "", "", "", "user@", "user:pw@", ":pw@", "@"}
var aSubs = []string{"", "", "", "//sub", "//a/b", "//a/../b", "//.", "//a//b", "//dir with space", "//a%20b", "//*", "//..", "//a/./b", "//é", "//a#b", "//a?b",
	// percent-escaped dots and separators: literal characters of a sub-path, never decoded (seed C07-d)
	"//%2e%2e/secret", "//a/%2E%2E/%2e%2e/b", "//a%2fb", "//%2e", "//m%2f%2fn"}
var aWhole = []string{"github.com/org/repo", "github.com/org/repo/sub/dir", "github.com/org", "gitlab.com/org/repo.git", "gitlab.com/org/repo/a/b", "github.com/org/repo.git//x",
	"hashicorp/subnets/cidr", "example.com/foo/bar/baz//sub", "./a", "../b", ".", "./.", "..", "./a/../b", "", " ./a", "github.com/", "github.com/o/r?ref=x", "gitlab.com/o/r/s/t?ref=y",
	"hashicorp/subnets/cidr//a/b/../c", "example.com/foo/bar/baz@1.0.0//beep", "foo/bar/baz@1.2.3", "foo/bar/baz@0.0.0-a//x", "./a:b", ".\\a", "a/b", "../", "./",
	// pinned versions whose pre-release / build identifiers have upper-case letters: identifiers are case
	// sensitive, the version text round-trips byte for byte (seed C17-h)
	"foo/bar/baz@1.0.0-RC1", "example.com/foo/bar/baz@2.0.0-Beta.2+Build.7//beep", "foo/bar/baz@1.0.0-rc1", "hashicorp/subnets/cidr@1.2.3+Linux.AMD64//m",
	// sub-paths with bytes that are not valid UTF-8 (a Latin-1 name, a lone 0xff, a truncated sequence, an
	// overlong '/'): outside the model's domain (oracle only); every non-local route must refuse them (seed C11-g)
	"hashicorp/subnets/cidr//caf\xe9", "example.com/foo/bar/baz@1.0.0//mod\xff", "foo/bar/baz@1.2.3//a/\xc3/b", "github.com/org/repo//\xc0\xaf", "gitlab.com/org/repo/caf\xe9",
	"git::https://example.com/foo.git//caf\xe9", "https://example.com/foo.tar.gz//mod\xff/x?x=y", "git::ssh://example.com/a/b.git//a/\xc3?ref=main"}

// constructor route only (MakeRemoteSource): spellings that a case-insensitive comparison by Unicode simple
// case folding (strings.EqualFold) equates with an ASCII keyword although they are not that keyword and
// lower-casing does not turn them into it: U+017F LATIN SMALL LETTER LONG S folds to 's', U+212A KELVIN SIGN to
// 'k'; plus upper/lower ASCII mixes (url.Parse lower-cases a scheme, a hand-assembled URL need not be) and the
// dotted / dotless i of the source type (seed C07-g)
var mkFoldSchemes = []string{"\u017fsh", "s\u017fh", "\u017f\u017fh", "http\u017f", "HTTP\u017f", "\u017fSH", "S\u017fH", "SSH", "Ssh", "sSh", "HTTPS", "hTTps", "Https", "ssh", "https", "http", "HTTP", "\u212a", "ssh\u212a", "git", "GIT"}
var mkFoldTypes = []string{"g\u0131t", "G\u0130T", "Git", "gIt", "http\u017f", "HTTPS", "HTTP\u017f", "\u212ait"}
var mkFoldQueries = []string{"?\u017fha=x", "?REF=main", "?Ref=main", "?ref=main&REF=x", "?chec\u212asum=md5:x", "?CHECKSUM=md5:x", "?Archive=zip", "?ARCHIVE=tgz", "?\u017fshkey=k", "?depth=1&\u017fha=x"}

func genAddr(r *Rng) string {
	var s string
	if r.Chance(25) {
		s = r.Pick(aWhole)
	} else {
		s = r.Pick(aTypes) + r.Pick(aSchemes) + r.Pick(aUsers) + r.Pick(aHosts) + r.Pick(aPaths) + r.Pick(aSubs) + r.Pick(aQueries) + r.Pick(aFrags)
	}
	if r.Chance(12) {
		// mutate
		alphabet := []rune(" \n%:/?#@.*é\\a0=&+")
		rs := []rune(s)
		for k := 0; k < 1+r.Intn(2); k++ {
			pos := r.Intn(len(rs) + 1)
			switch r.Intn(3) {
			case 0:
				rs = append(rs[:pos], append([]rune{alphabet[r.Intn(len(alphabet))]}, rs[pos:]...)...)
			case 1:
				if pos < len(rs) {
					rs = append(rs[:pos], rs[pos+1:]...)
				}
			default:
				if pos < len(rs) {
					rs[pos] = alphabet[r.Intn(len(alphabet))]
				}
			}
		}
		s = string(rs)
	}
	return s
}

// a grammar of documented-valid addresses: all must be accepted (C07 completeness)
func genValidRemote(r *Rng) string {
	sub := r.Pick([]string{"", "//sub", "//a/b", "//modules/vpc"})
	switch r.Intn(4) {
	case 0:
		return "git::" + r.Pick([]string{"https", "ssh", "HTTPS"}) + "://" + r.Pick([]string{"example.com", "example.com:2222", "git.example.org"}) + r.Pick([]string{"/foo.git", "/a/b.git", "/repo"}) + sub + r.Pick([]string{"", "?ref=main", "?ref=v1.2.3"})
	case 1:
		return r.Pick([]string{"", "https::", "HTTPS::"})[0:0] + "https://" + r.Pick([]string{"example.com", "dl.example.org:8443"}) + r.Pick([]string{"/foo.tar.gz", "/a/b.tgz"}) + sub + r.Pick([]string{"", "?x=y"})
	case 2:
		return "https://example.com/download" + sub + r.Pick([]string{"?archive=tgz", "?archive=tar.gz", "?archive=tgz&x=y"})
	default:
		return r.Pick([]string{"github.com", "gitlab.com"}) + "/org/repo" + r.Pick([]string{"", ".git"}) + r.Pick([]string{"", "/sub/dir"})[0:0] + r.Pick([]string{"", "?ref=main"})
	}
}

// a grammar of documented-valid remote addresses with ONE rule broken: the sub-path portion (everything after
// the first "//" that follows the host part, up to the query) has an empty, '.' or '..' segment because it
// contains a second "//", begins with a third '/' or ends in "//". Every parser must refuse them, and so must
// ParseRemotePackage (the string has a sub-path portion). Returns the address
// (seed C07-h: the delimiter searched from the right, so that only the text after the LAST "//" was validated)
func genMustRejectRemote(r *Rng) string {
	bad := r.Pick([]string{"modules//vpc", "/modules", "modules//", "..//vpc", "modules/../..//vpc", "a//b//c", ".//m", "m//.", "m//..", "/m//n", "a/b//", "//m"})
	switch r.Intn(5) {
	case 0, 1:
		return "git::" + r.Pick([]string{"https", "ssh"}) + "://" + r.Pick([]string{"example.com", "example.com:2222", "git.example.org"}) + r.Pick([]string{"/repo.git", "/a/b.git", "/repo"}) + "//" + bad + r.Pick([]string{"", "", "?ref=main"})
	case 2:
		return "https://example.com/download//" + bad + r.Pick([]string{"?archive=tgz", "?archive=tar.gz"})
	case 3:
		// the archive suffix after the extra "//" (judged on the package path, this address has none)
		if strings.HasSuffix(bad, "/") || strings.HasSuffix(bad, ".") {
			return "https://" + r.Pick([]string{"example.com", "dl.example.org:8443"}) + r.Pick([]string{"/foo.tar.gz", "/a/b.tgz"}) + "//" + bad
		}
		return "https://example.com/pkg//" + bad + r.Pick([]string{".tgz", ".tar.gz"})
	default:
		return r.Pick([]string{"github.com", "gitlab.com"}) + "/org/repo" + r.Pick([]string{"", ".git"}) + "//" + bad + r.Pick([]string{"", "?ref=main"})
	}
}

// checkMustReject: s is a remote address whose sub-path portion breaks the segment rule; every route refuses it
func checkMustReject(rep *Report, s string) {
	// the portion as written: after the first "//" behind the scheme's own "://", up to the query
	body := s
	if i := strings.Index(body, "?"); i >= 0 {
		body = body[:i]
	}
	off := 0
	if i := strings.Index(body, "://"); i >= 0 {
		off = i + 3
	}
	j := strings.Index(body[off:], "//")
	if j < 0 {
		return
	}
	portion := body[off+j+2:]
	seg, isBad := "", false
	for _, sg := range strings.Split(portion, "/") {
		if sg == "" || sg == "." || sg == ".." {
			seg, isBad = sg, true
			break
		}
	}
	if !isBad {
		return
	}
	in := addrIn{How: "must-reject", Input: s}
	describe := func(v sourceaddrs.RemoteSource) string {
		return fmt.Sprintf("as package URL path %q + sub-path %q, printing %q", v.Package().URL().Path, v.SubPath(), v.String())
	}
	report := func(parser, got string) {
		rep.AddOracle(OracleFailure{Property: "C07", Lane: "addr", What: fmt.Sprintf("%s(%q) accepts a remote address whose sub-path portion %q has the segment %q (a doubled, tripled or trailing separator): %s", parser, s, portion, seg, got), Input: in})
	}
	if v, err := parseRemoteSafe(rep, s); err == nil {
		report("ParseRemoteSource", describe(v))
	}
	if v, err := parseSourceSafe(rep, s); err == nil {
		got := "as " + v.String()
		if rv, ok := v.(sourceaddrs.RemoteSource); ok {
			got = describe(rv)
		}
		report("ParseSource", got)
	}
	if v, err := parseFinalSafe(rep, s); err == nil {
		got := "as " + v.String()
		if rv, ok := v.(sourceaddrs.RemoteSource); ok {
			got = describe(rv)
		}
		report("ParseFinalSource", got)
	}
	if v, err := sourceaddrs.ParseRemotePackage(s); err == nil {
		report("ParseRemotePackage", fmt.Sprintf("as the package %q although the address has a sub-path portion", v.String()))
	}
}

var finalRegistryText = regexp.MustCompile(`^(.+)@([^/]+)(//(.+))?$`)

// checkFinalVersionText: rf was parsed from the text s (package@version[//sub-path]). The selected version is the
// one the text names: identifiers of a pre-release / build part are case sensitive, so a version text in
// canonical spelling comes back byte for byte (seed C17-h: the text lower-cased on the way in)
func checkFinalVersionText(rep *Report, lane, parser, s string, rf sourceaddrs.RegistrySourceFinal, in interface{}) {
	m := finalRegistryText.FindStringSubmatch(s)
	if m == nil {
		return
	}
	text := m[2]
	want, err := versions.ParseVersion(text)
	if err != nil {
		return
	}
	got := rf.SelectedVersion()
	if got != want || (want.String() == text && got.String() != text) {
		rep.AddOracle(OracleFailure{Property: "C06", Lane: lane, What: fmt.Sprintf("%s(%q) pins version %q; the text names version %q (the version text of a final registry address does not round-trip byte for byte; it prints as %q)", parser, s, got.String(), text, rf.String()), Input: in})
		// the same failure read as C17: an already-versioned registry source means exactly that version
		rep.AddOracle(OracleFailure{Property: "C17", Lane: lane, What: fmt.Sprintf("%s(%q) is a final registry source for version %q, not for the version %q it was written with", parser, s, got.String(), text), Input: in})
	}
}

func isKnownC06(r sourceaddrs.RemoteSource) string {
	u := r.Package().URL()
	sp := r.SubPath()
	if sp != "" && u.RawPath != "" {
		return "addr.rawpath-with-subpath"
	}
	if strings.Contains(strings.TrimPrefix(u.Path, "/"), "//") || strings.HasPrefix(u.Path, "//") {
		// the decoded package path has an empty segment (written %2f%2f, or handed to the constructor):
		// it prints as "//", which every parser takes for the sub-path marker
		return "addr.pkgpath-double-slash"
	}
	if strings.HasPrefix(u.Opaque, ":") {
		// F50: the "type::" prefix was not recognised because the address contains a line break (the prefix
		// pattern's '.' does not match it), so the whole text was parsed as a URL whose opaque part begins with
		// ':'; the printed form escapes the line break, and there the prefix IS recognised
		return "addr.type-prefix-missed-opaque"
	}
	if sp != "" && strings.HasSuffix(u.EscapedPath(), ":") {
		// F51: a package path ending in ':' followed by the sub-path marker prints "…://sub", and splitSubPath
		// takes that "://" for the scheme separator
		return "addr.pkgpath-colon-before-subpath"
	}
	if strings.Contains(u.Fragment, "//") {
		// F49: the decoded fragment has "//" (written %2f%2f): it is printed decoded, and every parser takes
		// the "//" for the sub-path marker (thorough tier, seed 51)
		return "addr.fragment-double-slash"
	}
	if sp != "" && (u.Fragment != "" || u.RawFragment != "") {
		// the printed form puts the fragment after the sub-path, and splitting takes it for part of the sub-path
		return "addr.fragment-with-subpath"
	}
	if sp != "" && (strings.HasSuffix(u.EscapedPath(), "/") || (u.Path == "" && u.Host == "") ) {
		// ".../" + "//sub" prints as "///sub", which splits at the first "//"
		return "addr.pkgpath-trailing-slash-with-subpath"
	}
	if sp != "" {
		// characters that URL path escaping rewrites or that terminate the path
		esc := (&url.URL{Path: "/x/" + sp}).EscapedPath()
		if esc != "/x/"+sp || strings.ContainsAny(sp, "?#%") {
			return "addr.subpath-needs-escaping"
		}
	}
	// (checked last: the syntactic mechanisms above take precedence) constructor route: a package URL the parsers would never produce (path containing "//" or ending
	// in "/", malformed query, raw fragment, ...): the package alone does not survive print/parse
	if p2, err := sourceaddrs.ParseRemotePackage(r.Package().String()); err != nil || p2 != r.Package() {
		return "addr.make-url-not-parser-canonical"
	}
	return ""
}

// addrIn is what an oracle failure of this lane records: the route the value was obtained by (how)
// and what it was obtained from: the address string (or, for the constructor route, the triple) the lane
// started with, plus the second string for values made of two. Enough to run the same route again.
type addrIn struct {
	How   string            `json:"how"`
	Input string            `json:"input,omitempty"`
	Make  map[string]string `json:"make,omitempty"`
	With  string            `json:"with,omitempty"`
	// Version: the version a registry address was combined with (Versioned)
	Version string `json:"version,omitempty"`
	// InputHex / WithHex: the exact bytes (hex) of Input / With when they are not valid UTF-8 (JSON would
	// replace the offending bytes); a replay reads these first
	InputHex string `json:"input_hex,omitempty"`
	WithHex  string `json:"with_hex,omitempty"`
}

// mkAddrIn fills the hex fields for strings JSON cannot carry
func mkAddrIn(how, input string, mk map[string]string, with, ver string) addrIn {
	in := addrIn{How: how, Input: input, Make: mk, With: with, Version: ver}
	if !utf8.ValidString(input) {
		in.InputHex = X(input)
	}
	if !utf8.ValidString(with) {
		in.WithHex = X(with)
	}
	return in
}

type addrFrom struct {
	s    string
	mk   map[string]string
	with string
	ver  string
}

func (f addrFrom) in(how string) addrIn {
	return mkAddrIn(how, f.s, f.mk, f.with, f.ver)
}

// addrReplay: what a replay file asks this lane to run first
type addrReplay struct {
	strs  []string    // address strings (through every parser route and the derived values)
	makes [][4]string // constructor triples + the scheme set directly on the URL value ("" = as parsed)
	valid []string    // strings of the documented-valid stream
	reject []string   // strings of the must-reject stream
}

var (
	howParse   = regexp.MustCompile(`^(?:ParseRemoteSource|ParseSource|ParseFinalSource)\(("(?:[^"\\]|\\.)*")\)$`)
	howMake    = regexp.MustCompile(`^MakeRemoteSource\(("(?:[^"\\]|\\.)*"),("(?:[^"\\]|\\.)*"),("(?:[^"\\]|\\.)*")\)$`)
	howResolve = regexp.MustCompile(`^ResolveRelativeSource\(("(?:[^"\\]|\\.)*"), ("(?:[^"\\]|\\.)*")\)$`)
	howFinal   = regexp.MustCompile(`^("(?:[^"\\]|\\.)*")\.FinalSourceAddr\(("(?:[^"\\]|\\.)*")\)$`)
	howSrcAddr = regexp.MustCompile(`^("(?:[^"\\]|\\.)*")\.Package\(\)\.SourceAddr\(("(?:[^"\\]|\\.)*")\)$`)
	howVers    = regexp.MustCompile(`(?s)^Versioned\((.*)\)$`)
)

// fromHow reads an older record, where only the description of the route was kept: the quoted strings
// in it are the printed forms of the values involved
func (ar *addrReplay) fromHow(how string) {
	uq := func(q string) string {
		if u, err := strconv.Unquote(q); err == nil {
			return u
		}
		return q
	}
	switch {
	case howParse.MatchString(how):
		ar.strs = append(ar.strs, uq(howParse.FindStringSubmatch(how)[1]))
	case howMake.MatchString(how):
		m := howMake.FindStringSubmatch(how)
		ar.makes = append(ar.makes, [4]string{uq(m[1]), uq(m[2]), uq(m[3]), ""})
	case howResolve.MatchString(how):
		ar.strs = append(ar.strs, uq(howResolve.FindStringSubmatch(how)[1]))
	case howFinal.MatchString(how):
		m := howFinal.FindStringSubmatch(how)
		ar.strs = append(ar.strs, uq(m[1]), uq(m[2]))
	case howSrcAddr.MatchString(how):
		ar.strs = append(ar.strs, uq(howSrcAddr.FindStringSubmatch(how)[1]))
	case howVers.MatchString(how):
		ar.strs = append(ar.strs, howVers.FindStringSubmatch(how)[1])
	default:
		ar.strs = append(ar.strs, how) // the address string itself
	}
}

func loadAddrReplay(cfg *Config, rep *Report) *addrReplay {
	ar := &addrReplay{}
	var str string
	var obj struct {
		How   *string           `json:"how"`
		Input *string           `json:"input"`
		Make  map[string]string `json:"make"`
		With  *string           `json:"with"`
		Type  *string           `json:"type"`
		URL   *string           `json:"url"`
		Sub   *string           `json:"sub"`
		// Scheme: set on the parsed URL value before it goes to the constructor
		Scheme   *string `json:"scheme"`
		SubHex   *string `json:"sub_hex"`
		InputHex *string `json:"input_hex"`
		WithHex  *string `json:"with_hex"`
	}
	triple := func(m map[string]string) {
		sub := m["sub"]
		if b, ok := UnX(m["sub_hex"]); ok && m["sub_hex"] != "" {
			sub = b // the exact bytes of a sub-path that is not valid UTF-8
		}
		ar.makes = append(ar.makes, [4]string{m["type"], m["url"], sub, m["scheme"]})
	}
	switch {
	case loadReplayInput(cfg, "addr", &str):
		ar.fromHow(str)
	case loadReplayInput(cfg, "addr", &obj):
		// the exact bytes of strings that are not valid UTF-8
		if obj.InputHex != nil {
			if b, ok := UnX(*obj.InputHex); ok {
				obj.Input = &b
			}
		}
		if obj.WithHex != nil {
			if b, ok := UnX(*obj.WithHex); ok {
				obj.With = &b
			}
		}
		switch {
		case obj.Type != nil && obj.URL != nil:
			sub, scheme := "", ""
			if obj.Sub != nil {
				sub = *obj.Sub
			}
			if obj.Scheme != nil {
				scheme = *obj.Scheme
			}
			if obj.SubHex != nil {
				if b, ok := UnX(*obj.SubHex); ok {
					sub = b
				}
			}
			ar.makes = append(ar.makes, [4]string{*obj.Type, *obj.URL, sub, scheme})
		case obj.Make != nil:
			triple(obj.Make)
		case obj.Input != nil && obj.How != nil && *obj.How == "valid-grammar":
			ar.valid = append(ar.valid, *obj.Input)
			ar.strs = append(ar.strs, *obj.Input)
		case obj.Input != nil && obj.How != nil && *obj.How == "must-reject":
			ar.reject = append(ar.reject, *obj.Input)
			ar.strs = append(ar.strs, *obj.Input)
		case obj.Input != nil:
			ar.strs = append(ar.strs, *obj.Input)
			if obj.With != nil {
				ar.strs = append(ar.strs, *obj.With)
			}
		case obj.How != nil:
			ar.fromHow(*obj.How)
		}
	}
	if len(ar.strs)+len(ar.makes) == 0 {
		replayMissing(cfg, rep, "addr")
		return nil
	}
	return ar
}

func init() {
	lanes["addr"] = func(cfg *Config, rep *Report) {
		rep.Rule = "address strings from a field-wise grammar (type prefix x scheme x userinfo x host x path x sub-path x query x fragment, incl. upper case, ports, escapes, non-ASCII), whole-string shapes (github/gitlab shorthand, registry, local, final registry), 12% character mutations; a separate stream of documented-valid remote addresses (must be accepted); (type, URL, sub-path) triples for MakeRemoteSource, 15% of them with the scheme set directly on the URL value (upper/lower ASCII mixes and spellings with U+017F / U+212A, which simple case folding maps to s / k), source types and query keys in case-folding spellings (dotless / dotted i, long s, Kelvin sign), a fixed corpus of those; strings and constructor sub-paths with bytes that are not valid UTF-8 (oracle only: outside the model; an accepted one must resolve ./child by the segment stack); derived values (relative resolution, FinalSourceAddr, Versioned, SourceAddr). non-trivial = accepted, or rejected after the URL was parsed; distinct by string"
		r := NewRng(cfg.Seed)
		var inputs []string
		seen := map[string]bool{}
		// exact replay (-case): the recorded strings come first in every phase; values derived from them
		// take every derived route (no random choice), and no random draw is spent on them, so that the
		// ordinary cases are the ones the seed gives without a replay
		ar := loadAddrReplay(cfg, rep)
		forced := map[string]bool{}
		nReplay := 0
		if ar != nil {
			for _, s := range ar.strs {
				forced[s] = true
				if !seen[s] {
					seen[s] = true
					inputs = append(inputs, s)
				}
			}
			nReplay = len(inputs)
		}
		// corpus first: witnesses of the recorded findings and past disagreements
		for _, s := range []string{"git::https://example.com/foo.git//dir with space", "git::https://example.com/a%2Fb.git//sub", "git::https://h/x.git//sub#frag",
			"git::https://h/x.git#frag", "https://h/dl/?archive=tgz", "example.com/foo/bar/baz//@sub", "git::https://h/a b.git", "./a", "../", "https://example.com/foo.tar.gz?checksum=",
			"https://example.com/foo.tar.gz?checksum=&checksum=sha256:x", "git::https://user@example.com/x.git", "GIT::HTTPS://example.com/x.git?ref=a&ref=b",
			"https://example.com/pkg?src-archive=tar.gz&archive=tar.gz", "https://example.com/dl//m?from=/dl/pkg?archive=tar.gz&archive=tar.gz",
			"foo/bar/baz@1.0.0-RC1", "example.com/foo/bar/baz@2.0.0-Beta.2+Build.7//beep"} {
			seen[s] = true
			inputs = append(inputs, s)
		}
		for i := 0; i < cfg.N; i++ {
			s := genAddr(r)
			if !seen[s] {
				seen[s] = true
				inputs = append(inputs, s)
			}
		}
		var valid []string
		nReplayValid := 0
		if ar != nil {
			valid = append(valid, ar.valid...)
			nReplayValid = len(valid)
		}
		for i := 0; i < cfg.N/10; i++ {
			s := genValidRemote(r)
			valid = append(valid, s)
			if !seen[s] {
				seen[s] = true
				inputs = append(inputs, s)
			}
		}
		// remote addresses with one rule broken in the sub-path portion (must be refused by every route)
		var reject []string
		nReplayReject := 0
		if ar != nil {
			reject = append(reject, ar.reject...)
			nReplayReject = len(reject)
		}
		reject = append(reject, "git::https://example.com/repo.git//modules//vpc", "git::https://example.com/repo.git///modules", "git::https://example.com/repo.git//modules//",
			"git::https://example.com/repo.git//..//vpc", "github.com/org/repo//modules//vpc", "https://example.com/pkg//modules//vpc?archive=tgz")
		for i := 0; i < cfg.N/12; i++ {
			reject = append(reject, genMustRejectRemote(r))
		}
		for _, s := range reject {
			if !seen[s] {
				seen[s] = true
				inputs = append(inputs, s)
			}
		}
		// ---- phase 1: the model's front end tells which string goes to url.Parse ----
		var req1 []string
		for _, s := range inputs {
			req1 = append(req1, "remote front "+X(s))
		}
		fronts, err := RunDriver(cfg.Driver, req1)
		if err != nil {
			rep.Broken = append(rep.Broken, "driver: "+err.Error())
			return
		}
		var reqs, impl []string
		var human []interface{}
		type printed struct {
			v    sourceaddrs.RemoteSource
			from string
		}
		byString := map[string][]printed{}
		if nReplay > 0 {
			rep.BeginReplay()
		}
		for i, s := range inputs {
			if i == nReplay && nReplay > 0 {
				rep.EndReplay(reqs...)
			}
			real, rerr := parseRemoteSafe(rep, s)
			f := strings.Split(fronts[i], " ")
			switch f[0] {
			case "not-utf8":
				continue
			case "error":
				reqs = append(reqs, req1[i])
				impl = append(impl, map[bool]string{true: "error", false: "front-accepts"}[rerr != nil])
				human = append(human, s)
			case "url":
				raw, _ := UnX(f[2])
				u, perr := url.Parse(raw)
				reqs = append(reqs, "remote parse "+f[1]+" "+f[3]+" "+encURLRec(u, perr))
				impl = append(impl, encRemoteImpl(real, rerr))
				human = append(human, s)
			}
			rep.Case(s, rerr == nil || f[0] == "url", map[string]interface{}{"input": s, "accepted": rerr == nil})
			if rerr != nil {
				rep.Count("remote:rejected")
				continue
			}
			rep.Count("remote:accepted")
			for _, v := range policyViolations(real) {
				rep.AddOracle(OracleFailure{Property: "C07", Lane: "addr", What: "accepted address violates the transport policy: " + v, Input: s, ReqIdx: len(reqs)})
			}
			byString[real.String()] = append(byString[real.String()], printed{real, s})
			checkRoundTripRemote(rep, real, "ParseRemoteSource("+fmt.Sprintf("%q", s)+")", len(reqs), addrFrom{s: s})
		}
		if nReplay > 0 && nReplay >= len(inputs) {
			rep.EndReplay(reqs...)
		}
		// equal exactly when they print the same
		for str, vals := range byString {
			for _, pv := range vals[1:] {
				if v := pv.v; v != vals[0].v {
					sig := isKnownC06(v)
					if sig == "" {
						sig = isKnownC06(vals[0].v)
					}
					both := forced[pv.from] && forced[vals[0].from]
					if both {
						rep.BeginReplay()
					}
					rep.AddOracle(OracleFailure{Property: "C06", Lane: "addr", What: "two unequal remote addresses print the same: " + str, Input: mkAddrIn("print-collision: "+str, vals[0].from, nil, pv.from, ""), Signature: sig})
					if both {
						rep.EndReplay()
					}
				}
			}
		}
		// documented-valid addresses must be accepted (C07 completeness)
		for i, s := range valid {
			if i < nReplayValid {
				rep.BeginReplay()
			}
			if _, err := sourceaddrs.ParseSource(s); err != nil {
				rep.AddOracle(OracleFailure{Property: "C07", Lane: "addr", What: fmt.Sprintf("documented-valid address rejected: %v", err), Input: addrIn{How: "valid-grammar", Input: s}})
			}
			if i < nReplayValid {
				rep.EndReplay()
			}
			rep.Count("valid-grammar")
		}
		// the must-reject class (C07: an accepted address has a sub-path without empty, '.' or '..' segments)
		rejSeen := map[string]bool{}
		for i, s := range reject {
			if rejSeen[s] {
				continue
			}
			rejSeen[s] = true
			if i < nReplayReject {
				rep.BeginReplay()
			}
			checkMustReject(rep, s)
			if i < nReplayReject {
				rep.EndReplay()
			}
			rep.Count("must-reject:sub-path-portion")
		}
		// ---- MakeRemoteSource(type, URL, sub-path) ----
		// (type, URL, sub-path, scheme): a non-empty scheme is set directly on the url.URL value after
		// url.Parse - only a caller that assembles the URL can hand over a scheme url.Parse would refuse
		// or lower-case (upper case, characters that simple case folding maps to ASCII letters; seed C07-g)
		makeCorpus := [][4]string{{"git", "https://h/a//b.tgz", "", ""}, {"https", "https://h/foo.tar.gz?x=%zz", "", ""}, {"git", "https://user:pw@example.com/x.git", "", ""}, {"https", "https://example.com/x.tgz?checksum=", "", ""}}
		for _, sc := range mkFoldSchemes {
			makeCorpus = append(makeCorpus, [4]string{"git", "https://example.com/org/repo.git", "", sc}, [4]string{"https", "https://example.com/org/repo.tar.gz", "", sc})
		}
		for _, ty := range mkFoldTypes {
			makeCorpus = append(makeCorpus, [4]string{ty, "https://example.com/org/repo.git", "", ""}, [4]string{ty, "https://example.com/org/repo.tgz", "m", "https"})
		}
		for _, q := range mkFoldQueries {
			makeCorpus = append(makeCorpus, [4]string{"git", "https://example.com/org/repo.git" + q, "", ""}, [4]string{"https", "https://example.com/org/repo.tgz" + q, "", ""})
		}
		// sub-paths that are not valid UTF-8 (oracle only)
		makeCorpus = append(makeCorpus, [4]string{"git", "https://example.com/org/repo.git", "caf\xe9", ""}, [4]string{"https", "https://example.com/org/repo.tgz", "mod\xff/x", ""},
			[4]string{"git", "ssh://example.com/org/repo.git", "a/\xc3", ""}, [4]string{"https", "https://example.com/dl?archive=tgz", "\xc0\xaf", ""})
		nReplayMake := 0
		if ar != nil {
			nReplayMake = len(ar.makes)
		}
		for i := -nReplayMake; i < cfg.N/4+len(makeCorpus); i++ {
			var ty, us, sub, scheme string
			if i < 0 {
				// replayed triples (no random draw is spent on them)
				t := ar.makes[i+nReplayMake]
				ty, us, sub, scheme = t[0], t[1], t[2], t[3]
				if i == -nReplayMake {
					rep.BeginReplay()
				}
			} else {
				if i == 0 && nReplayMake > 0 {
					rep.EndReplay(reqs...)
				}
				ty = r.Pick([]string{"git", "https", "http", "hg", "GIT", ""})
				us = strings.TrimRight(r.Pick(aSchemes), "")+r.Pick(aUsers)+r.Pick(aHosts)+r.Pick(aPaths)+r.Pick(aQueries)+r.Pick(aFrags)
				sub = strings.TrimPrefix(r.Pick(aSubs), "//")
				if i < len(makeCorpus) {
					ty, us, sub, scheme = makeCorpus[i][0], makeCorpus[i][1], makeCorpus[i][2], makeCorpus[i][3]
				} else {
					// a hand-assembled URL value: scheme spelled in a way url.Parse would not leave it, a
					// source type / query key in a case-folding spelling
					if r.Chance(15) {
						scheme = r.Pick(mkFoldSchemes)
					}
					if r.Chance(6) {
						ty = r.Pick(mkFoldTypes)
					}
					if r.Chance(6) && !strings.ContainsAny(us, "?#") {
						us += r.Pick(mkFoldQueries)
					}
				}
			}
			u, perr := url.Parse(us)
			if perr != nil {
				continue
			}
			in := map[string]string{"type": ty, "url": us, "sub": sub}
			how := fmt.Sprintf("MakeRemoteSource(%q,%q,%q)", ty, us, sub)
			if scheme != "" {
				u.Scheme = scheme
				in["scheme"] = scheme
				how = fmt.Sprintf("MakeRemoteSource(%q,%q with Scheme set to %q,%q)", ty, us, scheme, sub)
				rep.Count("make:scheme-set-on-url-value")
			}
			real, rerr := sourceaddrs.MakeRemoteSource(ty, u, sub)
			if utf8.ValidString(sub) {
				reqs = append(reqs, "remote make "+X(ty)+" "+X(sub)+" "+encURLRec(u, nil))
				impl = append(impl, encRemoteImpl(real, rerr))
				human = append(human, in)
			} else {
				// a sub-path that is not valid UTF-8 is outside the model's domain (oracle only): the
				// constructor must refuse it like every other non-local route (seed C11-g)
				rep.Count("outside-model:not-utf8")
				in["sub_hex"] = X(sub)
				if rerr == nil {
					checkNotUTF8Sub(rep, real, how, addrFrom{mk: in})
				}
			}
			rep.Case("make|"+ty+"|"+us+"|"+sub+"|"+scheme, rerr == nil, map[string]interface{}{"make": in, "accepted": rerr == nil})
			if rerr == nil {
				rep.Count("make:accepted")
				for _, v := range policyViolations(real) {
					rep.AddOracle(OracleFailure{Property: "C07", Lane: "addr", What: "MakeRemoteSource result violates the transport policy: " + v, Input: in, ReqIdx: len(reqs)})
				}
				checkRoundTripRemote(rep, real, how, len(reqs), addrFrom{mk: in})
			} else {
				rep.Count("make:rejected")
			}
		}
		if nReplayMake > 0 {
			rep.EndReplay(reqs...) // (also when the ordinary part of the loop is empty)
		}
		// ---- all kinds through ParseSource / ParseFinalSource + derived values ----
		var accepted []sourceaddrs.Source
		var acceptedFrom []string
		if nReplay > 0 {
			rep.BeginReplay()
		}
		s1 := len(reqs)
		for i, s := range inputs {
			if i == nReplay && nReplay > 0 {
				rep.EndReplay(reqs[s1:]...)
			}
			x, err := parseSourceSafe(rep, s)
			if err == nil {
				accepted = append(accepted, x)
				acceptedFrom = append(acceptedFrom, s)
				checkRoundTripSource(rep, x, fmt.Sprintf("ParseSource(%q)", s), addrFrom{s: s})
				checkNotUTF8Sub(rep, x, fmt.Sprintf("ParseSource(%q)", s), addrFrom{s: s})
			}
			y, err := parseFinalSafe(rep, s)
			if err == nil {
				checkRoundTripFinal(rep, y, fmt.Sprintf("ParseFinalSource(%q)", s), addrFrom{s: s})
				checkNotUTF8Sub(rep, y, fmt.Sprintf("ParseFinalSource(%q)", s), addrFrom{s: s})
				if rf, ok := y.(sourceaddrs.RegistrySourceFinal); ok {
					rep.Count("final-registry:version-text-checked")
					checkFinalVersionText(rep, "addr", "ParseFinalSource", s, rf, addrFrom{s: s}.in(fmt.Sprintf("ParseFinalSource(%q)", s)))
					if rf2, err := sourceaddrs.ParseFinalRegistrySource(s); err == nil {
						checkFinalVersionText(rep, "addr", "ParseFinalRegistrySource", s, rf2, addrFrom{s: s}.in(fmt.Sprintf("ParseFinalRegistrySource(%q)", s)))
					}
				}
			}
			if !utf8.ValidString(s) {
				// outside the model's domain: judged by the oracles only (the kind-specific parsers too)
				rep.Count("oracle-only:not-utf8-input")
				if v, err := sourceaddrs.ParseRemoteSource(s); err == nil {
					checkNotUTF8Sub(rep, v, fmt.Sprintf("ParseRemoteSource(%q)", s), addrFrom{s: s})
				}
				if v, err := sourceaddrs.ParseRegistrySource(s); err == nil {
					checkNotUTF8Sub(rep, v, fmt.Sprintf("ParseRegistrySource(%q)", s), addrFrom{s: s})
				}
				if v, err := sourceaddrs.ParseFinalRegistrySource(s); err == nil {
					checkNotUTF8Sub(rep, v, fmt.Sprintf("ParseFinalRegistrySource(%q)", s), addrFrom{s: s})
				}
			}
			// local sources against the model
			ls, lerr := sourceaddrs.ParseLocalSource(s)
			reqs = append(reqs, "addr parselocal "+X(s))
			if lerr != nil {
				impl = append(impl, "err")
			} else {
				impl = append(impl, X(ls.RelativePath()))
			}
			human = append(human, s)
			// sub-path helpers
			reqs = append(reqs, "addr normsub "+X(s))
			impl = append(impl, map[bool]string{true: "ok", false: "err"}[sourceaddrs.ValidSubPath(s)])
			human = append(human, s)
		}
		if nReplay > 0 && nReplay >= len(inputs) {
			rep.EndReplay(reqs[s1:]...)
		}
		rels := []string{"./", "../", "./x", "../x", "../../x", "./.hidden/y", "../.x", "./a/b", "../..", "./x y"}
		verPool := []string{"1.0.0", "2.1.0-beta1", "0.1.0+meta"}
		for ai, a := range accepted {
			af := acceptedFrom[ai]
			// values derived from a replayed string belong to the replayed case
			if forced[af] {
				rep.BeginReplay()
			}
			for _, rel := range rels {
				ls, err := sourceaddrs.ParseLocalSource(rel)
				if err != nil {
					continue
				}
				d, err := sourceaddrs.ResolveRelativeSource(a, ls)
				if err == nil {
					rep.Count("derived:resolve")
					checkRoundTripSource(rep, d, fmt.Sprintf("ResolveRelativeSource(%q, %q)", a.String(), rel), addrFrom{s: af})
				}
			}
			if rs, ok := a.(sourceaddrs.RegistrySource); ok {
				vers := verPool // a replayed string: every version, no random draw
				if !forced[af] {
					vers = []string{r.Pick(verPool)}
				}
				for _, ver := range vers {
					v := rs.Versioned(versions.MustParseVersion(ver))
					rep.Count("derived:versioned")
					checkRoundTripFinal(rep, v, "Versioned("+rs.String()+")", addrFrom{s: af, ver: ver})
				}
				for bi, b := range accepted {
					if rem, ok := b.(sourceaddrs.RemoteSource); ok {
						bf := acceptedFrom[bi]
						do := false
						if forced[af] || forced[bf] {
							do = forced[af] && forced[bf] // both replayed: always; one of them: left out
						} else {
							do = r.Chance(5)
						}
						if do {
							rep.Count("derived:finalsourceaddr")
							checkRoundTripRemote(rep, rs.FinalSourceAddr(rem), fmt.Sprintf("%q.FinalSourceAddr(%q)", rs.String(), rem.String()), 0, addrFrom{s: af, with: bf})
						}
					}
				}
			}
			if rem, ok := a.(sourceaddrs.RemoteSource); ok {
				for _, sp := range []string{"", "m", "m/n", "x y"} {
					rep.Count("derived:sourceaddr")
					checkRoundTripRemote(rep, rem.Package().SourceAddr(sp), fmt.Sprintf("%q.Package().SourceAddr(%q)", rem.String(), sp), 0, addrFrom{s: af})
				}
			}
			if forced[af] {
				rep.EndReplay()
			}
		}
		// model answers the normsub probe with the normalised value or err; compare only ok/err
		model, err := RunDriver(cfg.Driver, reqs)
		if err != nil {
			rep.Broken = append(rep.Broken, "driver: "+err.Error())
			return
		}
		for k := range rep.OracleFailures {
			f := &rep.OracleFailures[k]
			if f.ReqIdx > 0 && f.ReqIdx-1 < len(model) {
				// "not-utf8": the input is outside the model's domain (bytes that are not UTF-8 after
				// percent-decoding); the model has no opinion, the signature alone decides
				f.ModelAgrees = model[f.ReqIdx-1] == impl[f.ReqIdx-1] || model[f.ReqIdx-1] == "not-utf8"
			}
		}
		for i := range reqs {
			m := model[i]
			if strings.HasPrefix(reqs[i], "addr normsub ") && m != "err" && m != "not-utf8" {
				m = "ok"
			}
			if m == "not-utf8" {
				// the URL record contains bytes that are not UTF-8 after percent-decoding: outside the model's domain
				rep.Count("outside-model:not-utf8")
				continue
			}
			if m != impl[i] {
				rep.AddDiff(Diff{Lane: "addr", Req: reqs[i], Human: human[i], Impl: impl[i], Model: m})
			}
		}
	}
}

func parseRemoteSafe(rep *Report, s string) (r sourceaddrs.RemoteSource, err error) {
	defer func() {
		if x := recover(); x != nil {
			err = fmt.Errorf("panic: %v", x)
			rep.AddOracle(OracleFailure{Property: "C19", Lane: "addr", What: fmt.Sprintf("ParseRemoteSource panics: %v", x), Input: s})
		}
	}()
	return sourceaddrs.ParseRemoteSource(s)
}

func parseSourceSafe(rep *Report, s string) (r sourceaddrs.Source, err error) {
	defer func() {
		if x := recover(); x != nil {
			err = fmt.Errorf("panic: %v", x)
			rep.AddOracle(OracleFailure{Property: "C19", Lane: "addr", What: fmt.Sprintf("ParseSource panics: %v", x), Input: s})
		}
	}()
	return sourceaddrs.ParseSource(s)
}

func parseFinalSafe(rep *Report, s string) (r sourceaddrs.FinalSource, err error) {
	defer func() {
		if x := recover(); x != nil {
			err = fmt.Errorf("panic: %v", x)
			rep.AddOracle(OracleFailure{Property: "C19", Lane: "addr", What: fmt.Sprintf("ParseFinalSource panics: %v", x), Input: s})
		}
	}()
	return sourceaddrs.ParseFinalSource(s)
}

// F42's mechanism is white space at the edge of a stored component (a printer that adds white space
// of its own must not be excused by it)
func componentHasEdgeSpace(x interface{}) bool {
	edge := func(c string) bool { return strings.TrimSpace(c) != c }
	switch v := x.(type) {
	case sourceaddrs.LocalSource:
		return edge(v.RelativePath())
	case sourceaddrs.RegistrySource:
		return edge(v.SubPath())
	case sourceaddrs.RegistrySourceFinal:
		return edge(v.SubPath())
	case sourceaddrs.RemoteSource:
		u := v.Package().URL()
		return edge(v.SubPath()) || edge(u.Path) || edge(u.RawQuery) || edge(u.Fragment) || edge(u.Host)
	}
	return false
}

func checkRoundTripRemote(rep *Report, x sourceaddrs.RemoteSource, how string, reqIdx int, from addrFrom) {
	s := x.String()
	y, err := sourceaddrs.ParseSource(s)
	sig := isKnownC06(x)
	if sig == "addr.make-url-not-parser-canonical" && !strings.HasPrefix(how, "MakeRemoteSource") {
		// that finding is about URLs handed to the constructor; its predicate asks the implementation
		// itself whether the package re-parses, so on any other route it would excuse exactly the
		// failure under judgement (seed C06-e)
		sig = ""
	}
	if sig == "" && strings.TrimSpace(s) != s && componentHasEdgeSpace(x) {
		sig = "addr.edge-whitespace"
	}
	if err != nil {
		rep.AddOracle(OracleFailure{Property: "C06", Lane: "addr", What: fmt.Sprintf("%s prints as %q, which does not parse: %v", how, s, err), Input: from.in(how), Signature: sig, ReqIdx: reqIdx})
		return
	}
	if y != sourceaddrs.Source(x) {
		rep.AddOracle(OracleFailure{Property: "C06", Lane: "addr", What: fmt.Sprintf("%s prints as %q, which parses to a different value (printing %q)", how, s, y.String()), Input: from.in(how), Signature: sig, ReqIdx: reqIdx})
	}
}

// checkNotUTF8Sub: x was accepted. Every route that yields a remote / registry / final registry address
// refuses a sub-path that is not valid UTF-8 (the sub-path definition is io/fs.ValidPath); relative
// resolution relies on that - its escape test is the same predicate, so from a base that carries such
// bytes every resolution is reported as climbing out of the package. Where such a base is accepted the
// segment stack applies as for any other base (C11; seed C11-g). Strings of this kind are outside the
// model's domain (Lean strings are Unicode), so this oracle is the only judge.
func checkNotUTF8Sub(rep *Report, x interface{}, how string, from addrFrom) {
	var sub string
	var asSource sourceaddrs.Source
	var asFinal sourceaddrs.FinalSource
	switch v := x.(type) {
	case sourceaddrs.RemoteSource:
		sub, asSource = v.SubPath(), v
	case sourceaddrs.RegistrySource:
		sub, asSource = v.SubPath(), v
	case sourceaddrs.RegistrySourceFinal:
		sub, asFinal = v.SubPath(), v
	default:
		return
	}
	if utf8.ValidString(sub) {
		return
	}
	rep.Count("accepted:sub-path-not-utf8")
	for _, rel := range []string{"./child", "../sibling", "./"} {
		loc, err := sourceaddrs.ParseLocalSource(rel)
		if err != nil {
			continue
		}
		want, ok := refApply(sub, rel)
		var gotSub string
		var rerr error
		if asFinal != nil {
			var res sourceaddrs.FinalSource
			res, rerr = sourceaddrs.ResolveRelativeFinalSource(asFinal, loc)
			if rf, isf := res.(sourceaddrs.RegistrySourceFinal); rerr == nil && isf {
				gotSub = rf.SubPath()
			}
		} else {
			var res sourceaddrs.Source
			res, rerr = sourceaddrs.ResolveRelativeSource(asSource, loc)
			switch rv := res.(type) {
			case sourceaddrs.RemoteSource:
				gotSub = rv.SubPath()
			case sourceaddrs.RegistrySource:
				gotSub = rv.SubPath()
			}
		}
		switch {
		case ok && rerr != nil:
			rep.AddOracle(OracleFailure{Property: "C11", Lane: "addr", What: fmt.Sprintf("%s is accepted with the sub-path %q, which is not valid UTF-8; resolving %s from it fails (%v) although the segment stack gives %q, inside the package", how, sub, rel, rerr, want), Input: from.in(how)})
			return
		case ok && gotSub != want:
			rep.AddOracle(OracleFailure{Property: "C11", Lane: "addr", What: fmt.Sprintf("%s is accepted with the sub-path %q, which is not valid UTF-8; resolving %s from it gives sub-path %q, the segment stack says %q", how, sub, rel, gotSub, want), Input: from.in(how)})
			return
		}
	}
}

// SourceFilename / FinalSourceFilename: the last segment of the sub-path or local path ("." for none)
func lastSeg(p string) string {
	p = strings.TrimRight(p, "/")
	if p == "" {
		return "."
	}
	if i := strings.LastIndex(p, "/"); i >= 0 {
		return p[i+1:]
	}
	return p
}

func checkFilename(rep *Report, x interface{}, how string, from addrFrom) {
	defer func() {
		if r := recover(); r != nil {
			rep.AddOracle(OracleFailure{Property: "C19", Lane: "addr", What: fmt.Sprintf("SourceFilename/FinalSourceFilename panics on %s: %v", how, r), Input: from.in(how)})
		}
	}()
	var got, part string
	switch v := x.(type) {
	case sourceaddrs.LocalSource:
		got, part = sourceaddrs.SourceFilename(v), v.RelativePath()
		if g2 := sourceaddrs.FinalSourceFilename(v); g2 != got {
			got = got + "|" + g2
		}
	case sourceaddrs.RemoteSource:
		got, part = sourceaddrs.SourceFilename(v), v.SubPath()
		if g2 := sourceaddrs.FinalSourceFilename(v); g2 != got {
			got = got + "|" + g2
		}
	case sourceaddrs.RegistrySource:
		got, part = sourceaddrs.SourceFilename(v), v.SubPath()
	case sourceaddrs.RegistrySourceFinal:
		got, part = sourceaddrs.FinalSourceFilename(v), v.SubPath()
	default:
		return
	}
	want := lastSeg(part)
	if part == "./" || part == "../" {
		want = strings.TrimSuffix(part, "/")
	}
	if got != want {
		rep.AddOracle(OracleFailure{Property: "C11", Lane: "addr", What: fmt.Sprintf("file name of %s is %q, the last segment of %q is %q", how, got, part, want), Input: from.in(how)})
	}
}

func checkRoundTripSource(rep *Report, x sourceaddrs.Source, how string, from addrFrom) {
	checkFilename(rep, x, how, from)
	if r, ok := x.(sourceaddrs.RemoteSource); ok {
		checkRoundTripRemote(rep, r, how, 0, from)
		return
	}
	s := x.String()
	sig := ""
	if rs, ok := x.(sourceaddrs.RegistrySource); ok && strings.TrimSpace(rs.SubPath()) != rs.SubPath() {
		// a registry sub-path is printed raw; leading/trailing white space does not survive the parser's trim check
		sig = "addr.subpath-needs-escaping"
	} else if strings.TrimSpace(s) != s && componentHasEdgeSpace(x) {
		// the kind-specific parsers, relative resolution and the constructor do not look at edge white
		// space; ParseSource refuses a string that has any
		sig = "addr.edge-whitespace"
	}
	y, err := sourceaddrs.ParseSource(s)
	if err != nil {
		rep.AddOracle(OracleFailure{Property: "C06", Lane: "addr", What: fmt.Sprintf("%s prints as %q, which does not parse: %v", how, s, err), Input: from.in(how), Signature: sig})
		return
	}
	if y != x {
		rep.AddOracle(OracleFailure{Property: "C06", Lane: "addr", What: fmt.Sprintf("%s prints as %q, which parses to a different value", how, s), Input: from.in(how), Signature: sig})
	}
}

func checkRoundTripFinal(rep *Report, x sourceaddrs.FinalSource, how string, from addrFrom) {
	checkFilename(rep, x, how, from)
	if r, ok := x.(sourceaddrs.RemoteSource); ok {
		checkRoundTripRemote(rep, r, how, 0, from)
		return
	}
	s := x.String()
	sig := ""
	if rf, ok := x.(sourceaddrs.RegistrySourceFinal); ok && strings.ContainsAny(rf.SubPath(), "@\n") {
		// the final-registry pattern `^(.+)@([^/]+)(//(.+))?$` is greedy and '.' does not match a newline
		sig = "addr.final-registry-subpath-special"
	}
	y, err := sourceaddrs.ParseFinalSource(s)
	if err != nil {
		rep.AddOracle(OracleFailure{Property: "C06", Lane: "addr", What: fmt.Sprintf("%s prints as %q, which does not parse as a final source: %v", how, s, err), Input: from.in(how), Signature: sig})
		return
	}
	if y != x {
		rep.AddOracle(OracleFailure{Property: "C06", Lane: "addr", What: fmt.Sprintf("%s prints as %q, which parses to a different final source", how, s), Input: from.in(how), Signature: sig})
	}
}
