package main

import (
	"io/fs"
	"path"
	"path/filepath"
	"strings"
)

// paths lane: validates the Lean models of the Go standard-library path functions.

var pathSegs = []string{"a", "b", "c", ".", "..", "", "ab", ".a", "..a", "a.", "é", " ", "a b"}

func genPath(r *Rng, maxSegs int) string {
	n := r.Intn(maxSegs + 1)
	segs := make([]string, n)
	for i := range segs {
		segs[i] = r.Pick(pathSegs)
	}
	s := strings.Join(segs, "/")
	if r.Chance(25) {
		s = "/" + s
	}
	if r.Chance(10) {
		s += "/"
	}
	return s
}

func init() {
	lanes["paths"] = func(cfg *Config, rep *Report) {
		rep.Rule = "random '/'-joined paths over segments {a,b,c,.,..,'',ab,.a,..a,a.,é,' ','a b'} (≤6 segments, optional leading/trailing slash), applied to path.Clean/Join/Dir/Base, filepath.Rel/IsLocal, fs.ValidPath, strings.TrimSpace/Split; non-trivial = contains '.', '..' or an empty segment; distinct by (function, arguments)"
		r := NewRng(cfg.Seed)
		var reqs, impl []string
		var human []interface{}
		add := func(fn string, args []string, res string) {
			line := "paths " + fn
			for _, a := range args {
				line += " " + X(a)
			}
			reqs = append(reqs, line)
			impl = append(impl, res)
			human = append(human, map[string]interface{}{"fn": fn, "args": args})
			nt := false
			for _, a := range args {
				if strings.Contains(a, ".") || strings.Contains(a, "//") || strings.HasSuffix(a, "/") {
					nt = true
				}
			}
			rep.Case(line, nt, map[string]interface{}{"fn": fn, "args": args, "result": res})
			rep.Count("fn:" + fn)
		}
		// exact replay (-case): the recorded call {"fn": ..., "args": [...]} goes first
		{
			var rin struct {
				Fn   string   `json:"fn"`
				Args []string `json:"args"`
			}
			arg := func(i int) string {
				if i < len(rin.Args) {
					return rin.Args[i]
				}
				return ""
			}
			if loadReplayInput(cfg, "paths", &rin) && rin.Fn != "" {
				rep.BeginReplay()
				a, b, c := arg(0), arg(1), arg(2)
				switch rin.Fn {
				case "clean":
					add("clean", []string{a}, X(path.Clean(a)))
				case "join":
					add("join", []string{a, b}, X(path.Join(a, b)))
				case "join3":
					add("join3", []string{a, b, c}, X(path.Join(a, b, c)))
				case "dir":
					add("dir", []string{a}, X(path.Dir(a)))
				case "base":
					add("base", []string{a}, X(path.Base(a)))
				case "validpath":
					add("validpath", []string{a}, B(fs.ValidPath(a)))
				case "islocal":
					add("islocal", []string{a}, B(filepath.IsLocal(a)))
				case "rel":
					if rel, err := filepath.Rel(a, b); err != nil {
						add("rel", []string{a, b}, "err")
					} else {
						add("rel", []string{a, b}, X(rel))
					}
				case "trimspace":
					add("trimspace", []string{a}, X(strings.TrimSpace(a)))
				case "split":
					parts := strings.Split(a, "/")
					enc := make([]string, len(parts))
					for i, p := range parts {
						enc[i] = X(p)
					}
					add("split", []string{a}, strings.Join(enc, ","))
				default:
					rep.Replayed.Note = "unknown function " + rin.Fn
				}
				rep.EndReplay(reqs...)
			} else {
				replayMissing(cfg, rep, "paths")
			}
		}
		for i := 0; i < cfg.N; i++ {
			a := genPath(r, 6)
			b := genPath(r, 6)
			c := genPath(r, 3)
			add("clean", []string{a}, X(path.Clean(a)))
			add("join", []string{a, b}, X(path.Join(a, b)))
			add("join3", []string{a, b, c}, X(path.Join(a, b, c)))
			add("dir", []string{a}, X(path.Dir(a)))
			add("base", []string{a}, X(path.Base(a)))
			add("validpath", []string{a}, B(fs.ValidPath(a)))
			add("islocal", []string{a}, B(filepath.IsLocal(a)))
			if rel, err := filepath.Rel(a, b); err != nil {
				add("rel", []string{a, b}, "err")
			} else {
				add("rel", []string{a, b}, X(rel))
			}
			sp := r.Pick([]string{"", " ", "\t", "\n", " ", " ", "x"}) + a + r.Pick([]string{"", " ", "\r", "　", "\u0085"})
			add("trimspace", []string{sp}, X(strings.TrimSpace(sp)))
			parts := strings.Split(a, "/")
			enc := make([]string, len(parts))
			for i, p := range parts {
				enc[i] = X(p)
			}
			add("split", []string{a}, strings.Join(enc, ","))
		}
		rep.Compare(cfg.Driver, reqs, impl, human)
	}
}
