// Correspondence harness for the Lean model of go-slug (see /verif/DESIGN.md §5).
package main

import (
	"bufio"
	"crypto/sha256"
	"encoding/hex"
	"encoding/json"
	"fmt"
	"io"
	"os"
	"os/exec"
	"sort"
	"strings"
	"sync"
)

// ---------- deterministic PRNG (splitmix64) ----------

type Rng struct{ s uint64 }

func NewRng(seed uint64) *Rng {
	// scramble the seed so that consecutive seeds give unrelated streams
	z := seed + 0x9E3779B97F4A7C15
	z = (z ^ (z >> 30)) * 0xBF58476D1CE4E5B9
	z = (z ^ (z >> 27)) * 0x94D049BB133111EB
	return &Rng{s: z ^ (z >> 31)}
}
func (r *Rng) Next() uint64 {
	r.s += 0x9E3779B97F4A7C15
	z := r.s
	z = (z ^ (z >> 30)) * 0xBF58476D1CE4E5B9
	z = (z ^ (z >> 27)) * 0x94D049BB133111EB
	return z ^ (z >> 31)
}
func (r *Rng) Intn(n int) int {
	if n <= 0 {
		return 0
	}
	return int(r.Next() % uint64(n))
}
func (r *Rng) Bool() bool          { return r.Next()&1 == 1 }
func (r *Rng) Chance(p int) bool   { return r.Intn(100) < p } // p percent
func (r *Rng) Pick(xs []string) string { return xs[r.Intn(len(xs))] }
func (r *Rng) Fork() *Rng          { return &Rng{s: r.Next()} }

// ---------- protocol encoding ----------

func X(s string) string { return "x" + hex.EncodeToString([]byte(s)) }
func UnX(s string) (string, bool) {
	if !strings.HasPrefix(s, "x") {
		return "", false
	}
	b, err := hex.DecodeString(s[1:])
	if err != nil {
		return "", false
	}
	return string(b), true
}
func B(b bool) string {
	if b {
		return "true"
	}
	return "false"
}

// ---------- driver client ----------

// RunDriver pipes all request lines to the Lean driver and returns its answers.
func RunDriver(driver string, reqs []string) ([]string, error) {
	cmd := exec.Command(driver)
	stdin, err := cmd.StdinPipe()
	if err != nil {
		return nil, err
	}
	stdout, err := cmd.StdoutPipe()
	if err != nil {
		return nil, err
	}
	cmd.Stderr = os.Stderr
	if err := cmd.Start(); err != nil {
		return nil, err
	}
	var wg sync.WaitGroup
	wg.Add(1)
	go func() {
		defer wg.Done()
		w := bufio.NewWriterSize(stdin, 1<<20)
		for _, r := range reqs {
			w.WriteString(r)
			w.WriteByte('\n')
		}
		w.Flush()
		stdin.Close()
	}()
	var out []string
	rd := bufio.NewReaderSize(stdout, 1<<20)
	for {
		line, err := rd.ReadString('\n')
		if len(line) > 0 {
			out = append(out, strings.TrimRight(line, "\n"))
		}
		if err == io.EOF {
			break
		}
		if err != nil {
			return nil, err
		}
	}
	wg.Wait()
	if err := cmd.Wait(); err != nil {
		return out, fmt.Errorf("driver exited: %w", err)
	}
	if len(out) != len(reqs) {
		return out, fmt.Errorf("driver answered %d lines for %d requests", len(out), len(reqs))
	}
	return out, nil
}

// ---------- report ----------

type Diff struct {
	Lane  string      `json:"lane"`
	Req   string      `json:"req"`
	Human interface{} `json:"human"`
	Impl  string      `json:"impl"`
	Model string      `json:"model"`
}

type OracleFailure struct {
	Property string      `json:"property"`
	Lane     string      `json:"lane"`
	What     string      `json:"what"`
	Input    interface{} `json:"input"`
	// Signature of a known-finding mechanism predicate ("" if none matches).
	Signature string `json:"signature"`
	// ModelAgrees: the model reproduces the real code's outcome on this input (set by Compare
	// for failures that carry the request index in ReqIdx; -1 = not compared).
	ModelAgrees bool `json:"model_agrees"`
	ReqIdx      int  `json:"req_idx"`
}

type Report struct {
	Lane               string         `json:"lane"`
	Seed               uint64         `json:"seed"`
	Evaluations        int            `json:"evaluations"`
	DistinctNontrivial int            `json:"distinct_nontrivial"`
	Rule               string         `json:"rule"`
	Samples            []interface{}  `json:"samples"`
	Distribution       map[string]int `json:"distribution"`
	Diffs              []Diff         `json:"diffs"`
	DiffCount          int            `json:"diff_count"`
	OracleFailures     []OracleFailure `json:"oracle_failures"`
	OracleFailCount    int            `json:"oracle_fail_count"`
	OracleBySig        map[string]int `json:"oracle_by_signature"`
	Broken             []string       `json:"broken"` // machinery problems (CHECK-BROKEN)
	Exhaustive         bool           `json:"exhaustive"`

	seen map[[32]byte]bool
	mu   sync.Mutex
}

func NewReport(lane string, seed uint64) *Report {
	return &Report{Lane: lane, Seed: seed, Distribution: map[string]int{}, seen: map[[32]byte]bool{}, Diffs: []Diff{}, OracleFailures: []OracleFailure{}, Broken: []string{}, Samples: []interface{}{}}
}

func (r *Report) Count(key string) {
	r.mu.Lock()
	r.Distribution[key]++
	r.mu.Unlock()
}

// Case registers one evaluated case; nontrivial says whether it exercises a listed feature.
func (r *Report) Case(canon string, nontrivial bool, sample interface{}) {
	r.mu.Lock()
	defer r.mu.Unlock()
	r.Evaluations++
	h := sha256.Sum256([]byte(canon))
	if !r.seen[h] {
		r.seen[h] = true
		if nontrivial {
			r.DistinctNontrivial++
			if len(r.Samples) < 8 && sample != nil {
				r.Samples = append(r.Samples, sample)
			}
		}
	}
}

func (r *Report) AddDiff(d Diff) {
	r.mu.Lock()
	defer r.mu.Unlock()
	r.DiffCount++
	if len(r.Diffs) < 50 {
		r.Diffs = append(r.Diffs, d)
	}
}

func (r *Report) AddOracle(f OracleFailure) {
	r.mu.Lock()
	defer r.mu.Unlock()
	r.OracleFailCount++
	key := f.Property + "|" + f.Signature
	if r.OracleBySig == nil {
		r.OracleBySig = map[string]int{}
	}
	r.OracleBySig[key]++
	// keep every class visible: at most 25 stored per (property, signature)
	if r.OracleBySig[key] <= 25 {
		r.OracleFailures = append(r.OracleFailures, f)
	}
}

func (r *Report) Write(path string) error {
	keys := make([]string, 0, len(r.Distribution))
	for k := range r.Distribution {
		keys = append(keys, k)
	}
	sort.Strings(keys)
	b, err := json.MarshalIndent(r, "", " ")
	if err != nil {
		return err
	}
	if path == "" || path == "-" {
		_, err = os.Stdout.Write(append(b, '\n'))
		return err
	}
	return os.WriteFile(path, b, 0644)
}

// Compare sends the requests to the model and records differences.
// human[i] is a readable rendering of request i for reports.
func (r *Report) Compare(driver string, reqs, impl []string, human []interface{}) {
	if len(reqs) == 0 {
		return
	}
	model, err := RunDriver(driver, reqs)
	if err != nil {
		r.Broken = append(r.Broken, "driver: "+err.Error())
		return
	}
	r.mu.Lock()
	for k := range r.OracleFailures {
		f := &r.OracleFailures[k]
		if f.ReqIdx > 0 && f.ReqIdx-1 < len(model) {
			f.ModelAgrees = model[f.ReqIdx-1] == impl[f.ReqIdx-1]
		}
	}
	r.mu.Unlock()
	for i := range reqs {
		if model[i] != impl[i] {
			var h interface{}
			if i < len(human) {
				h = human[i]
			}
			r.AddDiff(Diff{Lane: r.Lane, Req: reqs[i], Human: h, Impl: impl[i], Model: model[i]})
		}
	}
}
