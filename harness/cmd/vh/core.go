// Correspondence harness for the Lean model of go-slug (see /verif/DESIGN.md §5).
package main

import (
	"time"
	"bufio"
	"crypto/sha256"
	"encoding/hex"
	"encoding/json"
	"fmt"
	"io"
	"os"
	"os/exec"
	"path/filepath"
	"sort"
	"strings"
	"sync"
)

// ---------- deterministic PRNG (splitmix64) ----------

type Rng struct{ s uint64 }

func NewRng(seed uint64) *Rng {
	// scramble the seed so that consecutive seeds give unrelated streams
	z := seed + 0x9E3779B97F4A7C15
	z = (z ^ (z >> 30)) * 0xBF58476D1CE4E5B9
	z = (z ^ (z >> 27)) * 0x94D049BB133111EB
	return &Rng{s: z ^ (z >> 31)}
}
func (r *Rng) Next() uint64 {
	r.s += 0x9E3779B97F4A7C15
	z := r.s
	z = (z ^ (z >> 30)) * 0xBF58476D1CE4E5B9
	z = (z ^ (z >> 27)) * 0x94D049BB133111EB
	return z ^ (z >> 31)
}
func (r *Rng) Intn(n int) int {
	if n <= 0 {
		return 0
	}
	return int(r.Next() % uint64(n))
}
func (r *Rng) Bool() bool          { return r.Next()&1 == 1 }
func (r *Rng) Chance(p int) bool   { return r.Intn(100) < p } // p percent
func (r *Rng) Pick(xs []string) string { return xs[r.Intn(len(xs))] }
func (r *Rng) Fork() *Rng          { return &Rng{s: r.Next()} }

// ---------- protocol encoding ----------

func X(s string) string { return "x" + hex.EncodeToString([]byte(s)) }
func UnX(s string) (string, bool) {
	if !strings.HasPrefix(s, "x") {
		return "", false
	}
	b, err := hex.DecodeString(s[1:])
	if err != nil {
		return "", false
	}
	return string(b), true
}
func B(b bool) string {
	if b {
		return "true"
	}
	return "false"
}

// ---------- driver client ----------

// RunDriver pipes all request lines to the Lean driver and returns its answers.
func RunDriver(driver string, reqs []string) ([]string, error) {
	cmd := exec.Command(driver)
	stdin, err := cmd.StdinPipe()
	if err != nil {
		return nil, err
	}
	stdout, err := cmd.StdoutPipe()
	if err != nil {
		return nil, err
	}
	cmd.Stderr = os.Stderr
	if err := cmd.Start(); err != nil {
		return nil, err
	}
	var wg sync.WaitGroup
	wg.Add(1)
	go func() {
		defer wg.Done()
		w := bufio.NewWriterSize(stdin, 1<<20)
		for _, r := range reqs {
			w.WriteString(r)
			w.WriteByte('\n')
		}
		w.Flush()
		stdin.Close()
	}()
	var out []string
	rd := bufio.NewReaderSize(stdout, 1<<20)
	for {
		line, err := rd.ReadString('\n')
		if len(line) > 0 {
			out = append(out, strings.TrimRight(line, "\n"))
		}
		if err == io.EOF {
			break
		}
		if err != nil {
			return nil, err
		}
	}
	wg.Wait()
	if err := cmd.Wait(); err != nil {
		return out, fmt.Errorf("driver exited: %w", err)
	}
	if len(out) != len(reqs) {
		return out, fmt.Errorf("driver answered %d lines for %d requests", len(out), len(reqs))
	}
	return out, nil
}

// ---------- report ----------

type Diff struct {
	Lane  string      `json:"lane"`
	Req   string      `json:"req"`
	Human interface{} `json:"human"`
	Impl  string      `json:"impl"`
	Model string      `json:"model"`
	// Replayed: the request belongs to the case given with -case (exact replay)
	Replayed bool `json:"replayed,omitempty"`
}

type OracleFailure struct {
	Property string      `json:"property"`
	Lane     string      `json:"lane"`
	What     string      `json:"what"`
	Input    interface{} `json:"input"`
	// Signature of a known-finding mechanism predicate ("" if none matches).
	Signature string `json:"signature"`
	// ModelAgrees: the model reproduces the real code's outcome on this input (set by Compare
	// for failures that carry the request index in ReqIdx; -1 = not compared).
	ModelAgrees bool `json:"model_agrees"`
	ReqIdx      int  `json:"req_idx"`
	// Replayed: recorded while the case given with -case was running (exact replay)
	Replayed bool `json:"replayed,omitempty"`
}

// ReplayedCase summarises what the case given with -case (a replay file of bin/check) did on this run.
type ReplayedCase struct {
	Ran bool `json:"ran"`
	// oracle failures of the replayed case for the property under check (-prop; all if none is given)
	OracleFailures int `json:"oracle_failures"`
	// ... and for other properties
	OracleFailuresOther int `json:"oracle_failures_other_properties"`
	// a model/implementation difference on one of the replayed case's requests
	Diff bool `json:"diff"`
	// why the case was not run (input missing / not of this lane's shape / refused as unsafe)
	Note string   `json:"note,omitempty"`
	What []string `json:"what,omitempty"`
}

type Report struct {
	Lane               string         `json:"lane"`
	Seed               uint64         `json:"seed"`
	Evaluations        int            `json:"evaluations"`
	DistinctNontrivial int            `json:"distinct_nontrivial"`
	Rule               string         `json:"rule"`
	Samples            []interface{}  `json:"samples"`
	Distribution       map[string]int `json:"distribution"`
	Diffs              []Diff         `json:"diffs"`
	DiffCount          int            `json:"diff_count"`
	OracleFailures     []OracleFailure `json:"oracle_failures"`
	OracleFailCount    int            `json:"oracle_fail_count"`
	OracleBySig        map[string]int `json:"oracle_by_signature"`
	Broken             []string       `json:"broken"` // machinery problems (CHECK-BROKEN)
	Exhaustive         bool           `json:"exhaustive"`
	Replayed           *ReplayedCase  `json:"replayed_case,omitempty"`

	seen       map[[32]byte]bool
	mu         sync.Mutex
	prop       string          // property under check (for ReplayedCase.OracleFailures)
	inReplay   bool            // the replayed case is running: oracle failures are its own
	replayReqs map[string]bool // request lines of the replayed case
}

func NewReport(lane string, seed uint64) *Report {
	return &Report{Lane: lane, Seed: seed, Distribution: map[string]int{}, seen: map[[32]byte]bool{}, Diffs: []Diff{}, OracleFailures: []OracleFailure{}, Broken: []string{}, Samples: []interface{}{}}
}

func (r *Report) Count(key string) {
	r.mu.Lock()
	r.Distribution[key]++
	r.mu.Unlock()
}

// Case registers one evaluated case; nontrivial says whether it exercises a listed feature.
func (r *Report) Case(canon string, nontrivial bool, sample interface{}) {
	r.mu.Lock()
	defer r.mu.Unlock()
	r.Evaluations++
	h := sha256.Sum256([]byte(canon))
	if !r.seen[h] {
		r.seen[h] = true
		if nontrivial {
			r.DistinctNontrivial++
			if len(r.Samples) < 8 && sample != nil {
				r.Samples = append(r.Samples, sample)
			}
		}
	}
}

func (r *Report) AddDiff(d Diff) {
	r.mu.Lock()
	defer r.mu.Unlock()
	r.DiffCount++
	if d.Replayed || r.replayReqs[d.Req] {
		d.Replayed = true
		if r.Replayed != nil {
			r.Replayed.Diff = true
		}
	}
	if len(r.Diffs) < 50 {
		r.Diffs = append(r.Diffs, d)
	}
}

func (r *Report) AddOracle(f OracleFailure) {
	r.mu.Lock()
	defer r.mu.Unlock()
	r.OracleFailCount++
	if r.inReplay && r.Replayed != nil {
		f.Replayed = true
		if r.prop == "" || f.Property == r.prop {
			r.Replayed.OracleFailures++
		} else {
			r.Replayed.OracleFailuresOther++
		}
		if len(r.Replayed.What) < 10 {
			r.Replayed.What = append(r.Replayed.What, f.Property+": "+f.What)
		}
	}
	key := f.Property + "|" + f.Signature
	if r.OracleBySig == nil {
		r.OracleBySig = map[string]int{}
	}
	r.OracleBySig[key]++
	// keep every class visible: at most 25 stored per (property, signature)
	if r.OracleBySig[key] <= 25 {
		r.OracleFailures = append(r.OracleFailures, f)
	}
}

func (r *Report) Write(path string) error {
	keys := make([]string, 0, len(r.Distribution))
	for k := range r.Distribution {
		keys = append(keys, k)
	}
	sort.Strings(keys)
	b, err := json.MarshalIndent(r, "", " ")
	if err != nil {
		return err
	}
	if path == "" || path == "-" {
		_, err = os.Stdout.Write(append(b, '\n'))
		return err
	}
	return os.WriteFile(path, b, 0644)
}

// Compare sends the requests to the model and records differences.
// human[i] is a readable rendering of request i for reports.
func (r *Report) Compare(driver string, reqs, impl []string, human []interface{}) {
	if len(reqs) == 0 {
		return
	}
	model, err := RunDriver(driver, reqs)
	if err != nil {
		r.Broken = append(r.Broken, "driver: "+err.Error())
		return
	}
	r.mu.Lock()
	for k := range r.OracleFailures {
		f := &r.OracleFailures[k]
		if f.ReqIdx > 0 && f.ReqIdx-1 < len(model) {
			f.ModelAgrees = model[f.ReqIdx-1] == impl[f.ReqIdx-1]
		}
	}
	r.mu.Unlock()
	for i := range reqs {
		if model[i] != impl[i] {
			var h interface{}
			if i < len(human) {
				h = human[i]
			}
			r.AddDiff(Diff{Lane: r.Lane, Req: reqs[i], Human: h, Impl: impl[i], Model: model[i]})
		}
	}
}

// ---------- exact replay (-case <replay file of bin/check>) ----------

// BeginReplay: the case given with -case starts; it runs alone, before every other case of the lane,
// through the lane's ordinary run/compare/oracle path. Oracle failures recorded until EndReplay are its own.
func (r *Report) BeginReplay() {
	r.mu.Lock()
	if r.Replayed == nil {
		r.Replayed = &ReplayedCase{}
	}
	r.Replayed.Ran = true
	r.inReplay = true
	r.mu.Unlock()
}

// EndReplay: the replayed case is done; reqs are the model requests that belong to it (a difference
// on one of them is the replayed case's difference).
func (r *Report) EndReplay(reqs ...string) {
	r.mu.Lock()
	r.inReplay = false
	if r.replayReqs == nil {
		r.replayReqs = map[string]bool{}
	}
	for _, q := range reqs {
		if q != "" {
			r.replayReqs[q] = true
		}
	}
	r.mu.Unlock()
}

func (r *Report) IsReplayReq(line string) bool {
	r.mu.Lock()
	defer r.mu.Unlock()
	return r.replayReqs[line]
}

// ReplayNote records why the case file was not run on this lane.
func (r *Report) ReplayNote(note string) {
	r.mu.Lock()
	if r.Replayed == nil {
		r.Replayed = &ReplayedCase{}
	}
	r.Replayed.Note = note
	r.mu.Unlock()
	fmt.Fprintln(os.Stderr, "replay ("+r.Lane+"): "+note)
}

// loadReplayRaw finds the recorded input for the lane in the replay file given with -case:
// an oracle-failure file names its lane and carries "input"; a tie-broken file lists problems, and the
// input is the human rendering of the first difference of the first problem of this lane.
func loadReplayRaw(cfg *Config, lane string) (json.RawMessage, bool) {
	if cfg.CaseFile == "" || len(cfg.CaseData) == 0 {
		return nil, false
	}
	var f struct {
		Lane     string          `json:"lane"`
		Input    json.RawMessage `json:"input"`
		Problems []struct {
			Lane  string `json:"lane"`
			First []struct {
				Human json.RawMessage `json:"human"`
			} `json:"first"`
		} `json:"problems"`
	}
	if err := json.Unmarshal(cfg.CaseData, &f); err != nil {
		return nil, false
	}
	isNull := func(m json.RawMessage) bool { return len(m) == 0 || string(m) == "null" }
	if f.Lane == lane && !isNull(f.Input) {
		return f.Input, true
	}
	for _, p := range f.Problems {
		if p.Lane == lane && len(p.First) > 0 && !isNull(p.First[0].Human) {
			return p.First[0].Human, true
		}
	}
	return nil, false
}

// replayNamesLane: the replay file is about this lane (whether or not it carries a usable input)
func replayNamesLane(cfg *Config, lane string) bool {
	if cfg.CaseFile == "" || len(cfg.CaseData) == 0 {
		return false
	}
	var f struct {
		Lane     string `json:"lane"`
		Problems []struct {
			Lane string `json:"lane"`
		} `json:"problems"`
	}
	if json.Unmarshal(cfg.CaseData, &f) != nil {
		return false
	}
	if f.Lane == lane {
		return true
	}
	for _, p := range f.Problems {
		if p.Lane == lane {
			return true
		}
	}
	return false
}

// loadReplayInput: true iff -case is given, the file is about this lane and its input unmarshals into v.
func loadReplayInput(cfg *Config, lane string, v interface{}) bool {
	raw, ok := loadReplayRaw(cfg, lane)
	if !ok {
		return false
	}
	return json.Unmarshal(raw, v) == nil
}

// replayMissing notes, for a lane the replay file names, that no usable input was found in it.
func replayMissing(cfg *Config, rep *Report, lane string) {
	if replayNamesLane(cfg, lane) {
		rep.ReplayNote("the replay file names this lane but holds no input of the lane's case shape; only the ordinary run is made")
	}
}

// ---- safety of replayed cases: the harness may run as root and the code under test follows links on
// purpose, so a replayed case must not mention a real path ----

// rewriteArena replaces every absolute path prefix that looks like an arena of the lane (a clean
// absolute path whose last component is <letter><digits>, e.g. ".../u000123") by arena. The prefix may
// be embedded after a run of '..' ("../../tmp/w/u000000/p" -> "../.." + arena + "/p").
func rewriteArena(s string, letter byte, digits int, arena string) string {
	isArenaName := func(c string) bool {
		if len(c) != digits+1 || c[0] != letter {
			return false
		}
		for i := 1; i < len(c); i++ {
			if c[i] < '0' || c[i] > '9' {
				return false
			}
		}
		return true
	}
	comps := strings.Split(s, "/")
	for k := len(comps) - 1; k >= 1; k-- {
		if !isArenaName(comps[k]) {
			continue
		}
		// walk back over ordinary names: the arena path is absolute, so the run of names must be
		// preceded by an empty component (the leading '/') or, when embedded, by a '..'
		j := k - 1
		for j >= 0 && comps[j] != "" && comps[j] != "." && comps[j] != ".." {
			j--
		}
		if j < 0 || comps[j] == "." || (comps[j] == ".." && k-j < 2) {
			continue // a relative path that merely contains such a name
		}
		head := strings.Join(comps[:j+1], "/") // "../.." (embedded) ...
		if comps[j] == "" {
			head = strings.Join(comps[:j], "/") // ... or what precedes the '/' the arena path starts with
		}
		tail := ""
		if k+1 < len(comps) {
			tail = "/" + strings.Join(comps[k+1:], "/")
		}
		return rewriteArena(head, letter, digits, arena) + arena + tail
	}
	return s
}

func countDotDot(s string) int {
	n := 0
	for _, c := range strings.Split(s, "/") {
		if c == ".." {
			n++
		}
	}
	return n
}

// unsafeTarget: s is used as a link target or an allow-list entry. An absolute one must lie inside one of
// the scratch roots; a relative one may climb at most five levels (the arenas sit deeper than that
// below the scratch directory).
func unsafeTarget(s string, roots ...string) string {
	if countDotDot(s) > 5 {
		return fmt.Sprintf("%q climbs more than five levels", s)
	}
	if strings.HasPrefix(s, "/") {
		c := filepath.Clean(s)
		for _, r := range roots {
			if r != "" && r != "/" && within(r, c) {
				return ""
			}
		}
		return fmt.Sprintf("absolute path %q is not inside the scratch arena of the replayed case", s)
	}
	return ""
}

// unsafeRelName: s names something below a scratch directory (a tree node, an archive entry): after
// dropping leading slashes it must not begin with a name that exists in the real root directory when it
// was written as an absolute path, and must not climb more than five levels.
func unsafeRelName(s string, mayClimb bool) string {
	n := countDotDot(s)
	if n > 5 || (!mayClimb && n > 0) {
		return fmt.Sprintf("%q climbs out of its directory", s)
	}
	if strings.HasPrefix(s, "/") {
		if !mayClimb {
			return fmt.Sprintf("%q is absolute", s)
		}
		c := strings.Split(strings.TrimLeft(filepath.Clean(s), "/"), "/")[0]
		if c != "" {
			if _, err := os.Lstat("/" + c); err == nil {
				return fmt.Sprintf("absolute name %q begins with a real top-level directory", s)
			}
		}
	}
	return ""
}

// caseTimeout: how long one call of the code under test may take before it counts as a hang.  Generous on
// purpose: on a loaded machine (several checks at once) a healthy call was seen to need more than 20 s, which
// was reported as a timeout of the unchanged code (thorough tier, seed 1, three sweeps in parallel).
const caseTimeout = 90 * time.Second
