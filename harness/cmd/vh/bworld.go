package main

import (
	"encoding/json"
	"context"
	"fmt"
	"io/fs"
	"net/url"
	"os"
	"path/filepath"
	"sort"
	"strings"
	"sync"
	"time"

	"github.com/apparentlymart/go-versions/versions"
	"github.com/hashicorp/go-slug/sourceaddrs"
	"github.com/hashicorp/go-slug/sourcebundle"
	regaddr "github.com/hashicorp/terraform-registry-address"
)

// Scripted world for the source-bundle builder: what the fetcher, the registry client and the
// dependency finders answer. Mirrors the `World` of lean/SlugModel/Builder.lean.

type BPkg struct {
	Addr       string `json:"addr"`
	Content    string `json:"content"` // "" = the fetcher fails
	MetaCommit string `json:"meta_commit"`
	MetaMsg    string `json:"meta_msg"`
	HasMeta    bool   `json:"has_meta"`
	// Spelling: the package address is not parsed from Addr but BUILT with sourceaddrs.MakeRemoteSource
	// (source type SrcType) from url.Parse(Spelling), a non-canonical spelling of the URL (raw space, '|',
	// non-ASCII letter, unescaped quote). Addr is the printed (canonical) form: what the fetcher, the
	// tracer, the manifest and the model see.
	SrcType  string `json:"src_type,omitempty"`
	Spelling string `json:"spelling,omitempty"`
}

type BVer struct {
	Ver       string `json:"ver"`
	DepReason string `json:"dep_reason"`
	DepLink   string `json:"dep_link"`
	HasDep    bool   `json:"has_dep"`
}

type BReg struct {
	Addr     string `json:"addr"`
	Err      bool   `json:"err"`
	Versions []BVer `json:"versions"`
}

type BSrc struct {
	Reg string `json:"reg"`
	Ver string `json:"ver"`
	Err bool   `json:"err"`
	Pkg string `json:"pkg"`
	Sub string `json:"sub"`
}

type BDecl struct {
	Kind    string `json:"kind"` // r g l w e
	Pkg     string `json:"pkg,omitempty"`
	Sub     string `json:"sub,omitempty"`
	Allowed string `json:"allowed,omitempty"` // constraint in the small DSL of allowedSet
	Finder  int    `json:"finder"`
	Rel     string `json:"rel,omitempty"`
	Summary string `json:"summary,omitempty"`
	File    string `json:"file,omitempty"`
	// Canon (kind r, a package that carries a spelling): the finder reports the address PARSED from the printed
	// (percent-encoded) form, not built from the spelled URL
	Canon bool `json:"canon,omitempty"`
}

type BDep struct {
	Content string  `json:"content"`
	Sub     string  `json:"sub"`
	Finder  int     `json:"finder"`
	Decls   []BDecl `json:"decls"`
}

type BOp struct {
	Kind    string `json:"kind"` // ar ag af (af = AddFinalRegistrySource)
	Pkg     string `json:"pkg"`
	Sub     string `json:"sub"`
	Allowed string `json:"allowed,omitempty"`
	Finder  int    `json:"finder"`
	// Canon (kind ar, a package that carries a spelling): the address is PARSED from the printed
	// (percent-encoded) form, not built from the spelled URL: the same package reaches the builder in both
	// spellings (seed C13-h)
	Canon bool `json:"canon,omitempty"`
	// Text (kind af): the final registry source is PARSED from its text "pkg@version[//sub]"
	// (ParseFinalRegistrySource for finder 0, ParseFinalSource otherwise), not built with Versioned (seed C17-h)
	Text bool `json:"text,omitempty"`
}

type BWorld struct {
	Pkgs []BPkg `json:"pkgs"`
	Regs []BReg `json:"regs"`
	Srcs []BSrc `json:"srcs"`
	Deps []BDep `json:"deps"`
	// SharedDiags: the scripted finders keep ONE pair of SourceRange objects (Subject, Context) per
	// (finder, file name) and hand the same pointers out with every diagnostic about that file name,
	// whatever package is being analysed (a finder that reuses its diagnostics).
	SharedDiags bool `json:"shared_diags,omitempty"`
}

// oddRemote builds a remote source address from parts, the way a caller that derives addresses does.
func oddRemote(srcType, spelling, sub string) (sourceaddrs.RemoteSource, error) {
	u, err := url.Parse(spelling)
	if err != nil {
		return sourceaddrs.RemoteSource{}, err
	}
	if u.Host != "example.com" {
		return sourceaddrs.RemoteSource{}, fmt.Errorf("spelled package URL %q is not on example.com", spelling)
	}
	return sourceaddrs.MakeRemoteSource(srcType, u, sub)
}

// remote: the address value the lane uses for sub-path sub of world package pkg, wherever it adds,
// reports (finders, registry answers) or looks up a remote source: built from parts for packages that
// carry a spelling, parsed from the printed form otherwise.
func (w *BWorld) remote(pkg, sub string) sourceaddrs.RemoteSource {
	if w != nil {
		for i := range w.Pkgs {
			if p := &w.Pkgs[i]; p.Addr == pkg && p.Spelling != "" {
				s, err := oddRemote(p.SrcType, p.Spelling, sub)
				if err != nil {
					panic(fmt.Sprintf("harness: bad spelled package %q (%s): %v", p.Spelling, p.SrcType, err))
				}
				return s
			}
		}
	}
	return mustRemote(pkg, sub)
}

// remoteAs: remote(pkg, sub), or - canon - the value parsed from the printed form whatever the package's spelling
func (w *BWorld) remoteAs(pkg, sub string, canon bool) sourceaddrs.RemoteSource {
	if canon {
		return mustRemote(pkg, sub)
	}
	return w.remote(pkg, sub)
}

// finalText: the text of the final registry source of an af operation
func finalText(op BOp) string {
	s := op.Pkg + "@" + op.Allowed
	if op.Sub != "" {
		s += "//" + op.Sub
	}
	return s
}

// finalOf: the final registry source an af operation adds: built with Versioned, or parsed from its text
func finalOf(op BOp) sourceaddrs.RegistrySourceFinal {
	if !op.Text {
		return mustRegistry(op.Pkg, op.Sub).Versioned(versions.MustParseVersion(op.Allowed))
	}
	s := finalText(op)
	if op.Finder == 0 {
		f, err := sourceaddrs.ParseFinalRegistrySource(s)
		if err != nil {
			panic(fmt.Sprintf("final registry address %q does not parse: %v", s, err))
		}
		return f
	}
	f, err := sourceaddrs.ParseFinalSource(s)
	if err != nil {
		panic(fmt.Sprintf("final address %q does not parse: %v", s, err))
	}
	rf, ok := f.(sourceaddrs.RegistrySourceFinal)
	if !ok {
		panic(fmt.Sprintf("final address %q does not parse as a final registry source (%T)", s, f))
	}
	return rf
}

// allowedSet builds the versions.Set for the DSL: all | released | only:V | atleast:V | olderthan:V | range:A:B | sel:A+B
func allowedSet(dsl string) versions.Set {
	parts := strings.Split(dsl, ":")
	mv := func(s string) versions.Version { return versions.MustParseVersion(s) }
	switch parts[0] {
	case "all":
		return versions.All
	case "released":
		return versions.Released
	case "only":
		return versions.Only(mv(parts[1]))
	case "atleast":
		return versions.AtLeast(mv(parts[1]))
	case "olderthan":
		return versions.OlderThan(mv(parts[1]))
	case "range":
		return versions.Intersection(versions.AtLeast(mv(parts[1])), versions.OlderThan(mv(parts[2])))
	case "sel":
		var vs []versions.Version
		for _, s := range strings.Split(parts[1], "+") {
			vs = append(vs, mv(s))
		}
		return versions.Selection(vs...)
	}
	return versions.None
}

// versionUniverse: all version strings the world mentions for a registry package
func (w *BWorld) versionUniverse(reg string) []string {
	seen := map[string]bool{}
	var out []string
	for _, r := range w.Regs {
		if r.Addr == reg {
			for _, v := range r.Versions {
				if !seen[v.Ver] {
					seen[v.Ver] = true
					out = append(out, v.Ver)
				}
			}
		}
	}
	return out
}

func (w *BWorld) allowedList(reg, dsl string) string {
	set := allowedSet(dsl)
	var out []string
	for _, v := range w.versionUniverse(reg) {
		if set.Has(versions.MustParseVersion(v)) {
			out = append(out, X(v))
		}
	}
	if len(out) == 0 {
		return "-"
	}
	return strings.Join(out, "+")
}

// rank of a version string within the universe of its registry package (real library order)
func (w *BWorld) rank(reg, ver string) int {
	u := w.versionUniverse(reg)
	v := versions.MustParseVersion(ver)
	n := 0
	for _, o := range u {
		if versions.MustParseVersion(o).LessThan(v) {
			n++
		}
	}
	return n
}

func optPair(has bool, a, b string) string {
	if !has {
		return "-~-"
	}
	return X(a) + "~" + X(b)
}

func encDecl(w *BWorld, d BDecl) string {
	switch d.Kind {
	case "r":
		return fmt.Sprintf("r~%s~%s~%d", X(d.Pkg), X(d.Sub), d.Finder)
	case "g":
		return fmt.Sprintf("g~%s~%s~%s~%d", X(d.Pkg), X(d.Sub), w.allowedList(d.Pkg, d.Allowed), d.Finder)
	case "l":
		return fmt.Sprintf("l~%s~%d", X(d.Rel), d.Finder)
	case "w":
		return fmt.Sprintf("w~%s~%s", X(d.Summary), X(d.File))
	}
	return fmt.Sprintf("e~%s~%s", X(d.Summary), X(d.File))
}

func (w *BWorld) Encode() string {
	var items []string
	for _, p := range w.Pkgs {
		if p.Content == "" {
			items = append(items, fmt.Sprintf("P:%s:ERR:-:-", X(p.Addr)))
		} else if p.HasMeta {
			items = append(items, fmt.Sprintf("P:%s:%s:%s:%s", X(p.Addr), X(p.Content), X(p.MetaCommit), X(p.MetaMsg)))
		} else {
			items = append(items, fmt.Sprintf("P:%s:%s:-:-", X(p.Addr), X(p.Content)))
		}
	}
	for _, r := range w.Regs {
		if r.Err {
			items = append(items, fmt.Sprintf("R:%s:ERR", X(r.Addr)))
			continue
		}
		var vs []string
		for _, v := range r.Versions {
			vs = append(vs, fmt.Sprintf("%s~%d~%s", X(v.Ver), w.rank(r.Addr, v.Ver), optPair(v.HasDep, v.DepReason, v.DepLink)))
		}
		vv := "-"
		if len(vs) > 0 {
			vv = strings.Join(vs, "/")
		}
		items = append(items, fmt.Sprintf("R:%s:%s", X(r.Addr), vv))
	}
	for _, s := range w.Srcs {
		if s.Err {
			items = append(items, fmt.Sprintf("S:%s:%s:ERR:-", X(s.Reg), X(s.Ver)))
		} else {
			items = append(items, fmt.Sprintf("S:%s:%s:%s:%s", X(s.Reg), X(s.Ver), X(s.Pkg), X(s.Sub)))
		}
	}
	for _, d := range w.Deps {
		var ds []string
		for _, dc := range d.Decls {
			ds = append(ds, encDecl(w, dc))
		}
		dd := "-"
		if len(ds) > 0 {
			dd = strings.Join(ds, "/")
		}
		items = append(items, fmt.Sprintf("D:%s:%s:%d:%s", X(d.Content), X(d.Sub), d.Finder, dd))
	}
	if len(items) == 0 {
		return "-"
	}
	return strings.Join(items, ",")
}

func encOps(w *BWorld, ops []BOp) string {
	var out []string
	for _, o := range ops {
		switch o.Kind {
		case "ar":
			out = append(out, fmt.Sprintf("ar~%s~%s~%d", X(o.Pkg), X(o.Sub), o.Finder))
		case "ag":
			out = append(out, fmt.Sprintf("ag~%s~%s~%s~%d", X(o.Pkg), X(o.Sub), w.allowedList(o.Pkg, o.Allowed), o.Finder))
		case "af":
			// AddFinalRegistrySource = AddRegistrySource with Only(version)
			out = append(out, fmt.Sprintf("ag~%s~%s~%s~%d", X(o.Pkg), X(o.Sub), w.allowedList(o.Pkg, "only:"+o.Allowed), o.Finder))
		}
	}
	if len(out) == 0 {
		return "-"
	}
	return strings.Join(out, ";")
}

// ---------- scripted environment ----------

type bEnv struct {
	w       *BWorld
	mu      sync.Mutex
	log     []string
	lastPkg string
	// fault injection: fail the n-th call (1-based, counted over fetch/versions/source/finder calls); 0 = never
	failAt   int
	calls    int
	failedKeys map[string]bool
	analysed map[string]int
	finders  []*scriptFinder
	yield    bool
	noDiagCb bool // the tracer has no Diagnostics callback
	boundary func(when string) // called at every callback boundary (C12 crash points)
	// finder diagnostics: what each finder call returned (with the package under analysis) and what the
	// tracer's Diagnostics callback was given, for the C12 oracle of the builder lane
	finderDiags []finderDiagRec
	tracedDiags []deliveredDiag
	// fault "the target directory disappears": during the rmTargetAt-th callback (counted like failAt) the
	// directory rmTarget - the builder's target directory, inside the lane's scratch directory - is renamed
	// to rmTarget+".gone"; the callback itself answers normally. 0 = never.
	rmTargetAt int
	rmTarget   string
	rmDone     bool
}

type finderDiagRec struct {
	pkg, summary, file string
	isErr              bool
	finder             int
}

type deliveredDiag struct {
	summary, subject, context string
	hasSubject, hasContext    bool
	isErr                     bool
}

func deliveredOf(d sourcebundle.Diagnostic) deliveredDiag {
	r := deliveredDiag{summary: d.Description().Summary, isErr: d.Severity() == sourcebundle.DiagError}
	src := d.Source()
	if src.Subject != nil {
		r.hasSubject, r.subject = true, src.Subject.Filename
	}
	if src.Context != nil {
		r.hasContext, r.context = true, src.Context.Filename
	}
	return r
}

type scriptFinder struct {
	id  int
	env *bEnv
	// kept range objects per file name (worlds with SharedDiags)
	ranges map[string]*[2]sourcebundle.SourceRange
}

func newEnv(w *BWorld) *bEnv {
	e := &bEnv{w: w, analysed: map[string]int{}}
	for i := 0; i < 3; i++ {
		e.finders = append(e.finders, &scriptFinder{id: i, env: e})
	}
	return e
}

func (e *bEnv) ev(s string) {
	e.mu.Lock()
	e.log = append(e.log, s)
	e.mu.Unlock()
}

// tick counts a callback; key identifies what is asked. An injected fault is persistent for its
// key (asking the failed thing again fails again), like a world in which that answer is an error.
func (e *bEnv) tick(what string, key ...string) bool {
	e.mu.Lock()
	e.calls++
	fail := e.failAt != 0 && e.calls == e.failAt
	k := what + "|" + strings.Join(key, "|")
	if e.failedKeys == nil {
		e.failedKeys = map[string]bool{}
	}
	if fail && what != "finder" {
		e.failedKeys[k] = true
	}
	if e.failedKeys[k] {
		fail = true
	}
	if e.rmTargetAt != 0 && e.calls == e.rmTargetAt && e.rmTarget != "" && !e.rmDone {
		e.rmDone = true
		os.Rename(e.rmTarget, e.rmTarget+".gone")
	}
	e.mu.Unlock()
	if e.boundary != nil {
		e.boundary(what)
	}
	if e.yield {
		time.Sleep(time.Microsecond)
	}
	return fail
}

func (e *bEnv) FetchSourcePackage(ctx context.Context, sourceType string, u *url.URL, targetDir string) (sourcebundle.FetchSourcePackageResponse, error) {
	var resp sourcebundle.FetchSourcePackageResponse
	addr := u.String()
	if u.Scheme != sourceType {
		addr = sourceType + "::" + addr
	}
	e.ev("fc:" + X(addr))
	if e.yield {
		time.Sleep(2 * time.Millisecond) // a download takes time: overlapping Add calls meet it in flight
	}
	if e.tick("fetch", addr) {
		return resp, fmt.Errorf("injected fetch fault")
	}
	for _, p := range e.w.Pkgs {
		if p.Addr == addr {
			if p.Content == "" {
				return resp, fmt.Errorf("scripted fetch failure")
			}
			if err := writeContent(e.w, p.Content, targetDir); err != nil {
				return resp, err
			}
			if p.HasMeta {
				resp.PackageMeta = sourcebundle.PackageMetaWithGitMetadata(p.MetaCommit, p.MetaMsg)
			}
			return resp, nil
		}
	}
	return resp, fmt.Errorf("unknown package %s", addr)
}

var richContent = false

// writeContent materialises a package: a marker file with the content id and one directory per
// sub-path the world mentions for this content.
func writeContent(w *BWorld, content, dir string) error {
	if err := os.WriteFile(filepath.Join(dir, "content.id"), []byte(content), 0644); err != nil {
		return err
	}
	if richContent {
		// shapes that the re-open / archive round trip has to preserve
		os.MkdirAll(filepath.Join(dir, "emptydir"), 0750)
		os.MkdirAll(filepath.Join(dir, "k"), 0755)
		os.WriteFile(filepath.Join(dir, "k", "exec.sh"), []byte("#!/bin/sh\n"), 0755)
		os.WriteFile(filepath.Join(dir, "k", "secret"), []byte(content), 0600)
		os.Symlink("../m/main.tf", filepath.Join(dir, "k", "link"))
		// link targets that are not in cleaned form must come back as recorded (seed C09-e)
		os.Symlink("./exec.sh", filepath.Join(dir, "k", "link-dot"))
		os.Symlink("../k/../m/main.tf", filepath.Join(dir, "k", "link-detour"))
		os.WriteFile(filepath.Join(dir, "é x.tf"), []byte("é"), 0644)
		if len(content) > 0 && content[len(content)-1]%2 == 0 {
			// re-include a directory the built-in rules exclude
			os.WriteFile(filepath.Join(dir, ".terraformignore"), []byte("!.terraform/\n"), 0644)
			os.MkdirAll(filepath.Join(dir, ".terraform", "providers"), 0755)
			os.WriteFile(filepath.Join(dir, ".terraform", "providers", "p"), []byte("provider"), 0644)
			os.WriteFile(filepath.Join(dir, ".terraform", "lock.json"), []byte("{}"), 0644)
		}
	}
	for _, sub := range []string{"m", "m/n", "k", "m/n/o", "a", "a/b"} {
		d := filepath.Join(dir, filepath.FromSlash(sub))
		if err := os.MkdirAll(d, 0755); err != nil {
			return err
		}
		if err := os.WriteFile(filepath.Join(d, "main.tf"), []byte(content+"//"+sub), 0644); err != nil {
			return err
		}
	}
	return nil
}

func (e *bEnv) ModulePackageVersions(ctx context.Context, pkgAddr regaddr.ModulePackage) (sourcebundle.ModulePackageVersionsResponse, error) {
	var resp sourcebundle.ModulePackageVersionsResponse
	e.ev("vc:" + X(pkgAddr.String()))
	if e.tick("versions", pkgAddr.String()) {
		return resp, fmt.Errorf("injected registry fault")
	}
	for _, r := range e.w.Regs {
		if r.Addr == pkgAddr.String() {
			if r.Err {
				return resp, fmt.Errorf("scripted registry failure")
			}
			for _, v := range r.Versions {
				info := sourcebundle.ModulePackageInfo{Version: versions.MustParseVersion(v.Ver)}
				if v.HasDep {
					info.Deprecation = &sourcebundle.ModulePackageVersionDeprecation{Reason: v.DepReason, Link: v.DepLink}
				}
				resp.Versions = append(resp.Versions, info)
			}
			return resp, nil
		}
	}
	return resp, fmt.Errorf("unknown registry package")
}

func (e *bEnv) ModulePackageSourceAddr(ctx context.Context, pkgAddr regaddr.ModulePackage, version versions.Version) (sourcebundle.ModulePackageSourceAddrResponse, error) {
	var resp sourcebundle.ModulePackageSourceAddrResponse
	e.ev("sc:" + X(pkgAddr.String()) + ":" + X(version.String()))
	if e.tick("source", pkgAddr.String(), version.String()) {
		return resp, fmt.Errorf("injected registry fault")
	}
	for _, s := range e.w.Srcs {
		if s.Reg == pkgAddr.String() && s.Ver == version.String() {
			if s.Err {
				return resp, fmt.Errorf("scripted source failure")
			}
			resp.SourceAddr = e.w.remote(s.Pkg, s.Sub)
			return resp, nil
		}
	}
	return resp, fmt.Errorf("unknown version")
}

func mustRemote(pkg, sub string) sourceaddrs.RemoteSource {
	p, err := sourceaddrs.ParseRemotePackage(pkg)
	if err != nil {
		panic(fmt.Sprintf("harness: bad package %q: %v", pkg, err))
	}
	return p.SourceAddr(sub)
}

func mustRegistry(pkg, sub string) sourceaddrs.RegistrySource {
	s := pkg
	if sub != "" {
		s += "//" + sub
	}
	r, err := sourceaddrs.ParseRegistrySource(s)
	if err != nil {
		panic(fmt.Sprintf("harness: bad registry source %q: %v", s, err))
	}
	return r
}

type scriptDiag struct {
	sev     sourcebundle.DiagSeverity
	summary string
	file    string
}

func (d scriptDiag) Severity() sourcebundle.DiagSeverity { return d.sev }
func (d scriptDiag) Description() sourcebundle.DiagDescription {
	return sourcebundle.DiagDescription{Summary: d.summary, Detail: "scripted"}
}
func (d scriptDiag) Source() sourcebundle.DiagSource {
	return sourcebundle.DiagSource{Subject: &sourcebundle.SourceRange{Filename: d.file}}
}
func (d scriptDiag) ExtraInfo() interface{} { return nil }

// keptDiag: a diagnostic whose Source() hands out pointers to range objects the finder keeps
type keptDiag struct {
	sev     sourcebundle.DiagSeverity
	summary string
	rngs    *[2]sourcebundle.SourceRange
}

func (d keptDiag) Severity() sourcebundle.DiagSeverity { return d.sev }
func (d keptDiag) Description() sourcebundle.DiagDescription {
	return sourcebundle.DiagDescription{Summary: d.summary, Detail: "scripted"}
}
func (d keptDiag) Source() sourcebundle.DiagSource {
	return sourcebundle.DiagSource{Subject: &d.rngs[0], Context: &d.rngs[1]}
}
func (d keptDiag) ExtraInfo() interface{} { return nil }

// diag: the diagnostic a finder returns for a w/e declaration while analysing pkg
func (f *scriptFinder) diag(pkg string, sev sourcebundle.DiagSeverity, summary, file string) sourcebundle.Diagnostic {
	e := f.env
	e.mu.Lock()
	defer e.mu.Unlock()
	e.finderDiags = append(e.finderDiags, finderDiagRec{pkg: pkg, summary: summary, file: file, isErr: sev == sourcebundle.DiagError, finder: f.id})
	if !e.w.SharedDiags {
		return scriptDiag{sev: sev, summary: summary, file: file}
	}
	if f.ranges == nil {
		f.ranges = map[string]*[2]sourcebundle.SourceRange{}
	}
	rg, ok := f.ranges[file]
	if !ok {
		rg = &[2]sourcebundle.SourceRange{{Filename: file}, {Filename: file}}
		f.ranges[file] = rg
	}
	return keptDiag{sev: sev, summary: summary, rngs: rg}
}

func (f *scriptFinder) FindDependencies(fsys fs.FS, subPath string, deps *sourcebundle.Dependencies) sourcebundle.Diagnostics {
	e := f.env
	b, err := fs.ReadFile(fsys, "content.id")
	content := string(b)
	if err != nil {
		content = "?"
	}
	e.mu.Lock()
	pkg := e.lastPkg
	key := X(pkg) + ":" + X(subPath) + ":" + fmt.Sprint(f.id)
	e.analysed[key]++
	e.log = append(e.log, "an:"+key)
	e.mu.Unlock()
	if e.tick("finder") {
		return sourcebundle.Diagnostics{scriptDiag{sev: sourcebundle.DiagError, summary: "injected finder fault", file: ""}}
	}
	var diags sourcebundle.Diagnostics
	for _, d := range e.w.Deps {
		if d.Content == content && d.Sub == subPath && d.Finder == f.id {
			for _, dc := range d.Decls {
				switch dc.Kind {
				case "r":
					deps.AddRemoteSource(e.w.remoteAs(dc.Pkg, dc.Sub, dc.Canon), e.finders[dc.Finder])
				case "g":
					deps.AddRegistrySource(mustRegistry(dc.Pkg, dc.Sub), allowedSet(dc.Allowed), e.finders[dc.Finder])
				case "l":
					ls, err := sourceaddrs.ParseLocalSource(dc.Rel)
					if err != nil {
						panic("harness: bad local source " + dc.Rel)
					}
					deps.AddLocalSource(ls, e.finders[dc.Finder])
				case "w":
					diags = append(diags, f.diag(pkg, sourcebundle.DiagWarning, dc.Summary, dc.File))
				case "e":
					diags = append(diags, f.diag(pkg, sourcebundle.DiagError, dc.Summary, dc.File))
				}
			}
			break
		}
	}
	return diags
}

func (e *bEnv) tracer() *sourcebundle.BuildTracer {
	t := &sourcebundle.BuildTracer{
		RegistryPackageVersionsStart: func(ctx context.Context, p regaddr.ModulePackage) context.Context {
			e.ev("vs:" + X(p.String()))
			return ctx
		},
		RegistryPackageVersionsSuccess: func(ctx context.Context, p regaddr.ModulePackage, vs versions.List) { e.ev("vo:" + X(p.String())) },
		RegistryPackageVersionsFailure: func(ctx context.Context, p regaddr.ModulePackage, err error) { e.ev("vf:" + X(p.String())) },
		RegistryPackageVersionsAlready: func(ctx context.Context, p regaddr.ModulePackage, vs versions.List) { e.ev("va:" + X(p.String())) },
		RegistryPackageSourceStart: func(ctx context.Context, p regaddr.ModulePackage, v versions.Version) context.Context {
			e.ev("ss:" + X(p.String()) + ":" + X(v.String()))
			return ctx
		},
		RegistryPackageSourceSuccess: func(ctx context.Context, p regaddr.ModulePackage, v versions.Version, s sourceaddrs.RemoteSource) {
			e.ev("so:" + X(p.String()) + ":" + X(v.String()))
		},
		RegistryPackageSourceFailure: func(ctx context.Context, p regaddr.ModulePackage, v versions.Version, err error) {
			e.ev("sf:" + X(p.String()) + ":" + X(v.String()))
		},
		RegistryPackageSourceAlready: func(ctx context.Context, p regaddr.ModulePackage, v versions.Version, s sourceaddrs.RemoteSource) {
			e.ev("sa:" + X(p.String()) + ":" + X(v.String()))
		},
		RemotePackageDownloadStart: func(ctx context.Context, p sourceaddrs.RemotePackage) context.Context {
			e.ev("fs:" + X(p.String()))
			return ctx
		},
		RemotePackageDownloadSuccess: func(ctx context.Context, p sourceaddrs.RemotePackage) {
			e.mu.Lock()
			e.lastPkg = p.String()
			e.mu.Unlock()
			e.ev("fo:" + X(p.String()))
		},
		RemotePackageDownloadFailure: func(ctx context.Context, p sourceaddrs.RemotePackage, err error) { e.ev("ff:" + X(p.String())) },
		RemotePackageDownloadAlready: func(ctx context.Context, p sourceaddrs.RemotePackage) {
			e.mu.Lock()
			e.lastPkg = p.String()
			e.mu.Unlock()
			e.ev("fa:" + X(p.String()))
		},
		Diagnostics: func(ctx context.Context, diags sourcebundle.Diagnostics) {
			e.ev(fmt.Sprintf("td:%d", len(diags)))
			e.mu.Lock()
			for _, d := range diags {
				e.tracedDiags = append(e.tracedDiags, deliveredOf(d))
			}
			e.mu.Unlock()
		},
	}
	if e.noDiagCb {
		t.Diagnostics = nil
	}
	return t
}

// ---------- running a build ----------

type bRun struct {
	results  []string // per op: canonical diags | refused
	diagsRaw [][]sourcebundle.Diagnostic
	poisoned bool
	bundle   *sourcebundle.Bundle
	closeErr error
	target   string
	env      *bEnv
	timeout  bool
}

func canonDiags(w *BWorld, ds sourcebundle.Diagnostics) string {
	if len(ds) == 0 {
		return "-"
	}
	var out []string
	for _, d := range ds {
		sev := "W"
		if d.Severity() == sourcebundle.DiagError {
			sev = "E"
		}
		kind := 3
		switch d.Description().Summary {
		case "Cannot resolve module registry package":
			kind = 0
		case "Cannot install source package":
			kind = 1
		case "Invalid relative source address":
			kind = 2
		}
		if kind < 3 {
			out = append(out, fmt.Sprintf("%s%d:x:x:x:false", sev, kind))
			continue
		}
		file := ""
		if s := d.Source().Subject; s != nil {
			file = s.Filename
		}
		// was the file name rewritten into a source address inside one of the world's packages?
		pkg, norm, rewritten := "", file, false
		for _, p := range w.Pkgs {
			rp, err := sourceaddrs.ParseRemotePackage(p.Addr)
			if err != nil {
				continue
			}
			if p.Addr == file {
				// an empty file name is a valid sub-path: it is rewritten to the package address itself
				pkg, norm, rewritten = p.Addr, "", true
			}
			// candidates: every valid sub-path the world uses in diagnostics
			for _, dep := range w.Deps {
				for _, dc := range dep.Decls {
					if (dc.Kind == "w" || dc.Kind == "e") && sourceaddrs.ValidSubPath(dc.File) && dc.File != "" {
						if rp.SourceAddr(dc.File).String() == file {
							pkg, norm, rewritten = p.Addr, rp.SourceAddr(dc.File).SubPath(), true
						}
					}
				}
			}
		}
		if !rewritten {
			pkg = ""
		}
		out = append(out, fmt.Sprintf("%s3:%s:%s:%s:%s", sev, X(pkg), X(d.Description().Summary), X(norm), B(rewritten)))
	}
	return strings.Join(out, ",")
}

func runBuild(w *BWorld, ops []BOp, target string, env *bEnv) *bRun {
	run := &bRun{target: target, env: env}
	done := make(chan struct{})
	go func() {
		defer close(done)
		b, err := sourcebundle.NewBuilder(target, env, env)
		if err != nil {
			run.closeErr = err
			return
		}
		ctx := env.tracer().OnContext(context.Background())
		for _, op := range ops {
			func() {
				defer func() {
					if x := recover(); x != nil {
						if strings.HasPrefix(fmt.Sprint(x), "harness:") {
							panic(x)
						}
						run.results = append(run.results, "refused")
						run.diagsRaw = append(run.diagsRaw, nil)
					}
				}()
				var ds sourcebundle.Diagnostics
				switch op.Kind {
				case "ar":
					ds = b.AddRemoteSource(ctx, w.remoteAs(op.Pkg, op.Sub, op.Canon), env.finders[op.Finder])
				case "ag":
					ds = b.AddRegistrySource(ctx, mustRegistry(op.Pkg, op.Sub), allowedSet(op.Allowed), env.finders[op.Finder])
				case "af":
					ds = b.AddFinalRegistrySource(ctx, finalOf(op), env.finders[op.Finder])
				}
				run.results = append(run.results, canonDiags(w, ds))
				run.diagsRaw = append(run.diagsRaw, ds)
			}()
		}
		func() {
			defer func() {
				if x := recover(); x != nil {
					run.poisoned = true
				}
			}()
			run.bundle, run.closeErr = b.Close()
		}()
	}()
	select {
	case <-done:
	case <-time.After(30 * time.Second):
		run.timeout = true
	}
	return run
}

// canonical rendering of a finished run in the format of the Lean driver's `builder` answer
func (run *bRun) canon(w *BWorld) string {
	res := strings.Join(run.results, "|")
	logs := "-"
	if len(run.env.log) > 0 {
		logs = strings.Join(run.env.log, ",")
	}
	var an []string
	for k := range run.env.analysed {
		an = append(an, k)
	}
	sort.Strings(an)
	enc := func(xs []string) string {
		if len(xs) == 0 {
			return "-"
		}
		sort.Strings(xs)
		return strings.Join(xs, ",")
	}
	if run.poisoned || run.bundle == nil {
		return fmt.Sprintf("%s %s - - - - %s %s - -", res, logs, enc(an), B(run.poisoned))
	}
	b := run.bundle
	var dirs, metas, resolved, deps []string
	root := ""
	for _, p := range b.RemotePackages() {
		lp, err := b.LocalPathForRemoteSource(p.SourceAddr(""))
		content := "?"
		if err == nil {
			root = filepath.Dir(lp)
			if c, err := os.ReadFile(filepath.Join(lp, "content.id")); err == nil {
				content = string(c)
			}
		}
		dirs = append(dirs, X(p.String())+":"+X(content))
		if m := b.RemotePackageMeta(p); m != nil {
			metas = append(metas, X(p.String())+":"+X(m.GitCommitID())+":"+X(m.GitCommitMessage()))
		}
	}
	for _, rp := range b.RegistryPackages() {
		for _, v := range b.RegistryPackageVersions(rp) {
			src, ok := b.RegistryPackageSourceAddr(rp, v)
			if !ok {
				continue
			}
			resolved = append(resolved, X(rp.String())+":"+X(v.String())+":"+X(src.Package().String())+":"+X(src.SubPath()))
			d := b.RegistryPackageVersionDeprecation(rp, v)
			if d == nil {
				deps = append(deps, X(rp.String())+":"+X(v.String())+":-:-")
			} else {
				deps = append(deps, X(rp.String())+":"+X(v.String())+":"+X(d.Reason)+":"+X(d.Link))
			}
		}
	}
	// row order of the manifest file as written (packages and registry arrays)
	pkgOrder, regOrder := "-", "-"
	if root != "" {
		var mf struct {
			Packages []struct {
				Source string `json:"source"`
			} `json:"packages"`
			Registry []struct {
				Source string `json:"source"`
			} `json:"registry"`
		}
		if raw, err := os.ReadFile(filepath.Join(root, "terraform-sources.json")); err == nil && json.Unmarshal(raw, &mf) == nil {
			var po, ro []string
			for _, p := range mf.Packages {
				po = append(po, X(p.Source))
			}
			for _, r := range mf.Registry {
				ro = append(ro, X(r.Source))
			}
			if len(po) > 0 {
				pkgOrder = strings.Join(po, ",")
			}
			if len(ro) > 0 {
				regOrder = strings.Join(ro, ",")
			}
		} else {
			pkgOrder, regOrder = "unreadable", "unreadable"
		}
	}
	return fmt.Sprintf("%s %s %s %s %s %s %s %s %s %s", res, logs, enc(dirs), enc(metas), enc(resolved), enc(deps), enc(an), B(false), pkgOrder, regOrder)
}
