package main

import (
	"archive/tar"
	"bytes"
	"compress/gzip"
	"crypto/sha256"
	"encoding/hex"
	"errors"
	"fmt"
	"io"
	"os"
	"path/filepath"
	"sort"
	"strings"
	"strconv"
	"sync"
	"syscall"
	"time"

	slug "github.com/hashicorp/go-slug"
)

// unpack lane (C01 C04 C12 C15 C19): Packer.Unpack in a fresh arena enclosing dst, against the
// Lean model (Unpack.lean over FS.lean) and the implementation-level oracles of each property.

type UEntry struct {
	Name  string `json:"name"`
	Typ   byte   `json:"typ"`
	Mode  int64  `json:"mode"`
	Mtime int64  `json:"mtime"`
	Link  string `json:"link"`
	Body  string `json:"body"`
	// time decorations of the header; the zero values give the archive shape of the earlier rounds (a PAX
	// header, mtime in whole seconds, no access/change time recorded)
	MtimeNs  int64  `json:"mtime_ns,omitempty"`  // fraction of a second on top of Mtime (0..999999999)
	HasAtime bool   `json:"has_atime,omitempty"` // the header records an access time (Atime, seconds) ...
	Atime    int64  `json:"atime,omitempty"`
	Ctime    int64  `json:"ctime,omitempty"` // ... and, if non-zero, a change time
	Fmt      string `json:"fmt,omitempty"`   // "" = PAX, "gnu" = GNU, "auto" = tar.FormatUnknown (what Pack writes: USTAR if it fits, times rounded, no atime)
}

type FSNode struct {
	Path  string `json:"path"`
	Kind  string `json:"kind"` // d f l s
	Perm  uint32 `json:"perm"`
	Mtime int64  `json:"mtime"`
	Data  string `json:"data"` // content or link target
	ino   uint64
	ctime int64
}

type UCase struct {
	Dst     string   `json:"dst"`   // relative to the arena root
	Allow   []string `json:"allow"` // AllowSymlinkTarget options
	Init    []FSNode `json:"init"`  // initial arena content (paths relative to the arena)
	Entries []UEntry `json:"entries"`
	Fault   string   `json:"fault"`
	// Umask: the process umask (octal) the case ran under, "" = 022. Under any other umask the case is
	// outside the filesystem model (FS.lean has 022 built in) and only the implementation-level oracles judge.
	Umask string `json:"umask,omitempty"`
	// RelDst / Cwd: "" = Unpack is handed the absolute path <arena>/<Dst>. Otherwise the case runs with the
	// process working directory set to <arena>/<Cwd> ("." = the arena itself) and Unpack is handed RelDst as
	// spelled, a path relative to that directory that names the same place as Dst (seed C01-g: a link judged
	// at <cwd>/<dst>/<dst>/<name> when dst is relative). os.Chdir is process-wide: one such case at a time.
	RelDst string `json:"rel_dst,omitempty"`
	Cwd    string `json:"cwd,omitempty"`
}

const oldTime = 1300000000

// tarHeaderOf is the header written for e (shared by the unpack, unpack-faults and robust lanes).
func tarHeaderOf(e UEntry) *tar.Header {
	h := &tar.Header{Name: e.Name, Typeflag: e.Typ, Linkname: e.Link, Mode: e.Mode,
		ModTime: time.Unix(e.Mtime, e.MtimeNs), Format: tar.FormatPAX}
	switch e.Fmt {
	case "gnu":
		h.Format = tar.FormatGNU
	case "auto":
		h.Format = tar.FormatUnknown
	}
	if e.HasAtime {
		h.AccessTime = time.Unix(e.Atime, 0)
		if e.Ctime != 0 {
			h.ChangeTime = time.Unix(e.Ctime, 0)
		}
	}
	if hasBodyType(e.Typ) {
		h.Size = int64(len(e.Body))
	}
	if e.Typ == tar.TypeGNUSparse {
		// an old-GNU sparse header exists in the GNU format only; its sparse map is patched in afterwards
		// (patchSparseHeader: archive/tar does not write one)
		h.Format = tar.FormatGNU
		h.AccessTime, h.ChangeTime = time.Time{}, time.Time{}
	}
	if e.Typ == tar.TypeXGlobalHeader {
		// the record's own name is kept (tar writes it; Unpack sees it as the entry name)
		h.Format = tar.FormatPAX
		h.ModTime, h.AccessTime, h.ChangeTime = time.Time{}, time.Time{}, time.Time{}
		h.Mode = 0
		h.PAXRecords = map[string]string{"comment": "x"}
	}
	return h
}

// hasBodyType: entry types whose header announces a body: regular files in their three spellings ('0', NUL,
// '7' = contiguous file, which archive/tar reads as a regular file) and the old-GNU sparse file 'S'
// (seed C12-h: a type gate decided from the header's file mode accepts '7', 'S' and the hard link '1',
// whose bodies and names are then silently skipped).
func hasBodyType(t byte) bool {
	return t == tar.TypeReg || t == tar.TypeRegA || t == tar.TypeCont || t == tar.TypeGNUSparse
}

func buildTarGz(es []UEntry) []byte {
	sparse := false
	for _, e := range es {
		if e.Typ == tar.TypeGNUSparse {
			sparse = true
		}
	}
	if sparse {
		return gzDefault(buildTarRaw(es))
	}
	var buf bytes.Buffer
	gz := gzip.NewWriter(&buf)
	tw := tar.NewWriter(gz)
	for _, e := range es {
		h := tarHeaderOf(e)
		if err := tw.WriteHeader(h); err != nil {
			continue
		}
		if h.Size > 0 {
			tw.Write([]byte(e.Body))
		}
	}
	tw.Close()
	gz.Close()
	return buf.Bytes()
}

func gzDefault(raw []byte) []byte {
	var buf bytes.Buffer
	gz := gzip.NewWriter(&buf)
	gz.Write(raw)
	gz.Close()
	return buf.Bytes()
}

// buildTarRaw writes the uncompressed tar stream and gives every 'S' entry the sparse map of a file without
// holes (one fragment: offset 0, the whole body; real size = body size), which is what GNU tar writes for a
// fully allocated file it was told to treat as sparse. archive/tar reads such an entry as typeflag 'S' with a
// regular-file mode and the body as content.
func buildTarRaw(es []UEntry) []byte {
	var buf bytes.Buffer
	tw := tar.NewWriter(&buf)
	var patch []int
	var sizes []int
	for _, e := range es {
		h := tarHeaderOf(e)
		tw.Flush()
		if err := tw.WriteHeader(h); err != nil {
			continue
		}
		if e.Typ == tar.TypeGNUSparse {
			patch = append(patch, buf.Len()-512) // the header block proper is the last one WriteHeader wrote
			sizes = append(sizes, len(e.Body))
		}
		if h.Size > 0 {
			tw.Write([]byte(e.Body))
		}
	}
	tw.Close()
	raw := buf.Bytes()
	for i, off := range patch {
		if off >= 0 && off+512 <= len(raw) {
			patchSparseHeader(raw[off:off+512], sizes[i])
		}
	}
	return raw
}

// patchSparseHeader fills the old-GNU sparse fields of a header block (sparse[0] = (0, size) at 386, isextended
// = 0 at 482, realsize at 483) and recomputes the checksum.
func patchSparseHeader(blk []byte, size int) {
	oct := func(off, n int, v int) {
		copy(blk[off:off+n], []byte(fmt.Sprintf("%0*o\x00", n-1, v)))
	}
	for i := 386; i < 495; i++ {
		blk[i] = 0
	}
	oct(386, 12, 0)
	oct(398, 12, size)
	oct(483, 12, size)
	for i := 148; i < 156; i++ {
		blk[i] = ' '
	}
	sum := 0
	for _, b := range blk {
		sum += int(b)
	}
	copy(blk[148:156], []byte(fmt.Sprintf("%06o\x00 ", sum)))
}

// decodeTar reads back what archive/tar delivers for the stream (the model is fed the *decoded*
// entry list: tar+gzip are trusted as an identity between byte streams and entry lists).
func decodeTar(data []byte) ([]UEntry, error) {
	gz, err := gzip.NewReader(bytes.NewReader(data))
	if err != nil {
		return nil, err
	}
	tr := tar.NewReader(gz)
	var out []UEntry
	for {
		h, err := tr.Next()
		if err == io.EOF {
			return out, nil
		}
		if err != nil {
			return out, err
		}
		body, _ := io.ReadAll(tr)
		out = append(out, UEntry{Name: h.Name, Typ: h.Typeflag, Mode: int64(h.FileInfo().Mode().Perm()) | specialBits(h.FileInfo().Mode()),
			Mtime: h.ModTime.Unix(), Link: h.Linkname, Body: string(body)})
	}
}

func specialBits(m os.FileMode) int64 {
	var b int64
	if m&os.ModeSetuid != 0 {
		b |= 04000
	}
	if m&os.ModeSetgid != 0 {
		b |= 02000
	}
	if m&os.ModeSticky != 0 {
		b |= 01000
	}
	return b
}

func permOf(m os.FileMode) uint32 { return uint32(m.Perm()) | uint32(specialBits(m)) }

// recentWindow: an mtime between the start of the run and this much later is "the time of the run" (-1);
// times recorded in an archive may lie beyond it (2038 and later) and are reported as they are.
const recentWindow = 24 * time.Hour

// snapshot walks root (no following) and returns nodes with paths relative to root ("" = root).
func snapshot(root string, runStart time.Time) []FSNode {
	var out []FSNode
	// an unprivileged observer cannot traverse directories that the archive made unreadable:
	// lift their mode for the walk, report the original mode, restore mode and times afterwards
	type lifted struct {
		p    string
		mode os.FileMode
		mt   time.Time
	}
	var lifts []lifted
	origMode := map[string]os.FileMode{}
	if os.Geteuid() != 0 {
		var rec func(p string)
		rec = func(p string) {
			fi, err := os.Lstat(p)
			if err != nil || !fi.IsDir() {
				return
			}
			if fi.Mode().Perm()&0700 != 0700 {
				lifts = append(lifts, lifted{p, fi.Mode().Perm(), fi.ModTime()})
				origMode[p] = fi.Mode()
				os.Chmod(p, fi.Mode().Perm()|0700)
			}
			ents, _ := os.ReadDir(p)
			for _, e := range ents {
				rec(filepath.Join(p, e.Name()))
			}
		}
		rec(root)
		defer func() {
			for i := len(lifts) - 1; i >= 0; i-- {
				os.Chmod(lifts[i].p, lifts[i].mode)
				os.Chtimes(lifts[i].p, lifts[i].mt, lifts[i].mt)
			}
		}()
	}
	filepath.Walk(root, func(p string, info os.FileInfo, err error) error {
		if err != nil {
			return nil
		}
		rel, _ := filepath.Rel(root, p)
		if rel == "." {
			rel = ""
		}
		n := FSNode{Path: rel, Perm: permOf(info.Mode())}
		mt := info.ModTime()
		if om, ok := origMode[p]; ok {
			n.Perm = permOf(om)
			for _, l := range lifts {
				if l.p == p {
					mt = l.mt
				}
			}
		}
		if mt.After(runStart.Add(-2*time.Second)) && mt.Before(runStart.Add(recentWindow)) {
			n.Mtime = -1
		} else {
			n.Mtime = mt.Unix()
		}
		if st, ok := info.Sys().(*syscall.Stat_t); ok {
			n.ino = st.Ino
			n.ctime = st.Ctim.Nano()
		}
		switch {
		case info.Mode()&os.ModeSymlink != 0:
			n.Kind = "l"
			n.Data, _ = os.Readlink(p)
			n.Perm = 0
			n.Mtime = 0
		case info.IsDir():
			n.Kind = "d"
		case info.Mode().IsRegular():
			n.Kind = "f"
			b, rerr := os.ReadFile(p)
			if rerr != nil && os.IsPermission(rerr) {
				// an unprivileged observer cannot read a mode-0000 file: lift the mode for the read
				// (times are restored; only files created inside dst have such modes)
				mt := info.ModTime()
				os.Chmod(p, 0600)
				b, _ = os.ReadFile(p)
				os.Chmod(p, info.Mode().Perm())
				os.Chtimes(p, mt, mt)
			}
			n.Data = string(b)
		default:
			n.Kind = "s"
			n.Perm = 0
			n.Mtime = 0
		}
		out = append(out, n)
		return nil
	})
	sort.Slice(out, func(i, j int) bool { return out[i].Path < out[j].Path })
	return out
}

func encNodeAbs(abs string, n FSNode) string {
	switch n.Kind {
	case "d":
		return fmt.Sprintf("%s:d:%d:%d:x", X(abs), n.Perm, n.Mtime)
	case "f":
		return fmt.Sprintf("%s:f:%d:%d:%s", X(abs), n.Perm, n.Mtime, X(n.Data))
	case "l":
		return fmt.Sprintf("%s:l:0:0:%s", X(abs), X(n.Data))
	}
	return fmt.Sprintf("%s:s:0:0:x", X(abs))
}

// encArena renders a snapshot (plus the arena's ancestors as plain directories) as the protocol's fsdump.
func encArena(arena string, nodes []FSNode) string {
	type kv struct{ k, v string }
	var items []kv
	anc := arena
	for anc != "/" {
		anc = filepath.Dir(anc)
		if anc == "/" {
			break
		}
		items = append(items, kv{anc, encNodeAbs(anc, FSNode{Kind: "d", Perm: 0755, Mtime: 0})})
	}
	for _, n := range nodes {
		abs := arena
		if n.Path != "" {
			abs = arena + "/" + n.Path
		}
		items = append(items, kv{abs, encNodeAbs(abs, n)})
	}
	sort.Slice(items, func(i, j int) bool { return items[i].k < items[j].k })
	parts := make([]string, len(items))
	for i, it := range items {
		parts[i] = it.v
	}
	if len(parts) == 0 {
		return "-"
	}
	return strings.Join(parts, ",")
}

func encEntries(es []UEntry) string {
	if len(es) == 0 {
		return "-"
	}
	parts := make([]string, len(es))
	for i, e := range es {
		parts[i] = fmt.Sprintf("%s:%d:%d:%d:%s:%s", X(e.Name), e.Typ, e.Mode, e.Mtime, X(e.Link), X(e.Body))
	}
	return strings.Join(parts, ",")
}

func encStrList(xs []string) string {
	if len(xs) == 0 {
		return "-"
	}
	parts := make([]string, len(xs))
	for i, x := range xs {
		parts[i] = X(x)
	}
	return strings.Join(parts, ",")
}

// materialise creates the initial arena content.
func materialise(arena string, init []FSNode) error {
	if err := mkdirAllExact(arena, 0755); err != nil {
		return err
	}
	old := time.Unix(oldTime, 0)
	for _, n := range init {
		p := filepath.Join(arena, n.Path)
		switch n.Kind {
		case "d":
			if err := mkdirAllExact(p, 0755); err != nil {
				return err
			}
		case "f":
			mkdirAllExact(filepath.Dir(p), 0755)
			if err := os.WriteFile(p, []byte(n.Data), 0644); err != nil {
				return err
			}
		case "l":
			mkdirAllExact(filepath.Dir(p), 0755)
			if err := os.Symlink(n.Data, p); err != nil {
				return err
			}
		}
	}
	// permissions and times, deepest first so directory times stay
	for i := len(init) - 1; i >= 0; i-- {
		n := init[i]
		if n.Kind == "l" {
			continue
		}
		p := filepath.Join(arena, n.Path)
		os.Chmod(p, os.FileMode(n.Perm))
		os.Chtimes(p, old, old)
	}
	os.Chtimes(arena, old, old)
	return nil
}

// mkdirAllExact is os.MkdirAll whose new directories get exactly perm, whatever the process umask is
// (the lanes may run under -umask 077; what the harness itself creates must stay traversable).
func mkdirAllExact(p string, perm os.FileMode) error {
	if fi, err := os.Stat(p); err == nil {
		if fi.IsDir() {
			return nil
		}
		return &os.PathError{Op: "mkdir", Path: p, Err: syscall.ENOTDIR}
	}
	if parent := filepath.Dir(p); parent != p {
		if err := mkdirAllExact(parent, perm); err != nil {
			return err
		}
	}
	if err := os.Mkdir(p, perm); err != nil {
		if fi, serr := os.Stat(p); serr == nil && fi.IsDir() {
			return nil // made by a concurrent case (shared ancestors only)
		}
		return err
	}
	return os.Chmod(p, perm)
}

type errReader struct {
	data []byte
	pos  int
	fail int // fail when pos reaches this offset (-1 = never); failErr nil = clean EOF (truncation)
	err  error
}

func (r *errReader) Read(p []byte) (int, error) {
	limit := len(r.data)
	if r.fail >= 0 && r.fail < limit {
		limit = r.fail
	}
	if r.pos >= limit {
		if r.fail >= 0 && r.pos >= r.fail {
			if r.err != nil {
				return 0, r.err
			}
			return 0, io.EOF
		}
		return 0, io.EOF
	}
	n := copy(p, r.data[r.pos:limit])
	r.pos += n
	return n, nil
}

func classify(err error) string {
	if err == nil {
		return "ok"
	}
	var ise *slug.IllegalSlugError
	if errors.As(err, &ise) {
		// the error type's own contract: a recognisable message and the cause underneath
		if !strings.HasPrefix(ise.Error(), "illegal slug error:") || errors.Unwrap(ise) == nil {
			return "illegal-malformed"
		}
		return "illegal"
	}
	return "io"
}

type unpackOutcome struct {
	class    string
	panicked interface{}
	timeout  bool
}

func runUnpack(data io.Reader, dst string, allow []string) (out unpackOutcome) {
	done := make(chan unpackOutcome, 1)
	go func() {
		var o unpackOutcome
		defer func() {
			if x := recover(); x != nil {
				o.panicked = x
				o.class = "panic"
			}
			done <- o
		}()
		var opts []slug.PackerOption
		for _, a := range allow {
			opts = append(opts, slug.AllowSymlinkTarget(a))
		}
		p, err := slug.NewPacker(opts...)
		if err != nil {
			o.class = "io"
			return
		}
		if len(allow) > 0 {
			// history: the same Packer first unpacks a small archive into another directory, in which a
			// link makes it consult the allow-list relative to THAT root; nothing of it may stick to the
			// Packer (seeds C04-d / C05-d / C16-a: an allow-list entry rewritten in place)
			if warm, err := os.MkdirTemp("", "vh-warm"); err == nil {
				var es []UEntry
				for i, a := range allow {
					es = append(es, UEntry{Name: fmt.Sprintf("w%d", i), Typ: tar.TypeSymlink, Link: a, Mode: 0777, Mtime: 1400000000})
				}
				p.Unpack(bytes.NewReader(buildTarGz(es)), warm)
				os.RemoveAll(warm)
			}
		}
		o.class = classify(p.Unpack(data, dst))
	}()
	select {
	case o := <-done:
		return o
	case <-time.After(caseTimeout):
		return unpackOutcome{class: "timeout", timeout: true}
	}
}

// ---------- physical link resolution (C04 oracle) ----------

// resolveLexPast resolves path p component by component with Lstat/Readlink; once a component is
// missing the rest is applied lexically. Returns the resulting absolute path and ok=false on a loop.
func resolvePhys(start string, segs []string, depth int) (string, bool) {
	cur := start
	missing := false
	for i := 0; i < len(segs); i++ {
		s := segs[i]
		switch s {
		case "", ".":
			continue
		case "..":
			cur = filepath.Dir(cur)
			continue
		}
		next := filepath.Join(cur, s)
		if missing {
			cur = next
			continue
		}
		fi, err := os.Lstat(next)
		if err != nil {
			missing = true
			cur = next
			continue
		}
		if fi.Mode()&os.ModeSymlink != 0 {
			if depth <= 0 {
				return "", false
			}
			t, _ := os.Readlink(next)
			base := cur
			if strings.HasPrefix(t, "/") {
				base = "/"
			}
			r, ok := resolvePhys(base, append(strings.Split(t, "/"), segs[i+1:]...), depth-1)
			return r, ok
		}
		cur = next
	}
	return cur, true
}

func within(root, p string) bool {
	return p == root || strings.HasPrefix(p, strings.TrimSuffix(root, "/")+"/")
}

// ---------- reference interpreter for well-formed archives (C15 oracle) ----------

type refNode struct {
	kind  string
	perm  uint32
	mtime int64
	data  string
}

// refUntar interprets a well-formed entry list into an abstract tree (paths relative to dst).
// ok=false: the archive is outside the well-formed class (the oracle then does not judge it).
// umask: a directory that Unpack creates (MkdirAll 0755) has 0755 &^ umask until - and unless - an entry of
// its own restores the recorded mode; files and explicit directories end with their recorded bits whatever
// the umask is (Chmod is not subject to it).
func refUntar(es []UEntry, umask int) (map[string]refNode, bool, bool) {
	created := uint32(0755) &^ uint32(umask)
	tree := map[string]refNode{}
	type dm struct {
		p     string
		perm  uint32
		mtime int64
	}
	var dirs []dm
	wantErr := false
	mkparents := func(p string) bool {
		for d := filepath.Dir(p); d != "." && d != "/"; d = filepath.Dir(d) {
			if n, ok := tree[d]; ok {
				if n.kind != "d" {
					return false
				}
				continue
			}
			tree[d] = refNode{kind: "d", perm: created, mtime: -1}
		}
		return true
	}
	for _, e := range es {
		if e.Name == "" {
			continue
		}
		name := e.Name
		name = strings.TrimPrefix(name, "/")
		p := filepath.Clean(name)
		if p == "." {
			// an entry for the destination itself
			if e.Typ == tar.TypeDir {
				dirs = append(dirs, dm{"", uint32(e.Mode), e.Mtime})
				continue
			}
			return nil, false, false
		}
		if strings.HasPrefix(p, "../") || p == ".." || strings.HasPrefix(p, "/") {
			return nil, false, false
		}
		switch e.Typ {
		case tar.TypeXGlobalHeader, tar.TypeXHeader:
			// nothing is created for a header record, but Unpack validates its name like any other: a
			// name that passes through something that is not a directory is refused (ENOTDIR in the
			// per-component walk).  Such an archive is not in the class the reference judges (thorough
			// tier, seed 41: record named d/new/pax_global_header after a regular file d).
			for d := filepath.Dir(p); d != "." && d != "/"; d = filepath.Dir(d) {
				if n, ok := tree[d]; ok && n.kind != "d" {
					return nil, false, false
				}
			}
			continue
		case tar.TypeReg, tar.TypeRegA, tar.TypeDir, tar.TypeSymlink:
		default:
			wantErr = true
			return tree, true, wantErr
		}
		if !mkparents(p) {
			return nil, false, false
		}
		old, exists := tree[p]
		switch e.Typ {
		case tar.TypeDir:
			if exists && old.kind != "d" {
				return nil, false, false
			}
			if !exists {
				tree[p] = refNode{kind: "d", perm: created, mtime: -1}
			}
			dirs = append(dirs, dm{p, uint32(e.Mode), e.Mtime})
		case tar.TypeSymlink:
			if exists {
				return nil, false, false
			}
			tree[p] = refNode{kind: "l", data: e.Link}
		default:
			if exists && old.kind != "f" {
				return nil, false, false
			}
			tree[p] = refNode{kind: "f", perm: uint32(e.Mode), mtime: e.Mtime, data: e.Body}
		}
		// touching a directory's content refreshes its time
		if d := filepath.Dir(p); d != "." {
			if n, ok := tree[d]; ok && !exists {
				n.mtime = -1
				tree[d] = n
			}
		}
	}
	for _, d := range dirs {
		if d.p == "" {
			continue
		}
		if n, ok := tree[d.p]; ok && n.kind == "d" {
			n.perm = d.perm
			n.mtime = d.mtime
			tree[d.p] = n
		}
	}
	return tree, true, wantErr
}

// wellFormedLinks: every link target is relative, has its '..' only in a leading block that stays
// inside dst, and no entry passes through or lands on a link.
func wellFormedForC15(es []UEntry) bool {
	links := map[string]bool{}
	for _, e := range es {
		if e.Name == "" {
			continue
		}
		p := filepath.Clean(strings.TrimPrefix(e.Name, "/"))
		for d := filepath.Dir(p); d != "." && d != "/"; d = filepath.Dir(d) {
			if links[d] {
				return false
			}
		}
		if links[p] {
			return false
		}
		if e.Typ == tar.TypeSymlink {
			if strings.HasPrefix(e.Link, "/") || e.Link == "" {
				return false
			}
			depth := strings.Count(p, "/")
			segs := strings.Split(e.Link, "/")
			ups := 0
			i := 0
			for i < len(segs) && segs[i] == ".." {
				ups++
				i++
			}
			if ups > depth {
				return false
			}
			for ; i < len(segs); i++ {
				if segs[i] == ".." {
					return false
				}
			}
			links[p] = true
		}
	}
	return true
}

// unprivDirPermBites: is there a directory entry whose recorded mode lacks the owner's search bit and a
// later directory entry strictly below it (dst itself counts as above everything)?
func unprivDirPermBites(es []UEntry) bool {
	type d struct{ p string }
	var noSearch []string
	for _, e := range es {
		if e.Typ != tar.TypeDir || e.Name == "" {
			continue
		}
		// the place below dst the entry is for ("." = dst itself, also for "//" and "/./")
		p := strings.TrimPrefix(filepath.Clean("/"+e.Name), "/")
		if p == "" {
			p = "."
		}
		for _, a := range noSearch {
			if a == "." && p != "." || a != "." && strings.HasPrefix(p, a+"/") {
				return true
			}
		}
		if e.Mode&0100 == 0 {
			noSearch = append(noSearch, p)
		}
	}
	return false
}

// ---------- known-finding mechanism predicates ----------

func hasDotDotAfterName(target string) bool {
	seenName := false
	for _, s := range strings.Split(target, "/") {
		switch s {
		case "", ".":
		case "..":
			if seenName {
				return true
			}
		default:
			seenName = true
		}
	}
	return false
}

// linkReplacedExisting: the destination holds a link that a link entry of the archive put where something else
// already was: an earlier entry of the same name (a file, a directory, a link with another target) or an
// object that was in dst before the run. os.Symlink never replaces anything, and the unchanged Unpack stops
// at such an entry ("file exists"); a tree in which it happened is not an instance of a recorded mechanism,
// whatever the targets look like (seed C04-h: the name is removed and the link created again).
// before / after: snapshots keyed by arena-relative path; dstRel: where dst physically is.
func linkReplacedExisting(decoded []UEntry, before, after map[string]FSNode, dstRel string) (string, bool) {
	rel := func(name string) (string, bool) {
		r := filepath.Clean(strings.TrimPrefix(name, "/"))
		if r == "." || r == ".." || strings.HasPrefix(r, "../") || strings.HasPrefix(r, "/") {
			return "", false
		}
		return r, true
	}
	for k := len(decoded) - 1; k >= 0; k-- {
		e := decoded[k]
		if e.Typ != tar.TypeSymlink || e.Name == "" {
			continue
		}
		p, ok := rel(e.Name)
		if !ok {
			continue
		}
		a, there := after[filepath.Join(dstRel, p)]
		if !there || a.Kind != "l" || a.Data != e.Link {
			continue
		}
		if b, was := before[filepath.Join(dstRel, p)]; was && (b.Kind != "l" || b.Data != e.Link) {
			return p, true
		}
		for j := 0; j < k; j++ {
			o := decoded[j]
			if o.Name == "" || (o.Typ != tar.TypeReg && o.Typ != tar.TypeRegA && o.Typ != tar.TypeDir && o.Typ != tar.TypeSymlink) {
				continue
			}
			if q, ok := rel(o.Name); ok && q == p && (o.Typ != tar.TypeSymlink || o.Link != e.Link) {
				return p, true
			}
		}
	}
	return "", false
}

func unpackSignature(c *UCase, what string) string {
	// F3: a link whose target has '..' after a name (lexically inside, physically elsewhere)
	for _, e := range c.Entries {
		if e.Typ == tar.TypeSymlink && hasDotDotAfterName(e.Link) {
			return "unpack.link-dotdot-after-name"
		}
	}
	for _, n := range c.Init {
		if n.Kind == "l" && hasDotDotAfterName(n.Data) {
			return "unpack.link-dotdot-after-name"
		}
	}
	return ""
}

// ---------- generators ----------

var uNames = []string{"a", "b", "d/a", "d/b", "d/e/f", "l", "l/x", "d/l", "d/l/y", "./a", "/a", "/d/b", "a/../b", "n/../d/l/k",
	"../dst-evil/x", "../outside.txt", "../dstx/y", "d", "e", "d/e", "l2", "d/l2", "é", "a b", "d//a", "..", "../..", ".", "d/../../dst-evil/z", "k", "d/k", "/", "//", "//a", "///d/b", "./", "a/", "./.", "..data", "...", "d/..x", "..data/y",
	// names whose parent directories do not exist yet, outside dst (seed C01-e: only a refused entry
	// keeps MkdirAll from planting directories there)
	"../planted/deep/h", "d/../../sibling/a/b/h", "/../planted2/x/y"}
var uTargets = []string{"a", "b", "d", "d/a", ".", "..", "../dst-evil", "../..", "@ARENA@/etcx/passwd", "d/..", "d/../..", "l", "d/l", "d/l/..", "l/..", "l/../outside.txt",
	"../dst/a", "../dstx", "nonexist", "e/../..", "../a", "../d/a", "../../dst-evil/x", "", "./a", "d/./a", "l2", "../l", "k", "../k"}

// Backslashes. On POSIX '\\' is an ordinary byte of a file name: "\\main.tf" and "main.tf" are different
// names, "..\\..\\x" is one harmless name and not a climb (seeds C15-g: leading backslashes stripped from entry
// names; C04-g: a link target rewritten to forward slashes after it was validated). Names: leading, doubled,
// after a leading '/', inner, trailing, nothing but backslashes, mixed with '/'. Every name is joined to dst
// by the code under test, so whatever a rewriting does to it stays below the arena.
var uBsNames = []string{`\a`, `\d`, `\d/b`, `\d/e/f`, `\\a`, `/\a`, `/\d/a`, `d\a`, `d/\a`, `a\`, `\`, `\\`, `\/a`, `a\b/c`, `..\x`, `\..\x`, `d\..\a`, `\l`, `\k`}

// Targets: what the rewritten text would reach is a decoy inside the arena (p/q/dst-evil/x, p/q/outside.txt,
// p/up.txt, etcx/passwd), or stays inside dst. SAFETY: no target that a separator rewriting would turn into
// an absolute path outside the arena: a leading backslash occurs only in front of the arena's own path spelled
// with backslashes (@BSARENA@); never "\\" alone or "\\abs\\path" (a rewritten "/" under a directory entry of the
// link's name would have the real root chmod'ed).
var uBsTargets = []string{`..\dst-evil\x`, `..\dst-evil`, `..\outside.txt`, `..\..\up.txt`, `d\..\..\outside.txt`, `d/..\..\..\up.txt`, `d/..\..\outside.txt`, `d\a`, `..\a`, `a\`, `.\a`,
	`..\..\..\etcx\passwd`, `@BSARENA@\etcx\passwd`, `@BSARENA@\p\q\dst-evil`, `@BSARENA@\p\q\dst\a`, `e\..\..`, `..\dst\a`}

func bsArena(arena string) string { return strings.ReplaceAll(arena, "/", `\`) }

func genEntry(r *Rng, arena string, i int) UEntry {
	e := UEntry{Name: r.Pick(uNames), Mode: int64([]int{0644, 0600, 0755, 0444, 0400, 0777, 0000, 0700}[r.Intn(8)]), Mtime: 1400000000 + int64(i)*1000 + int64(r.Intn(500))}
	if r.Chance(7) {
		e.Name = r.Pick(uBsNames)
	}
	switch x := r.Intn(100); {
	case x < 45:
		e.Typ = tar.TypeReg
		e.Body = r.Pick([]string{"", "x", "hello", "body-" + fmt.Sprint(i)})
	case x < 65:
		e.Typ = tar.TypeDir
		if r.Chance(70) {
			e.Name += "/"
		}
		e.Mode = int64([]int{0755, 0700, 0555, 0750, 0777}[r.Intn(5)])
	case x < 93:
		e.Typ = tar.TypeSymlink
		e.Link = strings.Replace(r.Pick(uTargets), "@ARENA@", arena, 1)
		if r.Chance(6) {
			e.Link = arena + "/p/q/dst/" + r.Pick([]string{"a", "d", "d/a"})
		}
		if r.Chance(3) {
			e.Link = arena + "/p/q/" + r.Pick([]string{"outside.txt", "dst-evil", "dst/../outside.txt", "dst/d/../../dst-evil/x", "dst/d/../a"})
		}
		if r.Chance(8) {
			e.Link = strings.Replace(r.Pick(uBsTargets), "@BSARENA@", bsArena(arena), 1)
		}
		e.Mode = 0777
	case x < 95:
		e.Typ = tar.TypeXGlobalHeader
		if r.Chance(40) {
			e.Name = r.Pick([]string{"../planted/deep/pax_global_header", "d/../../sibling/a/b/pax_global_header", "pax_global_header", "d/new/pax_global_header"})
		}
	case x < 96:
		e.Typ = tar.TypeRegA
		e.Body = "old"
	default:
		e.Typ = []byte{tar.TypeLink, tar.TypeFifo, tar.TypeChar, tar.TypeBlock}[r.Intn(4)]
		if e.Typ == tar.TypeLink {
			e.Link = "a"
		}
	}
	genTimes(r, &e)
	return e
}

// uMtimes: boundary values of the recorded modification time, next to the ordinary 2014 ones: the epoch
// itself (a legal time, not "no time recorded"; seed C02-f), one second after it, both sides of the signed
// 32-bit limit, and 8^11, the first value beyond the 11 octal digits of a ustar header (PAX record or GNU
// base-256 field)
var uMtimes = []int64{0, 1, 1<<31 - 1, 1 << 31, 1 << 33}

// genTimes decorates the header times: boundary mtimes, fractions of a second, the header format, and - for
// PAX and GNU headers - an access time (and change time) different from the modification time (seed
// C15-f: the two arguments of Chtimes transposed shows only when the archive records an access time).
func genTimes(r *Rng, e *UEntry) {
	if r.Chance(12) {
		e.Mtime = uMtimes[r.Intn(len(uMtimes))]
	}
	if r.Chance(6) {
		e.MtimeNs = []int64{400000000, 500000000, 600000000, 999999999}[r.Intn(4)]
	}
	switch x := r.Intn(100); {
	case x < 65:
	case x < 85:
		e.Fmt = "gnu"
	default:
		e.Fmt = "auto"
	}
	if e.Fmt != "auto" && r.Chance(30) {
		e.HasAtime = true
		e.Atime = []int64{e.Mtime + 86400, e.Mtime + 1, 0, 1, 1500000000, 1 << 31, 1 << 33}[r.Intn(7)]
		if e.Atime == e.Mtime {
			e.Atime += 3600
		}
		if r.Chance(70) {
			e.Ctime = e.Mtime + 7
		}
	}
}

// the arena: dst sits two levels below the case directory, so that '../..' chains stay inside it
func baseInit() []FSNode {
	return []FSNode{
		{Path: "etcx", Kind: "d", Perm: 0755},
		{Path: "etcx/passwd", Kind: "f", Perm: 0644, Data: "root"},
		{Path: "p", Kind: "d", Perm: 0755},
		{Path: "p/q", Kind: "d", Perm: 0755},
		{Path: "p/q/dst", Kind: "d", Perm: 0755},
		{Path: "p/q/dst-evil", Kind: "d", Perm: 0755},
		{Path: "p/q/dst-evil/x", Kind: "f", Perm: 0644, Data: "evil-x"},
		{Path: "p/q/dstx", Kind: "d", Perm: 0700},
		{Path: "p/q/outside.txt", Kind: "f", Perm: 0600, Data: "secret"},
		{Path: "p/up.txt", Kind: "f", Perm: 0600, Data: "upper"},
	}
}

func standardInit(r *Rng) []FSNode {
	init := baseInit()
	if r.Chance(25) {
		// pre-existing, well-behaved content of dst
		init = append(init, FSNode{Path: "p/q/dst/d", Kind: "d", Perm: 0755})
		if r.Chance(50) {
			init = append(init, FSNode{Path: "p/q/dst/d/a", Kind: "f", Perm: 0444, Data: "pre"})
		}
		if r.Chance(30) {
			init = append(init, FSNode{Path: "p/q/dst/a", Kind: "f", Perm: 0644, Data: "pre-a"})
		}
		if r.Chance(20) {
			init = append(init, FSNode{Path: "p/q/dst/k", Kind: "l", Data: "d"})
		}
	}
	return init
}

func genUCase(r *Rng, arena string) *UCase {
	c := &UCase{Dst: "p/q/dst", Init: standardInit(r), Fault: "none"}
	n := 1 + r.Intn(4)
	if r.Chance(15) {
		n = 5 + r.Intn(8)
	}
	for i := 0; i < n; i++ {
		c.Entries = append(c.Entries, genEntry(r, arena, i))
	}
	if r.Chance(8) {
		c.Allow = []string{r.Pick([]string{"../dst-evil", arena + "/p/q/dstx", arena + "/etcx", "../outside.txt", "",
			// entries that are a string prefix, but not a component prefix, of a decoy (seed C04-d)
			"../dst-ev", "../outside", arena + "/p/q/dst-ev", "../dst-evil/"})}
	} else if r.Chance(6) {
		// a destination that is reached THROUGH a symbolic link (seed C05-g: the "no extraction through a
		// link" walk started at the filesystem root instead of at dst and refused every entry)
		viaLink(c, r.Intn(len(viaLinkShapes)), arena)
	}
	if r.Chance(12) {
		// the destination given relative to the working directory (seed C01-g)
		relSpell(c, r.Intn(8))
	}
	return c
}

// ---------- shaped cases ----------

// genShapedUCase: one archive around a mechanism that random entry lists practically never assemble (every path
// stays inside the arena: decoys p/q/outside.txt, p/q/dst-evil, p/q/dstx, p/up.txt).
func genShapedUCase(r *Rng, k int) (*UCase, string) {
	c := &UCase{Dst: "p/q/dst", Init: baseInit(), Fault: "none"}
	L := func(n, t string) UEntry { return UEntry{Name: n, Typ: tar.TypeSymlink, Link: t, Mode: 0777, Mtime: 1400000000} }
	F := func(n, b string) UEntry {
		return UEntry{Name: n, Typ: tar.TypeReg, Body: b, Mode: int64([]int{0644, 0600, 0444}[r.Intn(3)]), Mtime: 1400000001 + int64(r.Intn(500))}
	}
	D := func(n string) UEntry {
		return UEntry{Name: n, Typ: tar.TypeDir, Mode: int64([]int{0755, 0700, 0750, 0777}[r.Intn(4)]), Mtime: 1400000002 + int64(r.Intn(500))}
	}
	switch k % 3 {
	case 0:
		// two links whose (directory of the raw name, target) pairs name lexically the same place when the raw
		// names are rooted, the first staying in dst, the second leaving it; then an entry of the second link's
		// name (seed C01-h). 15% each: no leading slash, the two links in the other order (both must be refused).
		sh := []struct {
			dir, t1, t2 string
			dirVictim   bool
		}{
			{"", "outside.txt", "../outside.txt", false},
			{"", "dst-evil/x", "../dst-evil/x", false},
			{"", "fresh.txt", "../fresh.txt", false},
			{"", "dst-evil", "../dst-evil", true},
			{"cfg/", "../dstx", "../dstx", true},
			{"s/t/", "../../up.txt", "../../up.txt", false},
			{"cfg/", "../outside.txt", "../outside.txt", false},
		}[r.Intn(7)]
		sl := "/"
		if x := r.Intn(100); x < 15 {
			sl = ""
		} else if x < 30 {
			sl = "//"
		}
		first := L(sl+sh.dir+r.Pick([]string{"first", "a", "k1"}), sh.t1)
		secondName := r.Pick([]string{"second", "k2", "m"})
		second := L(sl+secondName, sh.t2)
		if r.Chance(15) {
			first, second = second, first
		}
		c.Entries = append(c.Entries, first)
		if r.Chance(30) {
			c.Entries = append(c.Entries, F("b", "between"))
		}
		c.Entries = append(c.Entries, second)
		own := r.Pick([]string{"", "/"}) + secondName
		if sh.dirVictim {
			c.Entries = append(c.Entries, D(own+"/"))
		} else {
			c.Entries = append(c.Entries, F(own, "pwn"))
		}
		return c, "same-rooted-key-links"
	case 1:
		// a link entry whose name is taken by an empty directory, a file, another link, or earlier content of
		// dst, and that an earlier link walks through and climbs back from (seed C04-h). The traversed component
		// is always there before the climbing link is made.
		a, b := r.Pick([]string{"a", "d", "n"}), r.Pick([]string{"b", "e"})
		ab := a + "/" + b
		x := r.Pick([]string{"x", "k", a + "/x"})
		climb := ab + "/../.."
		if strings.Contains(x, "/") {
			climb = b + "/../.."
		}
		climb += r.Pick([]string{"", "/outside.txt", "/dst-evil"})
		shallow := "."
		switch r.Intn(4) {
		case 0:
			c.Entries = []UEntry{D(ab + "/"), L(x, climb), L(ab, shallow)}
		case 1:
			c.Entries = []UEntry{D(a + "/c/"), L(ab, "c"), L(x, climb), L(ab, shallow)}
		case 2:
			c.Init = append(c.Init, FSNode{Path: "p/q/dst/" + a, Kind: "d", Perm: 0755}, FSNode{Path: "p/q/dst/" + ab, Kind: "d", Perm: 0755}, FSNode{Path: "p/q/dst/x", Kind: "l", Data: ab + "/../.."})
			c.Entries = []UEntry{L(ab, shallow)}
		default:
			c.Entries = []UEntry{F(ab, "in the way"), L(x, climb), L(ab, shallow)}
		}
		if r.Chance(30) {
			c.Entries = append(c.Entries, F("z", "after"))
		}
		return c, "link-over-taken-name"
	default:
		// a file spelled with a typeflag that is not one of the three restorable ones but has a regular-file
		// mode: contiguous '7' and sparse 'S' (with bodies), hard link '1' (seed C12-h), among ordinary entries
		names := []string{"a", "b", "d/a", "d/e/f", "main.tf"}
		n := 1 + r.Intn(3)
		firstFile := ""
		for i := 0; i < n; i++ {
			if r.Chance(25) {
				c.Entries = append(c.Entries, D(r.Pick([]string{"d/", "g/", "d/e/"})))
				continue
			}
			nm := names[(k/3+i)%len(names)]
			if firstFile == "" {
				firstFile = nm
			}
			c.Entries = append(c.Entries, F(nm, r.Pick([]string{"", "x", "hello"})))
		}
		odd := F(r.Pick([]string{"odd.tf", "d/odd.bin", "h/i/odd", "/odd"}), r.Pick([]string{"", "c", "contiguous or sparse body"}))
		switch r.Intn(3) {
		case 0:
			odd.Typ = tar.TypeCont
			odd.Fmt = r.Pick([]string{"", "gnu", "auto"})
		case 1:
			odd.Typ = tar.TypeGNUSparse
		default:
			odd.Typ = tar.TypeLink
			odd.Body = ""
			odd.Link = firstFile
			if odd.Link == "" {
				odd.Link = "a"
			}
		}
		if pos := r.Intn(2 * (len(c.Entries) + 1)); pos < len(c.Entries) {
			c.Entries = append(c.Entries[:pos], append([]UEntry{odd}, c.Entries[pos:]...)...)
		} else {
			c.Entries = append(c.Entries, odd)
		}
		return c, "file-under-odd-typeflag"
	}
}

// viaLinkShapes: an initial link and the spelling of dst that passes through it (or is it); every one names
// the directory p/q/dst.
var viaLinkShapes = []struct{ link, target, dst string }{
	{"p/ql", "q", "p/ql/dst"},                    // a symlinked ancestor
	{"pl", "p", "pl/q/dst"},                      // two levels up
	{"p/q/dstl", "dst", "p/q/dstl"},              // dst itself is a link to a directory
	{"p/dl", "q/dst", "p/dl"},                    // ... from another directory
	{"p/q/dst-evil/back", "../dst", "p/q/dst-evil/back"}, // ... with a '..' in its target
	{"p/ql", "@ARENA@/p/q", "p/ql/dst"},           // an absolute link to the ancestor
	{"p/q/dstl", "@ARENA@/p/q/dst", "p/q/dstl/"}, // an absolute link to dst, trailing slash
	{"p/ql", "q", "p/ql/../ql/dst"},
}

func viaLink(c *UCase, k int, arena string) {
	sh := viaLinkShapes[k%len(viaLinkShapes)]
	c.Init = append(c.Init, FSNode{Path: sh.link, Kind: "l", Data: strings.Replace(sh.target, "@ARENA@", arena, 1)})
	c.Dst = sh.dst
}

// relSpell: the case runs with the working directory inside the arena and dst spelled relative to it.
func relSpell(c *UCase, k int) {
	switch d := c.Dst; {
	case k == 0:
		c.Cwd, c.RelDst = ".", "./"+d
	case k == 1 && d == "p/q/dst":
		c.Cwd, c.RelDst = ".", "p/q/../q/dst"
	case k == 2 && strings.HasPrefix(d, "p/q/"):
		c.Cwd, c.RelDst = "p/q", strings.TrimPrefix(d, "p/q/") // a single name: "dst"
	case k == 3 && strings.HasPrefix(d, "p/"):
		c.Cwd, c.RelDst = "p", "./"+strings.TrimPrefix(d, "p/")
	case k == 4 && d == "p/q/dst":
		c.Cwd, c.RelDst = "p/q/dst-evil", "../dst" // climbs first
	default:
		c.Cwd, c.RelDst = ".", d
	}
}

// corpus: witnesses of recorded findings and past disagreements, run before random generation
func unpackCorpus(arena string) []*UCase {
	mk := func(es ...UEntry) *UCase {
		return &UCase{Dst: "p/q/dst", Fault: "none", Entries: es, Init: baseInit()}
	}
	mkAllow := func(allow []string, es ...UEntry) *UCase {
		return &UCase{Dst: "p/q/dst", Fault: "none", Entries: es, Init: baseInit(), Allow: allow}
	}
	mkDst := func(dst string, es ...UEntry) *UCase {
		return &UCase{Dst: dst, Fault: "none", Entries: es, Init: baseInit()}
	}
	mkRel := func(cwd, rel string, es ...UEntry) *UCase {
		return &UCase{Dst: "p/q/dst", Cwd: cwd, RelDst: rel, Fault: "none", Entries: es, Init: baseInit()}
	}
	mkVia := func(k int, es ...UEntry) *UCase {
		c := &UCase{Dst: "p/q/dst", Fault: "none", Entries: es, Init: baseInit()}
		viaLink(c, k, arena)
		return c
	}
	mkInit := func(extra []FSNode, es ...UEntry) *UCase {
		return &UCase{Dst: "p/q/dst", Fault: "none", Entries: es, Init: append(baseInit(), extra...)}
	}
	Ty := func(e UEntry, t byte) UEntry { e.Typ = t; return e }
	L := func(n, t string) UEntry { return UEntry{Name: n, Typ: tar.TypeSymlink, Link: t, Mode: 0777, Mtime: 1400000000} }
	F := func(n, b string) UEntry { return UEntry{Name: n, Typ: tar.TypeReg, Body: b, Mode: 0644, Mtime: 1400000001} }
	Fm := func(n, b string, m int64) UEntry { return UEntry{Name: n, Typ: tar.TypeReg, Body: b, Mode: m, Mtime: 1400000001} }
	D := func(n string, m int64) UEntry { return UEntry{Name: n, Typ: tar.TypeDir, Mode: m, Mtime: 1400000002} }
	// header times: T sets the modification time, A records an access (and change) time in a header of format f
	T := func(e UEntry, sec, ns int64) UEntry { e.Mtime, e.MtimeNs = sec, ns; return e }
	A := func(e UEntry, f string, at int64) UEntry { e.Fmt, e.HasAtime, e.Atime, e.Ctime = f, true, at, at+5; return e }
	Fm2 := func(e UEntry, f string) UEntry { e.Fmt = f; return e }
	return []*UCase{
		mk(F("../dst-evil/x", "hi")),                         // F1 (fixed)
		mk(L("l", "../dst-evil")),                             // F2 (fixed)
		mk(L("d/l1", ".."), L("l2", "d/l1/..")),               // F3
		mk(L("d/l1", ".."), L("l2", "d/l1/.."), F("l2/outside.txt", "pwn")), // F3 + write
		mk(L("s", "."), L("c", "s/../outside.txt"), F("c", "pwn")),          // F3 + F5
		mk(D("d/", 0700), L("d", "../dst-evil")),              // F4 shape (needs F2)
		mk(L("l", "a"), F("l", "through")),                    // F5
		mk(D("e/", 0700)),                                     // F6 (fixed)
		mk(L("/a", "e")),                                      // F11 (fixed)
		mk(L("a/l", ".."), L("n/../a/l/k", "../x")),           // F28 (fixed)
		mk(L("s", "."), L("l", "s/.."), F("n/../l/evil.txt", "pwn")), // F28 (fixed) through an F3 chain: refused at the Lstat walk
		mk(L("s", "."), L("l", "s/.."), D("n/../l/evildir/", 0700)),
		mk(L("a", "."), F("a/../b", "through-dot-link")),       // the cleaned name is what is extracted: stays in dst
		mk(L("d/up", ".."), F("d/up/../dropped.txt", "x"), D("d/up/../newdir/", 0700)),
		mk(L("a", "."), L("a/../lnk", "b"), D("a/../../dst-evil/", 0777)),
		mk(L("l", arena+"/p/q/dst/a")),                            // F12
		mk(D("d/", 0555), F("d/a", "x"), F("d/a", "y")),
		mk(F("a", "1"), F("a", "2")),
		mk(D("d/", 0700), F("d/e/f", "deep"), D("d/e/", 0750)),
		// a link to a sibling whose name extends dst's, then an entry of the link's own name (seed C01-c)
		mk(L("l", "../dst-evil/x"), F("l", "pwn")),
		mk(L("l", "../dst-evil/new.txt"), F("l", "created")),
		mk(L("l", "../dst-evil"), D("l/", 0700)),
		// odd destinations: missing, a regular file, a link to a directory, spelled with a trailing slash / dot segments
		mkDst("p/q/missing", F("a", "1"), D("d/", 0755)),
		mkDst("p/q/outside.txt", F("a", "1")),
		mkDst("p/q/dst/", F("a", "1"), L("l", "a")),
		mkDst("p/q/./dst", F("a", "1"), L("l", "../dst-evil/x")),
		mkDst("p/q/dstx/../dst", F("a", "1"), L("d/l", "../a")),
		// a name with two leading slashes and a target that climbs above the link's depth and then
		// spells out dst's own absolute path (seed C04-b: the link judged at "/a/link", not at dst/a/link)
		mk(D("a/", 0755), L("//a/link", "../.."+arena+"/p/q/dst/inner")),
		mk(L("//link", ".."+arena+"/p/q/dst/inner")),
		// an absolute target that passes through an allow-listed directory and out again with '..': the
		// cleaned target lies in dst and is not allow-listed (seed C04-f: the allow-list was asked about the
		// raw target); with and without a later entry through the link
		mkAllow([]string{arena + "/p/q/dstx"}, L("cfg", arena+"/p/q/dstx/../dst/inner")),
		mkAllow([]string{arena + "/p/q/dstx"}, D("inner/", 0755), L("cfg", arena+"/p/q/dstx/../dst/inner"), F("cfg/x", "1")),
		mkAllow([]string{arena + "/p/q/dstx/"}, L("d/cfg", arena+"/p/q/dstx/sub/../../dst-evil/x")),
		// a read-only earlier version that is longer than the later one (seed C15-c; bites unprivileged)
		mk(Fm("a", "first version of a, the long one", 0400), F("a", "v2")),
		mk(D("d/", 0755), Fm("d/a", "first version of a, the long one", 0444), Fm("d/a", "v2", 0400), F("d/a", "3")),
		// recorded times at the edges: the epoch (0 s and 0.4 s; seed C02-f), one second later, both sides of
		// 2^31, 8^11 (beyond the ustar field)
		mk(T(F("a", "epoch"), 0, 0), T(F("b", "almost"), 0, 400000000), T(D("e/", 0755), 0, 0), T(F("c", "one"), 1, 0)),
		mk(T(F("a", "y2038"), 1<<31-1, 0), T(F("b", "y2038+"), 1<<31, 0), T(D("d/", 0750), 1<<33, 0), T(F("d/a", "octal+"), 1<<33, 999999999)),
		// an access time different from the modification time, in PAX records and in GNU header fields (seed C15-f)
		mk(A(D("d/", 0755), "", 1500000000), A(F("d/a", "pax-atime"), "", 1500000001), A(F("top", "x"), "", 0)),
		mk(A(D("d/", 0755), "gnu", 1500000000), A(F("d/a", "gnu-atime"), "gnu", 1500000001), Fm2(F("b", "gnu-plain"), "gnu"), A(T(F("c", "gnu-epoch"), 0, 0), "gnu", 1)),
		// what Pack writes: format chosen by archive/tar, times rounded to the second, no access time
		mk(Fm2(F("a", "auto"), "auto"), Fm2(T(F("b", "rounded-up"), 1400000001, 600000000), "auto"), Fm2(D("d/", 0755), "auto"), Fm2(T(F("d/big", "pax-by-need"), 1<<33, 0), "auto")),
		// explicit 0755 directories next to directories that exist only as parents (under -umask 077 the
		// former keep 0755, the latter get 0700; seed C09-f: chmod skipped for a recorded 0755)
		mk(D("x/y/", 0755), F("x/y/f", "explicit"), F("i/j/g", "implicit parents"), D("z/", 0755)),
		// dst relative to the working directory (seed C01-g: the link judged at <cwd>/<dst>/<dst>/<name>, as many
		// levels too deep as dst has components): a link that climbs exactly to dst's parent (and one, two levels
		// further), then a file / directory entry of the link's own name
		mkRel(".", "p/q/dst", L("l", "../outside.txt"), F("l", "pwn")),
		mkRel(".", "p/q/dst", L("l", "../fresh.txt"), F("l", "created")),
		mkRel(".", "./p/q/dst", L("sub/l", "../../outside.txt"), F("sub/l", "pwn")),
		mkRel(".", "p/q/../q/dst", L("l", "../../up.txt"), F("l", "pwn")),
		mkRel(".", "p/q/dst", L("l", "../dstx"), D("l/", 0755)),
		mkRel(".", "p/q/dst", L("l", "../../../etcx/passwd"), F("l", "pwn")),
		mkRel("p/q", "dst", L("l", "../outside.txt"), F("l", "pwn")),
		mkRel("p/q", "dst", L("l", "../dstx"), D("l/", 0755)),
		mkRel("p", "q/dst", L("d/l", "../../../up.txt"), F("d/l", "pwn")),
		mkRel("p/q/dst-evil", "../dst", L("l", "../outside.txt"), F("l", "pwn")),
		mkRel(".", "p/q/dst", F("a", "1"), D("d/", 0750), L("d/l", "../a"), F("d/e/f", "plain")), // an ordinary archive
		// backslashes are ordinary bytes of a name (seed C15-g: leading ones stripped, "\\main.tf" lands on "main.tf")
		mk(F("main.tf", "plain"), Fm(`\main.tf`, "backslash, longer", 0600)),
		mk(D("mod/", 0755), F("mod/a.tf", "a"), D(`\mod/`, 0700), F(`\mod/b.tf`, "b")),
		mk(F(`\\a`, "two"), F(`/\a`, "slash-backslash"), F(`d\a`, "inner"), F(`a\`, "trailing"), F(`\`, "only"), L(`\l`, "a")),
		// ... and of a link target (seed C04-g: rewritten to '/' after validation): the rewritten text would
		// reach a decoy
		mk(L("l", `..\dst-evil\x`), L("d/m", `..\..\outside.txt`), L("n", `d/..\..\..\up.txt`)),
		mk(L("l", `..\outside.txt`), F("l", "through")),
		mk(L("l", bsArena(arena)+`\etcx\passwd`), L("m", bsArena(arena)+`\p\q\dst\a`)),
		// dst reached through a symbolic link (seed C05-g): a symlinked ancestor, dst itself a link
		mkVia(0, F("a", "1"), D("d/", 0750), F("d/b", "2"), L("d/l", "../a")),
		mkVia(1, F("a", "1"), L("l", "a")),
		mkVia(2, F("a", "1"), D("d/", 0750), F("d/b", "2"), L("d/l", "../a")),
		mkVia(3, F("x/y", "deep"), L("x/l", "y")),
		mkVia(4, F("a", "1")),
		mkVia(5, F("a", "1"), L("l", "a")),
		mkVia(6, F("a", "1"), D("d/", 0700)),
		mkVia(7, F("a", "1")),
		mkVia(0, L("l", "../dst-evil"), F("l/x", "refused all the same")),
		mkVia(2, L("l", "../outside.txt"), F("l", "refused all the same")),
		// two links with leading-slash names whose (directory of the raw name, target) pairs are lexically the same
		// place when joined at the root - Join("/", "outside.txt") == Join("/", "../outside.txt") - although only the
		// first stays in dst; then a file / directory entry of the second link's own name (seed C01-h: a per-call
		// memo of accepted link destinations keyed by the raw, rooted name lets the second inherit the verdict of
		// the first). The unchanged code refuses the second link. Controls: the escaping link alone, the two in the
		// other order, the same without leading slashes.
		mk(L("/first", "outside.txt"), L("/second", "../outside.txt"), F("second", "pwn")),
		mk(L("/cfg/a", "../dstx"), L("/second", "../dstx"), D("second/", 0755)),
		mk(L("/first", "dst-evil/x"), L("//second", "../dst-evil/x"), F("/second", "pwn")),
		mk(L("/s/t/a", "../../up.txt"), F("b", "between"), L("/second", "../../up.txt"), Fm("second", "pwn", 0600)),
		mk(L("/k1/a", "../dst-evil"), L("/k2", "../dst-evil"), D("/k2/", 0700)),
		mk(L("/second", "../outside.txt"), F("second", "pwn")),
		mk(L("/second", "../outside.txt"), L("/first", "outside.txt"), F("second", "pwn")),
		mk(L("first", "outside.txt"), L("second", "../outside.txt"), F("second", "pwn")),
		// a link entry whose name is taken: by an empty directory, by another link (both of the same archive), by
		// what an earlier extraction left in dst. The unchanged code stops with "file exists" and x keeps resolving
		// inside dst (seed C04-h: the taken name is removed and the link created again, so a component that the
		// earlier link x walks through and climbs back from becomes shallower and x leads out of dst). Every shape
		// creates the traversed component BEFORE x: with x first the unchanged code has F3.
		mk(D("a/b/", 0755), L("x", "a/b/../../outside.txt"), L("a/b", ".")),
		mk(D("a/c/", 0755), L("a/b", "c"), L("x", "a/b/../.."), L("a/b", ".")),
		mkInit([]FSNode{{Path: "p/q/dst/a", Kind: "d", Perm: 0755}, {Path: "p/q/dst/a/b", Kind: "d", Perm: 0755}, {Path: "p/q/dst/x", Kind: "l", Data: "a/b/../.."}}, L("a/b", ".")),
		mk(D("d/e/", 0750), L("d/x", "e/../../outside.txt"), F("b", "between"), L("d/e", ".")),
		mk(F("a/b", "a file in the way"), L("x", "a/b/../.."), L("a/b", ".")),
		// types that archive/tar gives a regular-file mode but that are not regular files: '7' (contiguous file) and
		// the old-GNU sparse file 'S', both with a body, and the hard link '1' (seed C12-h: accepted by a type gate
		// that looks at the mode, then skipped with their bodies: success and a partial tree). The unchanged code
		// refuses them as unsupported.
		mk(F("a", "plain"), Ty(F("main.tf", "contiguous body"), tar.TypeCont)),
		mk(D("d/", 0755), Ty(F("d/sparse.bin", "sparse body"), tar.TypeGNUSparse), F("z", "after")),
		mk(F("a.txt", "first name"), Ty(L("copy-of-a.txt", "a.txt"), tar.TypeLink)),
		mk(Ty(F("only", ""), tar.TypeCont)),
		mk(F("a", "1"), Ty(F("d/e/deep", "contiguous, nested"), tar.TypeCont), D("g/", 0700)),
	}
}

func init() {
	lanes["unpack"] = func(cfg *Config, rep *Report) {
		rep.Rule = "archives of 1..12 entries over a 31-name universe (plain, nested, leading '/', './', '..' detours, sibling-prefix and parent escapes, through-link names) x {file, dir, symlink over 30 target shapes incl. absolute, chains, '..' after names, sibling prefix; hard link, fifo, devices, PAX global header} x modes x header times (2014 stamps next to the boundary pool 0, 1, 2^31-1, 2^31, 8^11 s and .4/.5/.6/.999999999 s fractions; header format PAX / GNU / chosen by archive/tar; for PAX and GNU an access and change time different from the mtime on 30% of the entries) x backslashes as ordinary bytes (7% of the names from a pool of 19: leading, doubled, after '/', inner, trailing, nothing but backslashes, mixed with '/'; 8% of the link targets from a pool of 17 whose separator-rewritten form would reach a decoy inside the arena, incl. the arena's own path spelled with backslashes) x optional pre-existing dst content x optional allow-list x destination shape (6% reached through a symbolic link: symlinked ancestor one or two levels up, dst itself a link to a directory, relative / absolute / '..' link targets, judged at the physical place; 12% given relative to the working directory, which is then the arena, p, p/q or a sibling of dst: one such case at a time inside its Chdir..Unpack section; put to the model with the arena as filesystem root when the working directory is the arena and no path spells the arena's absolute name, otherwise oracles only); with -umask other than 022 the same cases run under that umask without model comparison (oracles only); plus N/25 shaped archives after the random ones (a third each: two links with leading-slash names whose rooted (directory, target) pairs are lexically the same place, the first inside dst, the second outside, then a file or directory entry of the second link's name, with the controls no slash / other order; a link entry whose name is taken by an empty directory, a file, another link or earlier content of dst and which an earlier link walks through and climbs back from; a file under the typeflag '7' contiguous or 'S' old-GNU sparse (with bodies; the sparse map is patched into the header block) or a hard link '1' among ordinary entries); each unpacked into a fresh arena (dst + prefix-sharing siblings + decoy file); non-trivial = has a link, a '..', a duplicate name or a leading '/'; distinct by (init, entries, allow, dst spelling, working directory)"
		r := NewRng(cfg.Seed)
		if cfg.Work == "" {
			rep.Broken = append(rep.Broken, "unpack lane needs -work")
			return
		}
		work, err := filepath.EvalSymlinks(cfg.Work)
		if err != nil {
			rep.Broken = append(rep.Broken, "work dir: "+err.Error())
			return
		}
		// -umask: the whole lane runs under that umask; any other than 022 is outside the filesystem model
		// (no requests are sent) and the implementation-level oracles judge alone
		umask := laneUmask(cfg)
		syscall.Umask(umask)
		probeFsTimes(work)
		// the process working directory during the lane is the scratch directory (a relative path that strayed
		// from a relative-dst case would land there and nowhere else); restored when the lane is done
		if owd, err := os.Getwd(); err == nil {
			defer os.Chdir(owd)
		}
		if err := os.Chdir(work); err != nil {
			rep.Broken = append(rep.Broken, "work dir: "+err.Error())
			return
		}
		type job struct {
			idx   int
			c     *UCase
			arena string
		}
		var jobs []job
		// arenas have fixed-length names so that absolute paths in cases are reproducible from the seed
		mkArena := func(i int) string { return filepath.Join(work, fmt.Sprintf("u%06d", i)) }
		for _, c := range unpackCorpus(mkArena(0)) {
			jobs = append(jobs, job{c: c})
		}
		for nCorpus := len(jobs); len(jobs) < cfg.N+nCorpus; {
			jobs = append(jobs, job{})
		}
		for i := range jobs {
			jobs[i].idx = i
			jobs[i].arena = mkArena(i)
			if jobs[i].c == nil {
				jobs[i].c = genUCase(r, jobs[i].arena)
			} else {
				// corpus cases mention arena paths of u000000: rewrite
				for k := range jobs[i].c.Entries {
					jobs[i].c.Entries[k].Link = strings.Replace(jobs[i].c.Entries[k].Link, mkArena(0), jobs[i].arena, 1)
				}
				for k := range jobs[i].c.Entries {
					jobs[i].c.Entries[k].Link = strings.Replace(jobs[i].c.Entries[k].Link, bsArena(mkArena(0)), bsArena(jobs[i].arena), 1)
				}
				for k := range jobs[i].c.Allow {
					jobs[i].c.Allow[k] = strings.Replace(jobs[i].c.Allow[k], mkArena(0), jobs[i].arena, 1)
				}
				for k := range jobs[i].c.Init {
					if jobs[i].c.Init[k].Kind == "l" {
						jobs[i].c.Init[k].Data = strings.Replace(jobs[i].c.Init[k].Data, mkArena(0), jobs[i].arena, 1)
					}
				}
			}
		}
		// shaped cases, on top of the N random ones and after them in the random stream (the random cases of a
		// seed stay what they were): N/25 archives built around one order- or spelling-dependent mechanism each
		for k, n := 0, cfg.N/25; k < n; k++ {
			i := len(jobs)
			c, shape := genShapedUCase(r, k)
			rep.Count("shaped:" + shape)
			jobs = append(jobs, job{idx: i, arena: mkArena(i), c: c})
		}
		// exact replay (-case): the recorded case takes the last slot and an arena of its own (the
		// ordinary cases keep their arenas and their share of the random stream) and is run first, alone
		var replay *job
		var rc UCase
		if loadReplayInput(cfg, "unpack", &rc) {
			j := job{idx: len(jobs), c: &rc, arena: mkArena(999999)}
			if why := prepareReplayedUCase(&rc, j.arena, work); why != "" {
				rep.ReplayNote("refused: " + why)
			} else {
				jobs = append(jobs, j)
				replay = &jobs[len(jobs)-1]
			}
		} else {
			replayMissing(cfg, rep, "unpack")
		}
		reqs := make([]string, len(jobs))
		impl := make([]string, len(jobs))
		human := make([]interface{}, len(jobs))
		if replay != nil {
			rep.BeginReplay()
			// the replayed case runs alone: it gets the umask it was recorded under
			ru := umask
			if replay.c.Umask != "" {
				if v, err := strconv.ParseUint(replay.c.Umask, 8, 12); err == nil {
					ru = int(v)
				}
			}
			syscall.Umask(ru)
			runUnpackCase(cfg, rep, ru, replay.idx, replay.c, replay.arena, reqs, impl, human)
			syscall.Umask(umask)
			os.RemoveAll(replay.arena)
			rep.EndReplay(reqs[replay.idx])
			jobs = jobs[:len(jobs)-1]
		}
		// two phases: the cases that hand Unpack an absolute dst, concurrently; then the cases that run with the
		// working directory inside their arena and a relative dst. os.Chdir is process-wide, so of the latter
		// only one at a time is inside its Chdir .. Unpack .. Chdir section (cwdMu, in runUnpackCase); building
		// the arena and the snapshots of other such cases overlap with it.
		for phase := 0; phase < 2; phase++ {
			var wg sync.WaitGroup
			sem := make(chan struct{}, 16)
			for _, j := range jobs {
				if (j.c.RelDst != "") != (phase == 1) {
					continue
				}
				wg.Add(1)
				sem <- struct{}{}
				go func(j job) {
					defer wg.Done()
					defer func() { <-sem }()
					runUnpackCase(cfg, rep, umask, j.idx, j.c, j.arena, reqs, impl, human)
					os.RemoveAll(j.arena)
				}(j)
			}
			wg.Wait()
		}
		// compact (cases the generator could not materialise are skipped)
		var rq, im []string
		var hu []interface{}
		remap := map[int]int{}
		for i := range reqs {
			if reqs[i] != "" {
				remap[i+1] = len(rq) + 1
				rq = append(rq, reqs[i])
				im = append(im, impl[i])
				hu = append(hu, human[i])
			}
		}
		for k := range rep.OracleFailures {
			rep.OracleFailures[k].ReqIdx = remap[rep.OracleFailures[k].ReqIdx]
		}
		rep.Compare(cfg.Driver, rq, im, hu)
	}
}

// laneUmask: the umask given with -umask (022 when the Config was built without the flag)
func laneUmask(cfg *Config) int {
	if !cfg.UmaskGiven {
		return 022
	}
	return cfg.Umask & 0777
}

// fsMaxMtime: the largest of the generated times the scratch filesystem stores faithfully (an ext4 with
// 128-byte inodes or an XFS without bigtime clamps at 2^31-1 / 2038); archives that record a later time
// are outside what the model and the reference can be compared on there and are skipped (counted).
var fsMaxMtime int64 = 1<<62

func probeFsTimes(work string) {
	f := filepath.Join(work, "time-probe")
	if os.WriteFile(f, nil, 0600) != nil {
		return
	}
	defer os.Remove(f)
	fsMaxMtime = 1400000000
	for _, t := range []int64{1<<31 - 1, 1 << 31, 1 << 33, 1<<33 + 86400} {
		tt := time.Unix(t, 0)
		if os.Chtimes(f, tt, tt) != nil {
			return
		}
		if fi, err := os.Stat(f); err != nil || fi.ModTime().Unix() != t {
			return
		}
		fsMaxMtime = t
	}
	fsMaxMtime = 1<<62
}

func runUnpackCase(cfg *Config, rep *Report, umask int, idx int, c *UCase, arena string, reqs, impl []string, human []interface{}) {
	for _, e := range c.Entries {
		if e.Mtime > fsMaxMtime || (e.HasAtime && e.Atime > fsMaxMtime) {
			rep.Count("skipped:fs-time-range")
			return
		}
	}
	if umask != 022 {
		c.Umask = fmt.Sprintf("%03o", umask)
	} else {
		c.Umask = ""
	}
	if err := materialise(arena, c.Init); err != nil {
		rep.mu.Lock()
		rep.Broken = append(rep.Broken, "materialise: "+err.Error())
		rep.mu.Unlock()
		return
	}
	// the destination is handed to Unpack (and to the model) as spelled; the oracles work with its
	// cleaned form
	dst := arena + "/" + c.Dst
	// where dst physically is: the place itself when no component of it is a symbolic link, otherwise what
	// the links lead to (dst below a symlinked ancestor, dst itself a link to a directory). The oracles
	// look at the physical place: that is where an Unpack into dst works.
	dstPhys := filepath.Clean(dst)
	viaLinkDst := false
	if res, ok := resolvePhys("/", strings.Split(dstPhys, "/"), 40); ok && res != dstPhys {
		if res == arena || !within(arena, res) {
			rep.Count("skipped:dst-leaves-arena")
			return
		}
		dstPhys, viaLinkDst = res, true
		rep.Count("dst:via-link")
	}
	dstRel := strings.TrimPrefix(dstPhys, arena+"/")
	physAbs := func(p string) string {
		p = filepath.Clean(p)
		if viaLinkDst {
			if res, ok := resolvePhys("/", strings.Split(p, "/"), 40); ok {
				return res
			}
		}
		return p
	}
	data := buildTarGz(c.Entries)
	decoded, derr := decodeTar(data)
	if derr != nil {
		rep.Count("skipped:undecodable")
		return
	}
	if c.RelDst != "" {
		if strings.HasPrefix(c.RelDst, "/") || strings.HasPrefix(c.Cwd, "/") || c.Cwd == "" ||
			filepath.Join(arena, c.Cwd, c.RelDst) != filepath.Clean(dst) || !within(arena, filepath.Join(arena, c.Cwd)) {
			rep.mu.Lock()
			rep.Broken = append(rep.Broken, fmt.Sprintf("relative dst %q from %q does not name dst %q", c.RelDst, c.Cwd, c.Dst))
			rep.mu.Unlock()
			return
		}
		rep.Count("dst:relative")
	}
	start := time.Now()
	before := snapshot(arena, start)
	var out unpackOutcome
	if c.RelDst == "" {
		out = runUnpack(bytes.NewReader(data), dst, c.Allow)
	} else {
		// the working directory is process-wide: one relative-dst case at a time
		cwdMu.Lock()
		back, gerr := os.Getwd()
		if gerr != nil {
			back = filepath.Dir(arena)
		}
		if err := os.Chdir(filepath.Join(arena, c.Cwd)); err != nil {
			cwdMu.Unlock()
			rep.mu.Lock()
			rep.Broken = append(rep.Broken, "chdir: "+err.Error())
			rep.mu.Unlock()
			return
		}
		out = runUnpack(bytes.NewReader(data), c.RelDst, c.Allow)
		os.Chdir(back)
		cwdMu.Unlock()
	}
	after := snapshot(arena, start)

	priv := "1"
	if os.Geteuid() != 0 {
		priv = "0"
		rep.Count("unprivileged")
	}
	line := fmt.Sprintf("unpack %s %s %s %s %s %s %s", priv, X("/"), X(dst), encStrList(c.Allow), c.Fault, encArena(arena, before), encEntries(decoded))
	implLine := out.class + " " + encArena(arena, after)
	relOutside := false
	if c.RelDst != "" {
		// The filesystem model resolves every path from its root: a relative path means "relative to /". A
		// relative-dst case is therefore put to the model with the arena as the root of the filesystem and
		// "/" as the working directory (what a chroot into the arena would show). That is faithful as long as
		// no path of the case is spelled with the arena's real absolute name and the working directory is the
		// arena itself; the other relative-dst cases are judged by the oracles alone.
		relOutside = filepath.Clean(c.Cwd) != "." || mentionsArena(c, arena)
		line = fmt.Sprintf("unpack %s %s %s %s %s %s %s", priv, X("/"), X(c.RelDst), encStrList(c.Allow), c.Fault, encArenaRooted(before), encEntries(decoded))
		implLine = out.class + " " + encArenaRooted(after)
	}
	// The filesystem model has no directory permission checks (FS.lean: only the owner-write test of
	// create).  For an unprivileged run they bite in one place: the deferred directory pass restores
	// modes in archive order, so a directory entry whose mode lacks the owner's search bit, followed by
	// a directory entry below it, makes the later chmod fail with EACCES (observed: thorough tier, uid
	// 65534, an entry "/" of mode 0400 for dst itself).  A sequential reading by an unprivileged process
	// fails there too, and C15 constrains successful runs only; such cases are outside the model's domain
	// and are neither compared with it nor judged by the "well-formed archive refused" oracle.
	dirPermOutside := priv == "0" && unprivDirPermBites(decoded)
	if dirPermOutside {
		rep.Count("outside-model:unprivileged-dir-search-bit")
	} else if umask != 022 {
		rep.Count("outside-model:umask")
	} else if relOutside {
		rep.Count("outside-model:relative-dst")
	} else {
		reqs[idx] = line
		impl[idx] = implLine
		human[idx] = c
	}

	nt := false
	seen := map[string]bool{}
	for _, e := range decoded {
		if e.Typ == tar.TypeSymlink || strings.Contains(e.Name, "..") || strings.HasPrefix(e.Name, "/") || seen[filepath.Clean(e.Name)] {
			nt = true
		}
		seen[filepath.Clean(e.Name)] = true
	}
	h := sha256.Sum256([]byte(fmt.Sprintf("%v|%v|%v|%s|%s|%s", c.Init, c.Entries, c.Allow, c.Dst, c.Cwd, c.RelDst)))
	rep.Case(hex.EncodeToString(h[:]), nt, map[string]interface{}{"entries": c.Entries, "allow": c.Allow, "result": out.class})
	rep.Count("result:" + out.class)
	for _, e := range decoded {
		rep.Count(fmt.Sprintf("type:%c", e.Typ))
	}
	for _, e := range c.Entries {
		if strings.Contains(e.Name, `\`) {
			rep.Count("names:backslash")
		}
		if e.Typ == tar.TypeSymlink && strings.Contains(e.Link, `\`) {
			rep.Count("targets:backslash")
		}
		if e.HasAtime {
			rep.Count("times:atime-recorded")
		}
		if e.Fmt != "" {
			rep.Count("format:" + e.Fmt)
		}
		if e.Mtime < 1400000000 || e.Mtime >= 1<<31-1 {
			rep.Count("times:boundary-mtime")
		}
	}

	if out.panicked != nil || out.timeout {
		rep.AddOracle(OracleFailure{Property: "C19", Lane: "unpack", What: fmt.Sprintf("Unpack %s: %v", out.class, out.panicked), Input: c, ReqIdx: idx + 1})
	}

	// ---- C01: nothing outside dst changes ----
	bm := map[string]FSNode{}
	for _, n := range before {
		bm[n.Path] = n
	}
	am := map[string]FSNode{}
	for _, n := range after {
		am[n.Path] = n
	}
	// ---- C12: an Unpack that reports success has processed the whole archive: its last file, directory
	// or link entry is there (seed C12-e: a swallowed rejection ends the loop early with a nil error)
	// ... and every entry that announces a file under another type than the three that can be restored - a
	// contiguous file '7', a sparse file 'S' (both with a body), a hard link '1' (a second name of a file) - has
	// either made Unpack fail or is there (seed C12-h: accepted by a type gate that looks at the header's
	// mode, then skipped: nil and a partial tree). The unchanged code refuses these types.
	if out.class == "ok" {
		for _, e := range decoded {
			if (e.Typ != tar.TypeCont && e.Typ != tar.TypeGNUSparse && e.Typ != tar.TypeLink) || e.Name == "" {
				continue
			}
			rel := filepath.Clean(strings.TrimPrefix(e.Name, "/"))
			if rel == "." || rel == ".." || strings.HasPrefix(rel, "../") {
				continue
			}
			if _, there := am[filepath.Join(dstRel, rel)]; !there {
				rep.AddOracle(OracleFailure{Property: "C12", Lane: "unpack", What: fmt.Sprintf("Unpack returned nil but the entry %q (typeflag '%c', %d bytes of content) was neither materialised nor reported: the destination is a partial tree", e.Name, e.Typ, len(e.Body)), Input: c, ReqIdx: idx + 1})
				break
			}
		}
	}
	if out.class == "ok" {
		for k := len(decoded) - 1; k >= 0; k-- {
			e := decoded[k]
			if e.Typ != tar.TypeReg && e.Typ != tar.TypeRegA && e.Typ != tar.TypeDir && e.Typ != tar.TypeSymlink {
				continue
			}
			if e.Name == "" {
				continue
			}
			rel := filepath.Clean(strings.TrimPrefix(e.Name, "/"))
			if rel == "." || rel == ".." || strings.HasPrefix(rel, "../") {
				break
			}
			// (looked up in the snapshot, which also sees below directories that the archive made unsearchable
			// for an unprivileged observer: a dst entry of mode 0644 is no loss of the last entry)
			if _, there := am[filepath.Join(dstRel, rel)]; !there {
				rep.AddOracle(OracleFailure{Property: "C12", Lane: "unpack", What: fmt.Sprintf("Unpack returned nil but the archive's last entry %q was not materialised", e.Name), Input: c, ReqIdx: idx + 1})
			}
			break
		}
	}

	inDst := func(p string) bool { return p == dstRel || strings.HasPrefix(p, dstRel+"/") }
	_, dstExisted := bm[dstRel]
	var outside []string
	for p, b := range bm {
		if inDst(p) {
			continue
		}
		a, ok := am[p]
		if !ok {
			outside = append(outside, "removed:"+p)
		} else if a != b {
			outside = append(outside, "changed:"+p)
		}
	}
	for p := range am {
		if inDst(p) {
			continue
		}
		if _, ok := bm[p]; !ok {
			outside = append(outside, "created:"+p)
		}
	}
	if !dstExisted {
		// creating a missing destination necessarily touches its parent directory's times
		var kept []string
		for _, o := range outside {
			if o != "changed:"+filepath.Dir(dstRel) {
				kept = append(kept, o)
			}
		}
		outside = kept
	}
	// with an allow-list the caller has opted into links leading to the listed places; what an archive
	// does through such a link is outside C01's claim (the allow-listed places themselves may change)
	if len(c.Allow) > 0 {
		var kept []string
		for _, o := range outside {
			p := filepath.Join(arena, o[strings.Index(o, ":")+1:])
			ok := false
			for _, a := range c.Allow {
				if !strings.HasPrefix(a, "/") {
					a = filepath.Join(dst, a)
				}
				if within(physAbs(a), p) || within(p, physAbs(a)) {
					ok = true
				}
			}
			if !ok {
				kept = append(kept, o)
			}
		}
		outside = kept
	}
	if len(outside) > 0 {
		sort.Strings(outside)
		sig := unpackSignature(c, "outside")
		if _, yes := linkReplacedExisting(decoded, bm, am, dstRel); yes {
			sig = ""
		}
		rep.AddOracle(OracleFailure{Property: "C01", Lane: "unpack", What: "outside dst: " + strings.Join(outside, ", ") + " (result " + out.class + ")",
			Input: c, Signature: sig, ReqIdx: idx + 1})
	}

	// ---- C04: every link under dst resolves inside dst (or an allow-listed place) ----
	allowedAbs := func(p string) bool {
		for _, a := range c.Allow {
			if !strings.HasPrefix(a, "/") {
				a = filepath.Join(dst, a)
			}
			if within(physAbs(a), p) {
				return true
			}
		}
		return false
	}
	initLinks := map[string]bool{}
	for _, n := range c.Init {
		if n.Kind == "l" {
			initLinks[n.Path] = true
		}
	}
	for _, n := range after {
		if n.Kind != "l" || !inDst(n.Path) {
			continue
		}
		linkAbs := filepath.Join(arena, n.Path)
		base := filepath.Dir(linkAbs)
		if strings.HasPrefix(n.Data, "/") {
			base = "/"
		}
		res, ok := resolvePhys(base, strings.Split(n.Data, "/"), 40)
		if !ok {
			continue // a loop leads nowhere
		}
		if !within(dstPhys, res) && !allowedAbs(res) {
			sig := unpackSignature(c, "link")
			how := ""
			if p, yes := linkReplacedExisting(decoded, bm, am, dstRel); yes {
				// not the recorded mechanism (F3 needs no replacement): reported unsigned
				sig = ""
				how = fmt.Sprintf("; the link entry %q replaced what was at its name before (an earlier entry or earlier content of dst), which os.Symlink never does", p)
			}
			rep.AddOracle(OracleFailure{Property: "C04", Lane: "unpack", What: fmt.Sprintf("link %s -> %q resolves to %s, outside dst (result %s)%s", n.Path, n.Data, strings.TrimPrefix(res, arena), out.class, how),
				Input: c, Signature: sig, ReqIdx: idx + 1})
		} else if strings.HasPrefix(n.Data, "/") && !initLinks[n.Path] && !allowedAbs(physAbs(n.Data)) {
			rep.AddOracle(OracleFailure{Property: "C04", Lane: "unpack", What: fmt.Sprintf("link %s has the absolute target %q and was accepted", n.Path, strings.Replace(n.Data, arena, "<arena>", 1)),
				Input: c, Signature: "unpack.link-abs-inside", ReqIdx: idx + 1})
		}
	}

	// ---- C15: well-formed archives are materialised as the reference interpreter says ----
	dstIsDirOrMissing := !dstExisted || bm[dstRel].Kind == "d"
	if len(c.Allow) == 0 && onlyStandardInit(c.Init) && wellFormedForC15(decoded) && dstIsDirOrMissing && !dirPermOutside {
		tree, ok, wantErr := refUntar(decoded, umask)
		if ok {
			rep.Count("c15:judged")
			if wantErr {
				if out.class == "ok" {
					rep.AddOracle(OracleFailure{Property: "C15", Lane: "unpack", What: "entry of an unrepresentable type was dropped instead of failing", Input: c, ReqIdx: idx + 1})
				}
			} else if out.class != "ok" {
				rep.AddOracle(OracleFailure{Property: "C15", Lane: "unpack", What: "well-formed archive refused: " + out.class, Input: c, ReqIdx: idx + 1})
				if packShaped(decoded) {
					// ... and it is of the shape Pack writes (clean relative names, one entry per path, files,
					// directories and relative in-tree links only): "Unpack accepts every slug Pack produces"
					how := "an absolute dst"
					if viaLinkDst {
						how = "a dst that is reached through a symbolic link"
					} else if c.RelDst != "" {
						how = "a dst relative to the working directory"
					}
					rep.AddOracle(OracleFailure{Property: "C05", Lane: "unpack", What: "Unpack into " + how + " refuses an archive of the shape Pack produces (relative in-tree links only): " + out.class, Input: c, ReqIdx: idx + 1})
				}
			} else {
				var diffs []string
				got := map[string]FSNode{}
				for _, n := range after {
					if strings.HasPrefix(n.Path, dstRel+"/") {
						got[strings.TrimPrefix(n.Path, dstRel+"/")] = n
					}
				}
				for p, w := range tree {
					g, ok := got[p]
					if !ok {
						diffs = append(diffs, "missing:"+p)
						continue
					}
					if g.Kind != w.kind || g.Data != w.data || (w.kind != "l" && (g.Perm != w.perm || g.Mtime != w.mtime)) {
						diffs = append(diffs, fmt.Sprintf("differs:%s(got %s %o %d, want %s %o %d)", p, g.Kind, g.Perm, g.Mtime, w.kind, w.perm, w.mtime))
					}
				}
				for p := range got {
					if _, ok := tree[p]; !ok {
						diffs = append(diffs, "extra:"+p)
					}
				}
				if len(diffs) > 0 {
					sort.Strings(diffs)
					rep.AddOracle(OracleFailure{Property: "C15", Lane: "unpack", What: "destination differs from the sequential reading: " + strings.Join(diffs, ", "), Input: c, ReqIdx: idx + 1})
				}
			}
		}
	}
}

// prepareReplayedUCase makes a recorded case runnable in arena: absolute paths that name the arena of the
// run that produced it (".../u000123" inside link targets and allow-list entries) are rewritten, and
// the case is refused ("" = accepted) if it mentions a path outside the scratch directory.
func prepareReplayedUCase(c *UCase, arena, work string) string {
	if c.Dst == "" || len(c.Init) == 0 {
		return "the recorded input is not an unpack case (no dst / initial arena content)"
	}
	if d := filepath.Clean(c.Dst); strings.HasPrefix(c.Dst, "/") || d == ".." || strings.HasPrefix(d, "../") {
		return fmt.Sprintf("dst %q is not a path below the arena", c.Dst)
	}
	if c.RelDst != "" || c.Cwd != "" {
		// a relative dst: it must name dst from a working directory inside the arena
		if c.RelDst == "" || c.Cwd == "" || strings.HasPrefix(c.RelDst, "/") || strings.HasPrefix(c.Cwd, "/") || countDotDot(c.Cwd) > 0 ||
			countDotDot(c.RelDst) > 3 || filepath.Join("/a", c.Cwd, c.RelDst) != filepath.Join("/a", c.Dst) {
			return fmt.Sprintf("relative dst %q from working directory %q does not name dst %q inside the arena", c.RelDst, c.Cwd, c.Dst)
		}
	}
	rw := func(s string) string {
		if strings.Contains(s, `\`) && !strings.Contains(s, "/") {
			// the arena spelled with backslashes (targets that a separator rewriting would make absolute)
			return strings.ReplaceAll(rewriteArena(strings.ReplaceAll(s, `\`, "/"), 'u', 6, arena), "/", `\`)
		}
		return rewriteArena(s, 'u', 6, arena)
	}
	// a target or allow-list entry is also judged in the form a separator rewriting would give it
	unsafeBs := func(s string) string {
		if !strings.Contains(s, `\`) {
			return ""
		}
		return unsafeTarget(strings.ReplaceAll(s, `\`, "/"), arena)
	}
	for k := range c.Init {
		n := &c.Init[k]
		if why := unsafeRelName(n.Path, false); why != "" {
			return "initial node: " + why
		}
		if n.Kind == "l" {
			n.Data = rw(n.Data)
			if why := unsafeTarget(n.Data, arena); why != "" {
				return "initial link " + n.Path + ": " + why
			}
			if why := unsafeBs(n.Data); why != "" {
				return "initial link " + n.Path + ": " + why
			}
		}
	}
	for k := range c.Entries {
		e := &c.Entries[k]
		if why := unsafeRelName(e.Name, true); why != "" {
			return "entry name: " + why
		}
		e.Link = rw(e.Link)
		if why := unsafeTarget(e.Link, arena); why != "" {
			return "link target of entry " + e.Name + ": " + why
		}
		if why := unsafeBs(e.Link); why != "" {
			return "link target of entry " + e.Name + " (backslashes read as separators): " + why
		}
		if why := unsafeRelName(strings.ReplaceAll(e.Name, `\`, "/"), true); why != "" {
			return "entry name (backslashes read as separators): " + why
		}
	}
	for k := range c.Allow {
		c.Allow[k] = rw(c.Allow[k])
		if why := unsafeTarget(c.Allow[k], arena); why != "" {
			return "allow-list entry: " + why
		}
		if why := unsafeBs(c.Allow[k]); why != "" {
			return "allow-list entry: " + why
		}
	}
	_ = work
	return ""
}

func onlyStandardInit(init []FSNode) bool {
	for _, n := range init {
		if strings.HasPrefix(n.Path, "p/q/dst/") {
			return false
		}
	}
	return true
}

var cwdMu sync.Mutex

// encArenaRooted renders a snapshot with the arena as the root of the filesystem (the arena's own node is
// the model's root directory, which always exists and is not listed).
func encArenaRooted(nodes []FSNode) string {
	var parts []string
	for _, n := range nodes {
		if n.Path == "" {
			continue
		}
		parts = append(parts, encNodeAbs("/"+n.Path, n))
	}
	if len(parts) == 0 {
		return "-"
	}
	return strings.Join(parts, ",")
}

// mentionsArena: a link target, allow-list entry or initial link of the case spells the arena's absolute path
func mentionsArena(c *UCase, arena string) bool {
	for _, e := range c.Entries {
		if strings.Contains(e.Link, arena) || strings.Contains(e.Name, arena) {
			return true
		}
	}
	for _, a := range c.Allow {
		if strings.Contains(a, arena) {
			return true
		}
	}
	for _, n := range c.Init {
		if n.Kind == "l" && strings.Contains(n.Data, arena) {
			return true
		}
	}
	return false
}

// packShaped: the entry list could have been written by Pack: files, directories and links only, each name
// relative and clean (a directory's with or without its trailing slash), one entry per path.
func packShaped(es []UEntry) bool {
	seen := map[string]bool{}
	for _, e := range es {
		if e.Typ != tar.TypeReg && e.Typ != tar.TypeDir && e.Typ != tar.TypeSymlink {
			return false
		}
		n := e.Name
		if e.Typ == tar.TypeDir {
			n = strings.TrimSuffix(n, "/")
		}
		if n == "" || n == "." || strings.HasPrefix(n, "/") || filepath.Clean(n) != n || n == ".." || strings.HasPrefix(n, "../") || seen[n] {
			return false
		}
		seen[n] = true
	}
	return true
}
