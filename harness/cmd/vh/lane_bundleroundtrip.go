package main

import (
	"bytes"
	"fmt"
	"os"
	"path/filepath"
	"sort"
	"strings"

	"github.com/hashicorp/go-slug/sourcebundle"
)

// bundle-roundtrip lane (C09): a finished bundle is opened again and archived + extracted
// elsewhere; every accessor, the checksum, every lookup relative to the root and the files must
// be indistinguishable from the bundle Close returned.

func bundleCanon(b *sourcebundle.Bundle, root string, w *BWorld, ops []BOp) string {
	run := &bRun{bundle: b, env: &bEnv{analysed: map[string]int{}}, results: nil}
	s := run.canon(w)
	cs, _ := b.ChecksumV1()
	// lookups relative to the root for everything the world mentions
	var lk []string
	for _, p := range w.Pkgs {
		for _, sub := range bSubPool {
			lp, err := b.LocalPathForRemoteSource(mustRemote(p.Addr, sub))
			if err != nil {
				lk = append(lk, p.Addr+"//"+sub+"=err")
			} else {
				rel, _ := filepath.Rel(root, lp)
				lk = append(lk, p.Addr+"//"+sub+"="+rel)
				// the reverse lookup, several times: with coalesced packages several addresses share the
				// directory and the answer must not depend on map iteration order (seed C09-c)
				seen := map[string]bool{}
				for k := 0; k < 6; k++ {
					if src, err := b.SourceForLocalPath(lp); err != nil {
						seen["err"] = true
					} else {
						seen[src.String()] = true
					}
				}
				var rv []string
				for k := range seen {
					rv = append(rv, k)
				}
				sort.Strings(rv)
				lk = append(lk, "rev:"+rel+"="+strings.Join(rv, "|"))
			}
		}
	}
	sort.Strings(lk)
	return s + " checksum=" + cs + " lookups=" + strings.Join(lk, ";")
}

func treeListing(root string) string {
	var out []string
	filepath.Walk(root, func(p string, info os.FileInfo, err error) error {
		if err != nil {
			return nil
		}
		rel, _ := filepath.Rel(root, p)
		if rel == "." {
			return nil
		}
		switch {
		case info.Mode()&os.ModeSymlink != 0:
			t, _ := os.Readlink(p)
			out = append(out, fmt.Sprintf("%s l %s", rel, t))
		case info.IsDir():
			out = append(out, fmt.Sprintf("%s d %o", rel, info.Mode().Perm()))
		default:
			b, _ := os.ReadFile(p)
			out = append(out, fmt.Sprintf("%s f %o %x", rel, info.Mode().Perm(), b))
		}
		return nil
	})
	sort.Strings(out)
	return strings.Join(out, "\n")
}

func firstDiffLine(a, b string) string {
	al, bl := strings.Split(a, "\n"), strings.Split(b, "\n")
	as := map[string]bool{}
	for _, l := range al {
		as[l] = true
	}
	bs := map[string]bool{}
	for _, l := range bl {
		bs[l] = true
	}
	for _, l := range al {
		if !bs[l] {
			return "only before: " + l
		}
	}
	for _, l := range bl {
		if !as[l] {
			return "only after: " + l
		}
	}
	return ""
}

func init() {
	lanes["bundle-roundtrip"] = func(cfg *Config, rep *Report) {
		rep.Rule = "error-free scripted worlds (as in the builder lane; package trees with an empty directory, 0755/0600 files, an in-package relative link, a non-ASCII name, and - for half of the contents - a rule file re-including .terraform); the finished bundle is (a) opened again with OpenDir, (b) written with WriteArchive and extracted with ExtractArchive into another directory; compared: all accessors, ChecksumV1, every lookup relative to the root, recursive tree listing; non-trivial = has a registry package or metadata; distinct by (world, ops)"
		r := NewRng(cfg.Seed)
		richContent = true
		defer func() { richContent = false }()
		done := 0
		runWorld := func(w *BWorld, ops []BOp) bool {
			target := filepath.Join(cfg.Work, fmt.Sprintf("rt%05d", done))
			os.MkdirAll(target, 0755)
			env := newEnv(w)
			run := runBuild(w, ops, target, env)
			if run.timeout || hasErrorDiag(run.results) || run.bundle == nil {
				os.RemoveAll(target)
				return false
			}
			done++
			c := &bCase{World: w, Ops: ops}
			nt := len(w.Regs) > 0
			for _, p := range w.Pkgs {
				if p.HasMeta {
					nt = true
				}
			}
			rep.Case(fmt.Sprintf("%v|%v", *w, ops), nt, map[string]interface{}{"ops": ops, "packages": len(w.Pkgs)})
			want := bundleCanon(run.bundle, target, w, ops)
			wantTree := treeListing(target)
			fail := func(what string) {
				rep.AddOracle(OracleFailure{Property: "C09", Lane: "bundle-roundtrip", What: what, Input: c})
			}
			// (a) re-open
			if b2, err := sourcebundle.OpenDir(target); err != nil {
				fail("a finished bundle directory cannot be opened again: " + err.Error())
			} else if got := bundleCanon(b2, target, w, ops); got != want {
				fail("re-opened bundle differs from the one Close returned: " + firstDiffLine(strings.ReplaceAll(want, " ", "\n"), strings.ReplaceAll(got, " ", "\n")))
			}
			rep.Count("reopened")
			// (b) archive + extract
			var buf bytes.Buffer
			if err := run.bundle.WriteArchive(&buf); err != nil {
				fail("WriteArchive fails: " + err.Error())
			} else {
				other := filepath.Join(cfg.Work, fmt.Sprintf("rx%05d", done))
				os.MkdirAll(other, 0755)
				b3, err := sourcebundle.ExtractArchive(bytes.NewReader(buf.Bytes()), other)
				if err != nil {
					fail("ExtractArchive of the bundle's own archive fails: " + err.Error())
				} else {
					if got := bundleCanon(b3, other, w, ops); got != want {
						fail("extracted bundle differs from the original: " + firstDiffLine(strings.ReplaceAll(want, " ", "\n"), strings.ReplaceAll(got, " ", "\n")))
					}
					if gotTree := treeListing(other); gotTree != wantTree {
						fail("files of the extracted bundle differ: " + firstDiffLine(wantTree, gotTree))
					}
				}
				rep.Count("archived")
				chmodAll(other)
				os.RemoveAll(other)
			}
			chmodAll(target)
			os.RemoveAll(target)
			return true
		}
		// exact replay (-case): the recorded world and Add calls go first
		if rc := loadReplayedBCase(cfg, rep, "bundle-roundtrip"); rc != nil {
			rep.BeginReplay()
			if !runWorld(rc.World, rc.Ops) {
				rep.Replayed.Note = "the build of the recorded world fails on this tree (the lane only judges finished bundles)"
			}
			rep.EndReplay()
			done = 0
		}
		for tries := 0; done < cfg.N && tries < cfg.N*10; tries++ {
			w, ops := genBWorld(r, false)
			runWorld(w, ops)
		}
	}
}

func chmodAll(root string) {
	filepath.Walk(root, func(p string, info os.FileInfo, err error) error {
		if err == nil && info.IsDir() {
			os.Chmod(p, 0755)
		}
		return nil
	})
}
