package main

import (
	"bytes"
	"fmt"
	"os"
	"path/filepath"
	"sort"
	"strconv"
	"strings"
	"syscall"

	"github.com/hashicorp/go-slug/sourcebundle"
)

// bundle-roundtrip lane (C09): a finished bundle is opened again and archived + extracted
// elsewhere; every accessor, the checksum, every lookup relative to the root and the files must
// be indistinguishable from the bundle Close returned.

func bundleCanon(b *sourcebundle.Bundle, root string, w *BWorld, ops []BOp) string {
	run := &bRun{bundle: b, env: &bEnv{analysed: map[string]int{}}, results: nil}
	s := run.canon(w)
	cs, _ := b.ChecksumV1()
	// lookups relative to the root for everything the world mentions
	var lk []string
	for _, p := range w.Pkgs {
		for _, sub := range bSubPool {
			lp, err := b.LocalPathForRemoteSource(mustRemote(p.Addr, sub))
			if err != nil {
				lk = append(lk, p.Addr+"//"+sub+"=err")
			} else {
				rel, _ := filepath.Rel(root, lp)
				lk = append(lk, p.Addr+"//"+sub+"="+rel)
				// the reverse lookup, several times: with coalesced packages several addresses share the
				// directory and the answer must not depend on map iteration order (seed C09-c)
				seen := map[string]bool{}
				for k := 0; k < 6; k++ {
					if src, err := b.SourceForLocalPath(lp); err != nil {
						seen["err"] = true
					} else {
						seen[src.String()] = true
					}
				}
				var rv []string
				for k := range seen {
					rv = append(rv, k)
				}
				sort.Strings(rv)
				lk = append(lk, "rev:"+rel+"="+strings.Join(rv, "|"))
			}
		}
	}
	sort.Strings(lk)
	return s + " checksum=" + cs + " lookups=" + strings.Join(lk, ";")
}

func treeListing(root string) string {
	var out []string
	filepath.Walk(root, func(p string, info os.FileInfo, err error) error {
		if err != nil {
			return nil
		}
		rel, _ := filepath.Rel(root, p)
		if rel == "." {
			return nil
		}
		switch {
		case info.Mode()&os.ModeSymlink != 0:
			t, _ := os.Readlink(p)
			out = append(out, fmt.Sprintf("%s l %s", rel, t))
		case info.IsDir():
			out = append(out, fmt.Sprintf("%s d %o", rel, info.Mode().Perm()))
		default:
			b, _ := os.ReadFile(p)
			out = append(out, fmt.Sprintf("%s f %o %x", rel, info.Mode().Perm(), b))
		}
		return nil
	})
	sort.Strings(out)
	return strings.Join(out, "\n")
}

func firstDiffLine(a, b string) string {
	al, bl := strings.Split(a, "\n"), strings.Split(b, "\n")
	as := map[string]bool{}
	for _, l := range al {
		as[l] = true
	}
	bs := map[string]bool{}
	for _, l := range bl {
		bs[l] = true
	}
	for _, l := range al {
		if !bs[l] {
			return "only before: " + l
		}
	}
	for _, l := range bl {
		if !as[l] {
			return "only after: " + l
		}
	}
	return ""
}

// canonDiff: the first difference of two bundleCanon renderings; inside the lookups field the first lookup
// whose answers differ, both answers shown
func canonDiff(want, got string) string {
	wl, gl := strings.Split(want, " "), strings.Split(got, " ")
	for i := range wl {
		if i >= len(gl) || wl[i] == gl[i] {
			continue
		}
		if strings.HasPrefix(wl[i], "lookups=") && strings.HasPrefix(gl[i], "lookups=") {
			wk, gk := strings.Split(strings.TrimPrefix(wl[i], "lookups="), ";"), strings.Split(strings.TrimPrefix(gl[i], "lookups="), ";")
			for k := range wk {
				if k >= len(gk) {
					return "lookup missing: " + wk[k]
				}
				if wk[k] != gk[k] {
					return fmt.Sprintf("lookup %s (bundle returned by Close) / %s (this bundle)", wk[k], gk[k])
				}
			}
		}
		return "before: " + wl[i] + " / after: " + gl[i]
	}
	return firstDiffLine(strings.ReplaceAll(want, " ", "\n"), strings.ReplaceAll(got, " ", "\n"))
}

// treeDiffLine: firstDiffLine of two tree listings, with the other side's line for the same path next to it
func treeDiffLine(before, after string) string {
	d := firstDiffLine(before, after)
	side, other := "only before: ", after
	if strings.HasPrefix(d, "only after: ") {
		side, other = "only after: ", before
	}
	line := strings.TrimPrefix(d, side)
	for _, kind := range []string{" d ", " f ", " l "} {
		if i := strings.Index(line, kind); i > 0 {
			name := line[:i]
			for _, l := range strings.Split(other, "\n") {
				for _, k2 := range []string{" d ", " f ", " l "} {
					if strings.HasPrefix(l, name+k2) {
						if side == "only before: " {
							return "before: " + line + " / after: " + l
						}
						return "before: " + l + " / after: " + line
					}
				}
			}
			break
		}
	}
	return d
}

func init() {
	lanes["bundle-roundtrip"] = func(cfg *Config, rep *Report) {
		rep.Rule = "error-free scripted worlds (as in the builder lane; package trees with an empty directory, 0755/0600 files, an in-package relative link, a non-ASCII name, and - for half of the contents - a rule file re-including .terraform); the finished bundle is (a) opened again with OpenDir, (b) written with WriteArchive and extracted with ExtractArchive into another directory; every third world is also written into a destination that fails after k bytes (two k per world, in turn: 11 and 40 before the end; 300 and 9 before the end; 10 and 24 before the end): WriteArchive returns an error or what it wrote extracts to an indistinguishable bundle; the directory is also re-opened - and, for every other world, the archive extracted - under a name that goes through a symbolic link (<work>/rtl<N> -> '.'), lookups taken relative to the root that was passed, paths spelled under that root translated to addresses and back; compared: all accessors, ChecksumV1, every lookup relative to the root, recursive tree listing (modes included); with -umask the re-opening, archiving and extraction run under that umask (the world is built under 022); non-trivial = has a registry package or metadata; distinct by (world, ops)"
		r := NewRng(cfg.Seed)
		richContent = true
		defer func() { richContent = false }()
		// -umask: the scripted world is a fixture (package trees with 0755/0750 directories, 0755/0600 files)
		// and is built into a bundle under the usual 022; the consumer's side - opening the directory again,
		// WriteArchive, ExtractArchive into another directory - runs under the given umask (seed C09-f:
		// an extracted 0755 directory left at 0755 &^ umask). The lane has no model counterpart; runs
		// under another umask than 022 are counted as outside-model:umask like those of the unpack lane.
		umask := laneUmask(cfg)
		syscall.Umask(022)
		done := 0
		runWorldUnder := func(w *BWorld, ops []BOp, umask int, failAfter []int) bool {
			target := filepath.Join(cfg.Work, fmt.Sprintf("rt%05d", done))
			os.MkdirAll(target, 0755)
			env := newEnv(w)
			run := runBuild(w, ops, target, env)
			if run.timeout || hasErrorDiag(run.results) || run.bundle == nil {
				os.RemoveAll(target)
				return false
			}
			done++
			// the recorded input carries the umask (flattened next to world/ops; a replay reads it back)
			um := ""
			if umask != 022 {
				um = fmt.Sprintf("%03o", umask)
				rep.Count("outside-model:umask")
			}
			c := &rtCase{bCase: &bCase{World: w, Ops: ops}, Umask: um, FailAfter: failAfter}
			nt := len(w.Regs) > 0
			for _, p := range w.Pkgs {
				if p.HasMeta {
					nt = true
				}
			}
			rep.Case(fmt.Sprintf("%v|%v", *w, ops), nt, map[string]interface{}{"ops": ops, "packages": len(w.Pkgs)})
			want := bundleCanon(run.bundle, target, w, ops)
			wantTree := treeListing(target)
			fail := func(what string) {
				rep.AddOracle(OracleFailure{Property: "C09", Lane: "bundle-roundtrip", What: what, Input: c})
			}
			syscall.Umask(umask)
			defer syscall.Umask(022)
			// (a) re-open
			if b2, err := sourcebundle.OpenDir(target); err != nil {
				fail("a finished bundle directory cannot be opened again: " + err.Error())
			} else if got := bundleCanon(b2, target, w, ops); got != want {
				fail("re-opened bundle differs from the one Close returned: " + firstDiffLine(strings.ReplaceAll(want, " ", "\n"), strings.ReplaceAll(got, " ", "\n")))
			}
			rep.Count("reopened")
			// (a') re-open under a name that goes through a symbolic link (<work>/rtl<N> -> ".", inside the
			// scratch directory): lookups relative to the root that was passed are those of Close's bundle, and
			// paths spelled under the passed root translate to addresses and back (seed C09-g: OpenDir keeping
			// the resolved name of its directory)
			lnk := filepath.Join(cfg.Work, fmt.Sprintf("rtl%05d", done))
			os.Remove(lnk)
			viaLink := os.Symlink(".", lnk) == nil
			defer os.Remove(lnk)
			if viaLink {
				ltarget := filepath.Join(lnk, filepath.Base(target))
				if b2, err := sourcebundle.OpenDir(ltarget); err != nil {
					fail(fmt.Sprintf("a finished bundle directory cannot be opened under the name %s (%s is a symbolic link to '.'): %v", ltarget, lnk, err))
				} else {
					if got := bundleCanon(b2, ltarget, w, ops); got != want {
						fail(fmt.Sprintf("the bundle re-opened under the name %s (%s is a symbolic link to '.', so this is the directory %s) differs from the one Close returned, lookups taken relative to the root each was given: %s", ltarget, lnk, target, canonDiff(want, got)))
					}
					spelledUnderRoot(rep, c, run.bundle, target, b2, ltarget, w)
				}
				rep.Count("reopened-through-link")
			}
			// (b) archive + extract
			var buf bytes.Buffer
			if err := run.bundle.WriteArchive(&buf); err != nil {
				fail("WriteArchive fails: " + err.Error())
			} else {
				other := filepath.Join(cfg.Work, fmt.Sprintf("rx%05d", done))
				os.MkdirAll(other, 0755)
				os.Chmod(other, 0755) // what the harness creates stays traversable under any umask
				b3, err := sourcebundle.ExtractArchive(bytes.NewReader(buf.Bytes()), other)
				if err != nil {
					fail("ExtractArchive of the bundle's own archive fails: " + err.Error())
				} else {
					if got := bundleCanon(b3, other, w, ops); got != want {
						fail("extracted bundle differs from the original: " + firstDiffLine(strings.ReplaceAll(want, " ", "\n"), strings.ReplaceAll(got, " ", "\n")))
					}
					if gotTree := treeListing(other); gotTree != wantTree {
						fail("files of the extracted bundle differ: " + treeDiffLine(wantTree, gotTree))
					}
				}
				rep.Count("archived")
				chmodAll(other)
				os.RemoveAll(other)
				// (b'') a destination that fails (disk full, closed pipe) after k bytes, for several k: WriteArchive
				// returns an error, or what it wrote extracts to an indistinguishable bundle (seed C09-h: the
				// errors of the final flush of the tar and gzip writers discarded, so that a truncated archive
				// was reported as written). v >= 0: k = v; v < 0: k = len(archive) + v
				size := buf.Len()
				nBefore := rep.OracleFailCount
				for _, v := range failAfter {
					k := v
					if v < 0 {
						k = size + v
					}
					if k < 0 || k >= size {
						continue
					}
					fw := &failingWriter{room: k}
					werr := run.bundle.WriteArchive(fw)
					rep.Count("archived-to-failing-writer")
					if werr != nil {
						continue
					}
					rep.Count("archived-to-failing-writer:reported-success")
					otherF := filepath.Join(cfg.Work, fmt.Sprintf("rxf%05d", done))
					os.MkdirAll(otherF, 0755)
					os.Chmod(otherF, 0755)
					where := fmt.Sprintf("WriteArchive returns nil although its destination failed after %d of the %d bytes of the archive (write error: no space left); ", k, size)
					if b5, err := sourcebundle.ExtractArchive(bytes.NewReader(fw.buf.Bytes()), otherF); err != nil {
						fail(where + fmt.Sprintf("ExtractArchive of the %d bytes it wrote fails: %v", fw.buf.Len(), err))
					} else if got := bundleCanon(b5, otherF, w, ops); got != want {
						fail(where + "the bundle extracted from what it wrote differs from the original: " + canonDiff(want, got))
					} else if gotTree := treeListing(otherF); gotTree != wantTree {
						fail(where + "the files extracted from what it wrote differ: " + treeDiffLine(wantTree, gotTree))
					}
					chmodAll(otherF)
					os.RemoveAll(otherF)
					if rep.OracleFailCount > nBefore {
						break // one report per world
					}
				}
				// (b') every other world: extracted once more into a directory named through the link
				if viaLink && done%2 == 1 {
					otherL := filepath.Join(lnk, fmt.Sprintf("rxl%05d", done))
					os.MkdirAll(otherL, 0755)
					os.Chmod(otherL, 0755)
					b4, err := sourcebundle.ExtractArchive(bytes.NewReader(buf.Bytes()), otherL)
					if err != nil {
						fail(fmt.Sprintf("ExtractArchive of the bundle's own archive into %s (%s is a symbolic link to '.') fails: %v", otherL, lnk, err))
					} else {
						if got := bundleCanon(b4, otherL, w, ops); got != want {
							fail(fmt.Sprintf("the bundle extracted into %s (%s is a symbolic link to '.') differs from the original, lookups taken relative to the root each was given: %s", otherL, lnk, canonDiff(want, got)))
						}
						if gotTree := treeListing(filepath.Join(cfg.Work, filepath.Base(otherL))); gotTree != wantTree {
							fail("files of the bundle extracted through a symbolic link differ: " + treeDiffLine(wantTree, gotTree))
						}
						spelledUnderRoot(rep, c, run.bundle, target, b4, otherL, w)
					}
					rep.Count("archived-through-link")
					chmodAll(filepath.Join(cfg.Work, filepath.Base(otherL)))
					os.RemoveAll(filepath.Join(cfg.Work, filepath.Base(otherL)))
				}
			}
			chmodAll(target)
			os.RemoveAll(target)
			return true
		}
		// exact replay (-case): the recorded world and Add calls go first
		// every third world is also archived into a destination that fails after k bytes: just past the 10-byte
		// gzip header, early, and inside the last 40 bytes (the final flush of the compressor)
		runWorld := func(w *BWorld, ops []BOp) bool {
			var fa []int
			if done%3 == 0 {
				fa = rtFailAfter[(done/3)%len(rtFailAfter)]
			}
			return runWorldUnder(w, ops, umask, fa)
		}
		if rc := loadReplayedBCase(cfg, rep, "bundle-roundtrip"); rc != nil {
			rep.BeginReplay()
			// the replayed case runs under the umask it was recorded under
			ru := umask
			var ext struct {
				Umask     string `json:"umask"`
				FailAfter []int  `json:"fail_after"`
			}
			if loadReplayInput(cfg, "bundle-roundtrip", &ext) && ext.Umask != "" {
				if v, err := strconv.ParseUint(ext.Umask, 8, 12); err == nil {
					ru = int(v) & 0777
				}
			}
			if !runWorldUnder(rc.World, rc.Ops, ru, ext.FailAfter) {
				rep.Replayed.Note = "the build of the recorded world fails on this tree (the lane only judges finished bundles)"
			}
			rep.EndReplay()
			done = 0
		}
		for tries := 0; done < cfg.N && tries < cfg.N*10; tries++ {
			w, ops := genBWorld(r, false)
			runWorld(w, ops)
		}
	}
}

// spelledUnderRoot: b was opened (or extracted) under the directory name root; for every lookup the bundle
// Close returned (orig, under origRoot) answers, the same path spelled under root belongs to b, translates
// to the address orig gives and back to itself (C18: lookups invert each other; C09: same answers)
func spelledUnderRoot(rep *Report, c *rtCase, orig *sourcebundle.Bundle, origRoot string, b *sourcebundle.Bundle, root string, w *BWorld) {
	for _, p := range w.Pkgs {
		for _, sub := range bSubPool {
			olp, err := orig.LocalPathForRemoteSource(w.remote(p.Addr, sub))
			if err != nil {
				continue
			}
			rel, err := filepath.Rel(origRoot, olp)
			if err != nil || strings.HasPrefix(rel, "..") {
				continue
			}
			osrc, oerr := orig.SourceForLocalPath(olp)
			lp := filepath.Join(root, rel)
			src, err := b.SourceForLocalPath(lp)
			if err != nil {
				rep.AddOracle(OracleFailure{Property: "C18", Lane: "bundle-roundtrip", What: fmt.Sprintf("path %s lies in a package directory of the bundle that was opened as %s, but is reported as not belonging to it: %v", lp, root, err), Input: c})
				return
			}
			if oerr == nil && src.String() != osrc.String() {
				rep.AddOracle(OracleFailure{Property: "C09", Lane: "bundle-roundtrip", What: fmt.Sprintf("SourceForLocalPath(<root>/%s) = %s in the bundle opened as %s, %s in the bundle Close returned", rel, src, root, osrc), Input: c})
				return
			}
			if back, err := b.LocalPathForSource(src); err != nil || back != lp {
				rep.AddOracle(OracleFailure{Property: "C18", Lane: "bundle-roundtrip", What: fmt.Sprintf("translating %s (inside the bundle opened as %s) to an address (%s) and back gives %q (err %v)", lp, root, src, back, err), Input: c})
				return
			}
		}
	}
}

// rtCase: the recorded input of this lane = the builder lane's case (world, ops) plus the umask of the
// consumer's side ("" = 022).
type rtCase struct {
	*bCase
	Umask string `json:"umask,omitempty"`
	// FailAfter: the archive was also written into destinations that fail after k bytes (v >= 0: k = v;
	// v < 0: k = archive length + v); a replay makes the same writes
	FailAfter []int `json:"fail_after,omitempty"`
}

var rtFailAfter = [][]int{{11, -40}, {300, -9}, {10, -24}}

// failingWriter accepts room bytes and then fails every write (a full disk): the bytes that fit are kept
type failingWriter struct {
	room int
	buf  bytes.Buffer
}

func (f *failingWriter) Write(p []byte) (int, error) {
	if len(p) <= f.room {
		f.room -= len(p)
		f.buf.Write(p)
		return len(p), nil
	}
	n := f.room
	f.buf.Write(p[:n])
	f.room = 0
	return n, fmt.Errorf("write archive: no space left on device")
}

func chmodAll(root string) {
	filepath.Walk(root, func(p string, info os.FileInfo, err error) error {
		if err == nil && info.IsDir() {
			os.Chmod(p, 0755)
		}
		return nil
	})
}
