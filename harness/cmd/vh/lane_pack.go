package main

import (
	"archive/tar"
	"bytes"
	"compress/gzip"
	"context"
	"crypto/sha256"
	"encoding/hex"
	"encoding/json"
	"fmt"
	"io"
	"os"
	"os/exec"
	"path/filepath"
	"sort"
	"strconv"
	"strings"
	"sync"
	"syscall"
	"time"
	"unicode/utf8"

	slug "github.com/hashicorp/go-slug"
)

// pack lane (C02 C03 C05 C16 C20 C12): Packer.Pack over generated trees, option sets and rule
// files, against the Lean model (Pack.lean over FS.lean + Ignore.lean) and the oracles of each
// property (Meta vs slug, leak check, Unpack-accepts, round trip, segment-wise ignore matcher).

type PNode struct {
	Path  string `json:"path"` // relative to the arena
	Kind  string `json:"kind"` // d f l s(fifo)
	Perm  uint32 `json:"perm"`
	Mtime int64  `json:"mtime_ns"`
	Data  string `json:"data"`
	// FillKind / FillBytes: the content of the file is generated (see nodeData): Data with generated
	// filler of FillBytes bytes put in place of "@FILL@" (in front of Data if it has no such mark).
	// Keeps megabyte rule files out of reports and replay files.
	FillKind  string `json:"fill_kind,omitempty"`
	FillBytes int    `json:"fill_bytes,omitempty"`
}

// Names and link targets may hold bytes that are not valid UTF-8 (seed C20-g); encoding/json would
// replace those by U+FFFD, and a replayed case would rebuild another tree. Such a node is written
// with "path_hex" / "data_hex" next to the (lossy, readable) "path" / "data"; reading prefers the hex.
type pnodePlain PNode

type pnodeWire struct {
	pnodePlain
	PathHex string `json:"path_hex,omitempty"`
	DataHex string `json:"data_hex,omitempty"`
}

func (n PNode) MarshalJSON() ([]byte, error) {
	w := pnodeWire{pnodePlain: pnodePlain(n)}
	if !utf8.ValidString(n.Path) {
		w.PathHex = hex.EncodeToString([]byte(n.Path))
	}
	if !utf8.ValidString(n.Data) {
		w.DataHex = hex.EncodeToString([]byte(n.Data))
	}
	return json.Marshal(w)
}

func (n *PNode) UnmarshalJSON(b []byte) error {
	var w pnodeWire
	if err := json.Unmarshal(b, &w); err != nil {
		return err
	}
	*n = PNode(w.pnodePlain)
	if w.PathHex != "" {
		raw, err := hex.DecodeString(w.PathHex)
		if err != nil {
			return err
		}
		n.Path = string(raw)
	}
	if w.DataHex != "" {
		raw, err := hex.DecodeString(w.DataHex)
		if err != nil {
			return err
		}
		n.Data = string(raw)
	}
	return nil
}

// nodeData is the content written for a file node.
func nodeData(n PNode) string {
	if n.FillKind == "" {
		return n.Data
	}
	return expandFill(n.FillKind, n.FillBytes, n.Data)
}

var fillCache sync.Map // "kind|bytes" -> filler

// expandFill: "rule-lines" = at least n bytes of short valid rule-file lines (comments, blank and
// whitespace-only lines and, every 64 KiB, a rule "zzfill-<k>.tmp" that no generated tree matches),
// ending in a newline; "long-line" = one comment line of n bytes ('#' and n-1 letters), no newline.
func expandFill(kind string, n int, text string) string {
	if n < 0 {
		n = 0
	}
	if n > 4<<20 {
		n = 4 << 20
	}
	key := fmt.Sprintf("%s|%d", kind, n)
	var filler string
	if v, ok := fillCache.Load(key); ok {
		filler = v.(string)
	} else {
		var b strings.Builder
		switch kind {
		case "long-line":
			if n > 0 {
				b.WriteByte('#')
				b.WriteString(strings.Repeat("c", n-1))
			}
		default: // "rule-lines"
			nextRule := 0
			for k := 0; b.Len() < n; k++ {
				switch {
				case b.Len() >= nextRule:
					fmt.Fprintf(&b, "zzfill-%06d.tmp\n", k)
					nextRule += 64 << 10
				case k%7 == 3:
					b.WriteString("\n")
				case k%7 == 5:
					b.WriteString("  \t \n")
				default:
					fmt.Fprintf(&b, "# filler line %06d of a long hand-maintained list of exclusions ------------------------------\n", k)
				}
			}
		}
		filler = b.String()
		fillCache.Store(key, filler)
	}
	if strings.Contains(text, "@FILL@") {
		return strings.Replace(text, "@FILL@", filler, 1)
	}
	return filler + text
}

type PCase struct {
	Nodes  []PNode  `json:"nodes"`
	Src    string   `json:"src"` // as given to Pack (may be relative to Cwd)
	Cwd    string   `json:"cwd"` // relative to the arena ("" = arena)
	Deref  bool     `json:"deref"`
	Ignore bool     `json:"ignore"`
	Allow  []string `json:"allow"`
	// NoModel: the rule file is outside the modelled fragment (a pattern that is not a valid regular
	// expression after translation); the case is judged by the oracles only, which read OracleRules
	// (the rule file without the lines the implementation has to skip)
	NoModel     bool    `json:"no_model,omitempty"`
	OracleRules *string `json:"oracle_rules,omitempty"`
}

var fracs = []int64{0, 400000000, 500000000, 600000000}

// modification times at the edges of what a tar header holds (seed C02-f: the epoch taken for "not
// recorded"): the epoch itself, 0.4 s (rounds to it), 0.5 s (rounds to 1 s), 1 s, the largest second
// of the 11-digit octal field, the first one beyond it (a PAX record or base-256), and the year 2255
var edgeMtimes = []int64{0, 400000000, 500000000, 1000000000, 1400000000, 8589934591e9, 8589934591e9 + 600000000, 8589934592e9, 9000000000e9 + 400000000}

func materialiseP(arena string, nodes []PNode) error {
	if err := os.MkdirAll(arena, 0755); err != nil {
		return err
	}
	for _, n := range nodes {
		p := filepath.Join(arena, n.Path)
		switch n.Kind {
		case "d":
			if err := os.MkdirAll(p, 0755); err != nil {
				return err
			}
		case "f":
			os.MkdirAll(filepath.Dir(p), 0755)
			if err := os.WriteFile(p, []byte(nodeData(n)), 0644); err != nil {
				return err
			}
		case "l":
			os.MkdirAll(filepath.Dir(p), 0755)
			if err := os.Symlink(strings.Replace(n.Data, "@ARENA@", arena, 1), p); err != nil {
				return err
			}
		case "s":
			os.MkdirAll(filepath.Dir(p), 0755)
			if err := syscall.Mkfifo(p, 0644); err != nil {
				return err
			}
		}
	}
	for i := len(nodes) - 1; i >= 0; i-- {
		n := nodes[i]
		if n.Kind == "l" {
			continue
		}
		p := filepath.Join(arena, n.Path)
		os.Chmod(p, os.FileMode(n.Perm))
		t := time.Unix(0, n.Mtime)
		os.Chtimes(p, t, t)
	}
	return nil
}

// snapshotNS renders the arena (and its ancestors) as the protocol's fsdump with nanosecond mtimes
func snapshotNS(arena string) string {
	type kv struct{ k, v string }
	var items []kv
	for anc := filepath.Dir(arena); anc != "/"; anc = filepath.Dir(anc) {
		items = append(items, kv{anc, fmt.Sprintf("%s:d:493:0:x", X(anc))})
	}
	filepath.Walk(arena, func(p string, info os.FileInfo, err error) error {
		if err != nil {
			return nil
		}
		switch {
		case info.Mode()&os.ModeSymlink != 0:
			t, _ := os.Readlink(p)
			items = append(items, kv{p, fmt.Sprintf("%s:l:0:0:%s", X(p), X(t))})
		case info.IsDir():
			items = append(items, kv{p, fmt.Sprintf("%s:d:%d:%d:x", X(p), permOf(info.Mode()), info.ModTime().UnixNano())})
		case info.Mode().IsRegular():
			b, _ := os.ReadFile(p)
			items = append(items, kv{p, fmt.Sprintf("%s:f:%d:%d:%s", X(p), permOf(info.Mode()), info.ModTime().UnixNano(), X(string(b)))})
		default:
			items = append(items, kv{p, fmt.Sprintf("%s:s:0:0:x", X(p))})
		}
		return nil
	})
	sort.Slice(items, func(i, j int) bool { return items[i].k < items[j].k })
	parts := make([]string, len(items))
	for i, it := range items {
		parts[i] = it.v
	}
	return strings.Join(parts, ",")
}

type packOut struct {
	class   string
	entries []UEntry
	sizes   []int64
	meta    *slug.Meta
	raw     []byte
	panic   interface{}
	timeout bool
	errText string // the error Pack returned ("" = none)
}

func decodeSlug(data []byte) ([]UEntry, []int64, error) {
	gz, err := gzip.NewReader(bytes.NewReader(data))
	if err != nil {
		return nil, nil, err
	}
	tr := tar.NewReader(gz)
	var out []UEntry
	var sizes []int64
	for {
		h, err := tr.Next()
		if err == io.EOF {
			return out, sizes, nil
		}
		if err != nil {
			return out, sizes, err
		}
		body, _ := io.ReadAll(tr)
		out = append(out, UEntry{Name: h.Name, Typ: h.Typeflag, Mode: h.Mode, Mtime: h.ModTime.Unix(), Link: h.Linkname, Body: string(body)})
		sizes = append(sizes, h.Size)
	}
}

func runPack(src string, w io.Writer, buf *bytes.Buffer, deref, ignore bool, allow []string) packOut {
	done := make(chan packOut, 1)
	go func() {
		var o packOut
		defer func() {
			if x := recover(); x != nil {
				o.panic = x
				o.class = "panic"
			}
			done <- o
		}()
		var opts []slug.PackerOption
		if deref {
			opts = append(opts, slug.DereferenceSymlinks())
		}
		if ignore {
			opts = append(opts, slug.ApplyTerraformIgnore())
		}
		for _, a := range allow {
			opts = append(opts, slug.AllowSymlinkTarget(a))
		}
		p, err := slug.NewPacker(opts...)
		if err != nil {
			o.class = "io"
			return
		}
		m, err := p.Pack(src, w)
		o.class = classify(err)
		o.meta = m
		if err != nil {
			o.errText = err.Error()
		}
	}()
	select {
	case o := <-done:
		if o.class == "ok" && buf != nil {
			o.raw = buf.Bytes()
			o.entries, o.sizes, _ = decodeSlug(o.raw)
		}
		return o
	case <-time.After(caseTimeout):
		return packOut{class: "timeout", timeout: true}
	}
}

func canonPack(o packOut) string {
	if o.class != "ok" {
		return o.class
	}
	var es []string
	for _, e := range o.entries {
		mt := e.Mtime
		if e.Typ == tar.TypeSymlink {
			mt = 0
		}
		es = append(es, fmt.Sprintf("%s:%d:%d:%d:%s:%s", X(e.Name), e.Typ, e.Mode, mt, X(e.Link), X(e.Body)))
	}
	var fs []string
	for _, f := range o.meta.Files {
		fs = append(fs, X(f))
	}
	enc := func(xs []string) string {
		if len(xs) == 0 {
			return "-"
		}
		return strings.Join(xs, ",")
	}
	return fmt.Sprintf("ok %s %s %d", enc(es), enc(fs), o.meta.Size)
}

// ---------- generator ----------

var pNames = []string{"a", "b", "c.tf", "d", "e", ".git", ".terraform", "modules", "x y", "é", "foo", "bar", ".terraformignore-not", "z", "..data", "...", "..2024", "-dash", ".hidden",
	// a backslash is an ordinary file-name character here (seed C03-g: the path given to the rules with
	// '\\' turned into '/'): inner, leading, trailing, several; each is ONE path segment
	`d\e`, `sub\id.pem`, `logs\notes.txt`, `\b`, `foo\`, `d\e\a`,
	// control characters are ordinary file-name characters (seed C20-h: Meta.Files reported without
	// them, the header keeping them): LF, CR, TAB, BEL, an ESC sequence, DEL, a C1 control (U+0085, two
	// bytes of valid UTF-8: a PAX record)
	"notes\nsecond line.txt", "cr\rname", "tab\tdir", "bel\a.tf", "esc\x1b[31m", "del\x7f", "nel\u0085x",
	// names that a starred rule below covers only with its '*' standing for nothing (seed C10-h)
	"terraform.tfstate", ".auto.tfvars", "cache"}
var pRuleFiles = []string{"", "foo\n", "d/\n", "*.tf\n", "d/\n!d/e\n", "/a\n", "**/b\n", "d/*\n", "!foo\nfoo/\n", "# c\n\n  \n!\nbar/\n", "e\n!e/a\n", "a+b\n", "d/**/a\n",
	// verdicts that depend on where a segment ends, for names with a backslash (patterns have none:
	// a backslash in a PATTERN is outside the modelled fragment): anchored, directory rule, '?' and '*'
	// next to the backslash
	"/*.pem\nlogs/\n", "?b\n/d*\n", "d/\n/f?o?\n",
	// a '*' that has to match zero characters (seed C10-h: '[^/]+' emitted for a single '*')
	"terraform.tfstate*\n*.auto.tfvars\n", "cache*/\n", "*c.tf\nfoo*\n", "d/*a\n*z*\n", "/b*\n!/b?*\n",
	// a line repeated after a rule of the other polarity: the LAST occurrence decides (seed C03-h:
	// repeats dropped, the first occurrence kept)
	"*.tf\n!c.tf\n*.tf\n", "foo\n!foo\nfoo\n", "!e\ne\n!e\n", "a\n!d/a\n  a\n", "!/b\n# later\nb\n!/b\n", "z\nbar\n!z\n!bar\nz\nbar\n"}

// Trees in which a dereferenced directory leads back to itself are generated for C19 only: on code
// without the F26 repair they kill the whole lane process (stack overflow), which would turn the
// checks of the other properties that use this lane into "could not complete".
var packWithCycles = false

func genTree(r *Rng) []PNode {
	nodes := []PNode{
		{Path: "p", Kind: "d", Perm: 0755, Mtime: 1300000000e9},
		{Path: "p/src", Kind: "d", Perm: 0755, Mtime: 1300000001e9 + 500000000},
		{Path: "p/src-evil", Kind: "d", Perm: 0755, Mtime: 1300000002e9},
		{Path: "p/src-evil/secret", Kind: "f", Perm: 0600, Mtime: 1300000003e9, Data: "evil-secret"},
		{Path: "p/ext", Kind: "d", Perm: 0755, Mtime: 1300000004e9},
		{Path: "p/ext/file", Kind: "f", Perm: 0640, Mtime: 1300000005e9 + 600000000, Data: "ext-file"},
		{Path: "p/ext/dir", Kind: "d", Perm: 0750, Mtime: 1300000006e9},
		{Path: "p/ext/dir/inner", Kind: "f", Perm: 0644, Mtime: 1300000007e9, Data: "inner"},
		{Path: "p/ext/dir/sub", Kind: "d", Perm: 0755, Mtime: 1300000008e9},
		{Path: "p/ext/dir/sub/deep", Kind: "f", Perm: 0644, Mtime: 1300000009e9, Data: "deep"},
		{Path: "p/ext/chain", Kind: "l", Data: "file"},
		{Path: "p/outside.txt", Kind: "f", Perm: 0600, Mtime: 1300000010e9, Data: "secret"},
		{Path: "p/ext/pipe", Kind: "s"},
		{Path: "p/ext/ca", Kind: "l", Data: "cb"},
		{Path: "p/ext/cb", Kind: "l", Data: "ca"},
	}
	if r.Chance(30) {
		// links inside the outside directory: back into the source tree, and on to another outside file
		nodes = append(nodes, PNode{Path: "p/ext/dir/back", Kind: "l", Data: "../../src/a"}, PNode{Path: "p/ext/dir/up", Kind: "l", Data: "../file"},
			PNode{Path: "p/ext/dir/sub/deeper", Kind: "l", Data: "../../../ext/dir2"},
			PNode{Path: "p/ext/dir2", Kind: "d", Perm: 0755, Mtime: 1300000011e9}, PNode{Path: "p/ext/dir2/f2", Kind: "f", Perm: 0644, Mtime: 1300000012e9, Data: "f2"})
	}
	if packWithCycles && r.Chance(15) {
		// link cycles inside the outside directory (F26, repaired: a symlink-cycle error, no crash):
		// to itself, to an ancestor that contains it, by absolute path
		cyc := []PNode{
			{Path: "p/ext/dir/self", Kind: "l", Data: "."},
			{Path: "p/ext/dir/sub/top", Kind: "l", Data: "../.."},
			{Path: "p/ext/dir/selfabs", Kind: "l", Data: "@ARENA@/p/ext/dir"},
			{Path: "p/ext/dir/sub/again", Kind: "l", Data: "loop/sub"},
		}
		nodes = append(nodes, cyc[r.Intn(len(cyc))])
		if nodes[len(nodes)-1].Path == "p/ext/dir/sub/again" {
			nodes = append(nodes, PNode{Path: "p/ext/dir/sub/loop", Kind: "l", Data: ".."})
		}
	}
	var dirs = []string{"p/src"}
	used := map[string]bool{}
	n := 1 + r.Intn(9)
	for i := 0; i < n; i++ {
		dir := dirs[r.Intn(len(dirs))]
		name := r.Pick(pNames)
		p := dir + "/" + name
		if used[p] || strings.Count(p, "/") > 5 {
			continue
		}
		used[p] = true
		mt := 1400000000e9 + int64(i)*1000e9 + fracs[r.Intn(4)]
		if r.Chance(12) {
			mt = edgeMtimes[r.Intn(len(edgeMtimes))]
		}
		depth := strings.Count(p, "/") - 2 // directory depth of the node inside src
		switch x := r.Intn(100); {
		case x < 40:
			nodes = append(nodes, PNode{Path: p, Kind: "f", Perm: uint32([]int{0644, 0600, 0755, 0444, 0400, 0000, 0777}[r.Intn(7)]), Mtime: mt, Data: r.Pick([]string{"", "x", "content-" + name})})
		case x < 65:
			nodes = append(nodes, PNode{Path: p, Kind: "d", Perm: uint32([]int{0755, 0700, 0555, 0750}[r.Intn(4)]), Mtime: mt})
			dirs = append(dirs, p)
		case x < 97:
			ups := strings.Repeat("../", depth)
			targets := []string{"a", "b", "d", "d/a", "nonexist", ".", ups + "a", "../" + ups + "src-evil/secret", "../" + ups + "ext/file", "../" + ups + "ext/dir",
				"../" + ups + "ext/chain", "../" + ups + "outside.txt", "@ARENA@/p/src/a", "@ARENA@/p/ext/file", "@ARENA@/p/ext/dir", ups + "d/../a", "../" + ups + "src/a", ups + "foo", "../" + ups + "ext/dir/sub",
				"@ARENA@/p/src/../outside.txt", "@ARENA@/p/src/d/../../ext/file", "@ARENA@/p/src/../src-evil/secret", "@ARENA@/p/src/d/../a",
				"../" + ups + "ext/pipe", "../" + ups + "ext/ca"}
			nodes = append(nodes, PNode{Path: p, Kind: "l", Data: r.Pick(targets)})
		default:
			nodes = append(nodes, PNode{Path: p, Kind: "s"})
		}
	}
	return nodes
}

// corpus: shapes found by proof attempts and past disagreements
func symlinkedComponentCase(other string, deref bool) *PCase {
	// the source directory is reached through a symlinked directory component, and a relative link
	// with '..' inside it: lexical and kernel resolution of the link differ
	return &PCase{Src: "@ARENA@/p/lnk/src", Deref: deref, Nodes: []PNode{
		{Path: "p", Kind: "d", Perm: 0755, Mtime: 1300000000e9},
		{Path: "q", Kind: "d", Perm: 0755, Mtime: 1300000000e9},
		{Path: "q/v", Kind: "d", Perm: 0755, Mtime: 1300000000e9},
		{Path: "q/v/src", Kind: "d", Perm: 0755, Mtime: 1300000000e9},
		{Path: "q/v/src/f", Kind: "l", Data: "../../x/g"},
		{Path: "q/v/src/plain", Kind: "f", Perm: 0644, Mtime: 1300000001e9, Data: "plain"},
		{Path: "p/lnk", Kind: "l", Data: "../q/v"},
		{Path: "p/x", Kind: "d", Perm: 0755, Mtime: 1300000000e9},
		{Path: "p/x/g", Kind: "f", Perm: 0600, Mtime: 1300000002e9, Data: "A"},
		{Path: "q/x", Kind: "d", Perm: 0755, Mtime: 1300000000e9},
		{Path: "q/x/g", Kind: "f", Perm: 0644, Mtime: 1300000003e9, Data: other},
	}}
}

// a rule that names a path below a dereferenced link (F43, repaired: rules are matched against archive paths)
func derefRuleCase(rule string) *PCase {
	return &PCase{Src: "@ARENA@/p/src", Deref: true, Ignore: true, Nodes: []PNode{
		{Path: "p", Kind: "d", Perm: 0755, Mtime: 1300000000e9},
		{Path: "p/src", Kind: "d", Perm: 0755, Mtime: 1300000001e9},
		{Path: "p/ext", Kind: "d", Perm: 0755, Mtime: 1300000004e9},
		{Path: "p/ext/dir", Kind: "d", Perm: 0750, Mtime: 1300000006e9},
		{Path: "p/ext/dir/inner", Kind: "f", Perm: 0644, Mtime: 1300000007e9, Data: "inner-secret"},
		{Path: "p/ext/dir/other", Kind: "f", Perm: 0644, Mtime: 1300000007e9, Data: "other"},
		{Path: "p/ext/dir/sub", Kind: "d", Perm: 0755, Mtime: 1300000008e9},
		{Path: "p/ext/dir/sub/deep", Kind: "f", Perm: 0644, Mtime: 1300000009e9, Data: "deep"},
		{Path: "p/src/l", Kind: "l", Data: "../ext/dir"},
		{Path: "p/src/main.tf", Kind: "f", Perm: 0644, Mtime: 1300000010e9, Data: "m"},
		{Path: "p/src/.terraformignore", Kind: "f", Perm: 0644, Mtime: 1400000000e9, Data: rule},
	}}
}

// a dereferenced directory that leads back to itself
func derefCycleCase(linkPath, target string) *PCase {
	return &PCase{Src: "@ARENA@/p/src", Deref: true, Nodes: []PNode{
		{Path: "p", Kind: "d", Perm: 0755, Mtime: 1300000000e9},
		{Path: "p/src", Kind: "d", Perm: 0755, Mtime: 1300000001e9},
		{Path: "p/ext", Kind: "d", Perm: 0755, Mtime: 1300000004e9},
		{Path: "p/ext/f", Kind: "f", Perm: 0644, Mtime: 1300000007e9, Data: "f"},
		{Path: "p/ext/d", Kind: "d", Perm: 0755, Mtime: 1300000008e9},
		{Path: linkPath, Kind: "l", Data: target},
		{Path: "p/src/l", Kind: "l", Data: "../ext"},
	}}
}

// the source argument is not a directory: missing, a regular file, a dangling link, a fifo
func oddSourceCase(src string) *PCase {
	return &PCase{Src: src, Deref: false, Ignore: true, Nodes: []PNode{
		{Path: "p", Kind: "d", Perm: 0755, Mtime: 1300000000e9},
		{Path: "p/src", Kind: "d", Perm: 0755, Mtime: 1300000001e9},
		{Path: "p/src/main.tf", Kind: "f", Perm: 0644, Mtime: 1300000010e9, Data: "m"},
		{Path: "p/plain", Kind: "f", Perm: 0644, Mtime: 1300000010e9, Data: "plain"},
		{Path: "p/dangling", Kind: "l", Data: "nowhere"},
		{Path: "p/pipe", Kind: "s"},
	}}
}

// one malformed pattern among valid rules: the valid rules still decide what ships (seed C03-e: the whole
// rule file discarded, Pack falling back to the built-in rules)
func badPatternCase(bad string, deref bool) *PCase {
	valid := "*.tfstate\nsecrets/\n/top-only.txt\n"
	return &PCase{Src: "@ARENA@/p/src", Deref: deref, Ignore: true, NoModel: true, OracleRules: &valid, Nodes: []PNode{
		{Path: "p", Kind: "d", Perm: 0755, Mtime: 1300000000e9},
		{Path: "p/src", Kind: "d", Perm: 0755, Mtime: 1300000001e9},
		{Path: "p/src/main.tf", Kind: "f", Perm: 0644, Mtime: 1300000010e9, Data: "m"},
		{Path: "p/src/terraform.tfstate", Kind: "f", Perm: 0600, Mtime: 1300000010e9, Data: "state"},
		{Path: "p/src/secrets", Kind: "d", Perm: 0700, Mtime: 1300000010e9},
		{Path: "p/src/secrets/key.pem", Kind: "f", Perm: 0600, Mtime: 1300000010e9, Data: "key"},
		{Path: "p/src/top-only.txt", Kind: "f", Perm: 0644, Mtime: 1300000010e9, Data: "t"},
		{Path: "p/src/sub", Kind: "d", Perm: 0755, Mtime: 1300000010e9},
		{Path: "p/src/sub/top-only.txt", Kind: "f", Perm: 0644, Mtime: 1300000010e9, Data: "kept"},
		{Path: "p/src/.terraformignore", Kind: "f", Perm: 0644, Mtime: 1400000000e9, Data: "*.tfstate\n" + bad + "\nsecrets/\n/top-only.txt\n"},
	}}
}

// a rule file of a bit more than 1 MiB of short valid lines with the exclusions that matter at its end
// (seed C10-f: the rule file read through a 1 MiB LimitReader, later rules silently dropped), and a rule
// file with one comment line beyond bufio.Scanner's 64 KiB token limit between two exclusions. Oracle
// only: the Lean driver's string functions recurse per character.
func bigRuleFileCase(fillKind string, fillBytes int, deref bool) *PCase {
	return &PCase{Src: "@ARENA@/p/src", Deref: deref, Ignore: true, NoModel: true, Nodes: []PNode{
		{Path: "p", Kind: "d", Perm: 0755, Mtime: 1300000000e9},
		{Path: "p/src", Kind: "d", Perm: 0755, Mtime: 1300000001e9},
		{Path: "p/src/main.tf", Kind: "f", Perm: 0644, Mtime: 1300000010e9, Data: "m"},
		{Path: "p/src/old.bak", Kind: "f", Perm: 0644, Mtime: 1300000010e9, Data: "b"},
		{Path: "p/src/secret.auto.tfvars", Kind: "f", Perm: 0600, Mtime: 1300000010e9, Data: "password"},
		{Path: "p/src/private", Kind: "d", Perm: 0700, Mtime: 1300000010e9},
		{Path: "p/src/private/key.pem", Kind: "f", Perm: 0600, Mtime: 1300000010e9, Data: "key"},
		{Path: "p/src/modules", Kind: "d", Perm: 0755, Mtime: 1300000010e9},
		{Path: "p/src/modules/child.tf", Kind: "f", Perm: 0644, Mtime: 1300000010e9, Data: "c"},
		{Path: "p/src/.terraformignore", Kind: "f", Perm: 0644, Mtime: 1400000000e9, FillKind: fillKind, FillBytes: fillBytes,
			Data: "*.bak\n@FILL@\nsecret.auto.tfvars\nprivate/\n"},
	}}
}

// hasLongRuleLine: the case's rule file has a generated line beyond bufio.Scanner's default token limit.
// Before the repair F46 such a file was refused as a whole (ParseIgnoreFileContent: "token too long") and
// Pack applied the built-in rules only, shipping what the user's rules exclude. The oracle demands the
// complete rule file being honoured.
func hasLongRuleLine(c *PCase) bool {
	for _, n := range c.Nodes {
		if n.Path == "p/src/.terraformignore" && n.FillKind == "long-line" && n.FillBytes >= 64<<10 {
			return true
		}
	}
	return false
}

// names with a backslash next to rules whose verdict depends on segment boundaries (seed C03-g): the
// top-level file `sub\id.pem` is covered by '/*.pem' (it is not the file id.pem of a directory sub), the
// top-level file `logs\notes.txt` is not covered by 'logs/'
func backslashNamesCase(deref bool, rules string) *PCase {
	return &PCase{Src: "@ARENA@/p/src", Deref: deref, Ignore: true, Nodes: []PNode{
		{Path: "p", Kind: "d", Perm: 0755, Mtime: 1300000000e9},
		{Path: "p/src", Kind: "d", Perm: 0755, Mtime: 1300000001e9},
		{Path: "p/src/main.tf", Kind: "f", Perm: 0644, Mtime: 1300000010e9, Data: "m"},
		{Path: "p/src/id.pem", Kind: "f", Perm: 0600, Mtime: 1300000010e9, Data: "top-level key"},
		{Path: "p/src/sub", Kind: "d", Perm: 0755, Mtime: 1300000010e9},
		{Path: "p/src/sub/id.pem", Kind: "f", Perm: 0600, Mtime: 1300000010e9, Data: "kept: not at the top level"},
		{Path: "p/src/sub/main.tf", Kind: "f", Perm: 0644, Mtime: 1300000010e9, Data: "s"},
		{Path: "p/src/sub/win\\style.tf", Kind: "f", Perm: 0644, Mtime: 1300000010e9, Data: "w"},
		{Path: "p/src/logs", Kind: "d", Perm: 0755, Mtime: 1300000010e9},
		{Path: "p/src/logs/app.log", Kind: "f", Perm: 0644, Mtime: 1300000010e9, Data: "log"},
		{Path: "p/src/logs.txt", Kind: "f", Perm: 0644, Mtime: 1300000010e9, Data: "l"},
		{Path: "p/src/sub\\id.pem", Kind: "f", Perm: 0600, Mtime: 1300000010e9, Data: "top-level key with a backslash in its name"},
		{Path: "p/src/logs\\notes.txt", Kind: "f", Perm: 0644, Mtime: 1300000010e9, Data: "kept: not below logs/"},
		{Path: "p/src/\\lead", Kind: "f", Perm: 0644, Mtime: 1300000010e9, Data: "leading"},
		{Path: "p/src/trail\\", Kind: "d", Perm: 0755, Mtime: 1300000010e9},
		{Path: "p/src/trail\\/x\\y\\z", Kind: "f", Perm: 0644, Mtime: 1300000010e9, Data: "xyz"},
		{Path: "p/src/.terraformignore", Kind: "f", Perm: 0644, Mtime: 1400000000e9, Data: rules},
	}}
}

// names that are not valid UTF-8 (seed C20-g: the header written with U+FFFD in their place, Meta.Files
// keeping the raw name): a Latin-1 file name, a directory with a lone continuation byte and a file
// with 0xff below it, a lone lead byte, a truncated three-byte sequence, an encoded surrogate, an
// overlong '/', links whose name / target have such bytes. The unchanged code stores such names byte
// for byte (archive/tar puts a non-ASCII name into a PAX "path" / "linkpath" record and checks those
// for NUL only), and Unpack re-creates them byte for byte. Oracle only: the model's strings are Unicode.
func rawNamesNodes() []PNode {
	return []PNode{
		{Path: "p/src/caf\xe9.tf", Kind: "f", Perm: 0644, Mtime: 1300000010e9, Data: "latin-1"},
		{Path: "p/src/mod\x80ules", Kind: "d", Perm: 0750, Mtime: 1300000011e9},
		{Path: "p/src/mod\x80ules/v\xff.tf", Kind: "f", Perm: 0600, Mtime: 1300000012e9, Data: "v"},
		{Path: "p/src/\xc3", Kind: "f", Perm: 0644, Mtime: 1300000013e9, Data: "lone lead byte"},
		{Path: "p/src/tr\xe2\x82", Kind: "f", Perm: 0644, Mtime: 1300000014e9, Data: "truncated"},
		{Path: "p/src/sur\xed\xa0\x80", Kind: "d", Perm: 0755, Mtime: 1300000015e9},
		{Path: "p/src/over\xc0\xaflong", Kind: "f", Perm: 0644, Mtime: 1300000016e9, Data: "overlong"},
		{Path: "p/src/l\xfenk", Kind: "l", Data: "caf\xe9.tf"},
		{Path: "p/src/to-raw", Kind: "l", Data: "mod\x80ules/v\xff.tf"},
		{Path: "p/src/mod\x80ules/up\xa0", Kind: "l", Data: "../\xc3"},
	}
}

func rawNamesCase(deref, ignore bool) *PCase {
	c := &PCase{Src: "@ARENA@/p/src", Deref: deref, Ignore: ignore, NoModel: true, Nodes: []PNode{
		{Path: "p", Kind: "d", Perm: 0755, Mtime: 1300000000e9},
		{Path: "p/src", Kind: "d", Perm: 0755, Mtime: 1300000001e9},
		{Path: "p/src/main.tf", Kind: "f", Perm: 0644, Mtime: 1300000010e9, Data: "m"},
		{Path: "p/src/café.tf", Kind: "f", Perm: 0644, Mtime: 1300000010e9, Data: "utf-8"},
	}}
	c.Nodes = append(c.Nodes, rawNamesNodes()...)
	if ignore {
		c.Nodes = append(c.Nodes, PNode{Path: "p/src/.terraformignore", Kind: "f", Perm: 0644, Mtime: 1400000000e9, Data: "*.bak\n/over?long\n"})
	}
	return c
}

// addRawNames puts one to three of the raw-name nodes (with what they need: the directory above a
// file, the target of a link) into a generated tree; the case is then judged by the oracles only.
func addRawNames(r *Rng, c *PCase) {
	pool := rawNamesNodes()
	have := map[string]bool{}
	for _, n := range c.Nodes {
		have[n.Path] = true
	}
	add := func(n PNode) {
		if !have[n.Path] {
			have[n.Path] = true
			c.Nodes = append(c.Nodes, n)
		}
	}
	k := 1 + r.Intn(3)
	for j := 0; j < k; j++ {
		n := pool[r.Intn(len(pool))]
		if d := filepath.Dir(n.Path); d != "p/src" {
			add(pool[1]) // the directory mod\x80ules
		}
		if n.Kind == "l" {
			// the link's target: an existing raw-name node
			switch n.Path {
			case "p/src/l\xfenk":
				add(pool[0])
			case "p/src/to-raw":
				add(pool[1])
				add(pool[2])
			default:
				add(pool[3])
			}
		}
		add(n)
	}
	c.NoModel = true
}

// the built-in exclusions apply whatever the rule file holds, also a rule file of zero bytes (seed
// C10-g: an empty rule set for an empty file): .git and .terraform content is left out at any depth,
// .terraform/modules content stays
func emptyRuleFileCase(deref bool, rules string) *PCase {
	return &PCase{Src: "@ARENA@/p/src", Deref: deref, Ignore: true, Nodes: []PNode{
		{Path: "p", Kind: "d", Perm: 0755, Mtime: 1300000000e9},
		{Path: "p/src", Kind: "d", Perm: 0755, Mtime: 1300000001e9},
		{Path: "p/src/main.tf", Kind: "f", Perm: 0644, Mtime: 1300000010e9, Data: "m"},
		{Path: "p/src/.git", Kind: "d", Perm: 0755, Mtime: 1300000010e9},
		{Path: "p/src/.git/HEAD", Kind: "f", Perm: 0644, Mtime: 1300000010e9, Data: "ref: refs/heads/main"},
		{Path: "p/src/.git/objects", Kind: "d", Perm: 0755, Mtime: 1300000010e9},
		{Path: "p/src/.git/objects/ab", Kind: "f", Perm: 0444, Mtime: 1300000010e9, Data: "blob"},
		{Path: "p/src/.terraform", Kind: "d", Perm: 0755, Mtime: 1300000010e9},
		{Path: "p/src/.terraform/terraform.tfstate", Kind: "f", Perm: 0600, Mtime: 1300000010e9, Data: "state"},
		{Path: "p/src/.terraform/providers", Kind: "d", Perm: 0755, Mtime: 1300000010e9},
		{Path: "p/src/.terraform/providers/x", Kind: "f", Perm: 0755, Mtime: 1300000010e9, Data: "provider"},
		{Path: "p/src/.terraform/modules", Kind: "d", Perm: 0755, Mtime: 1300000010e9},
		{Path: "p/src/.terraform/modules/m", Kind: "d", Perm: 0755, Mtime: 1300000010e9},
		{Path: "p/src/.terraform/modules/m/main.tf", Kind: "f", Perm: 0644, Mtime: 1300000010e9, Data: "kept"},
		{Path: "p/src/modules", Kind: "d", Perm: 0755, Mtime: 1300000010e9},
		{Path: "p/src/modules/child", Kind: "d", Perm: 0755, Mtime: 1300000010e9},
		{Path: "p/src/modules/child/main.tf", Kind: "f", Perm: 0644, Mtime: 1300000010e9, Data: "c"},
		{Path: "p/src/modules/child/.git", Kind: "d", Perm: 0755, Mtime: 1300000010e9},
		{Path: "p/src/modules/child/.git/HEAD", Kind: "f", Perm: 0644, Mtime: 1300000010e9, Data: "ref"},
		{Path: "p/src/modules/child/.terraform", Kind: "d", Perm: 0755, Mtime: 1300000010e9},
		{Path: "p/src/modules/child/.terraform/lock.json", Kind: "f", Perm: 0644, Mtime: 1300000010e9, Data: "{}"},
		{Path: "p/src/.terraformignore", Kind: "f", Perm: 0644, Mtime: 1400000000e9, Data: rules},
	}}
}

// a '*' that has to match ZERO characters next to names for which it matches some (seed C10-h)
func emptyStarCase(deref bool, rules string) *PCase {
	return &PCase{Src: "@ARENA@/p/src", Deref: deref, Ignore: true, Nodes: []PNode{
		{Path: "p", Kind: "d", Perm: 0755, Mtime: 1300000000e9},
		{Path: "p/src", Kind: "d", Perm: 0755, Mtime: 1300000001e9},
		{Path: "p/src/main.tf", Kind: "f", Perm: 0644, Mtime: 1300000010e9, Data: "m"},
		{Path: "p/src/terraform.tfstate", Kind: "f", Perm: 0600, Mtime: 1300000010e9, Data: "state"},
		{Path: "p/src/terraform.tfstate.backup", Kind: "f", Perm: 0600, Mtime: 1300000010e9, Data: "older state"},
		{Path: "p/src/.auto.tfvars", Kind: "f", Perm: 0600, Mtime: 1300000010e9, Data: "password"},
		{Path: "p/src/prod.auto.tfvars", Kind: "f", Perm: 0600, Mtime: 1300000010e9, Data: "prod password"},
		{Path: "p/src/cache", Kind: "d", Perm: 0755, Mtime: 1300000010e9},
		{Path: "p/src/cache/blob", Kind: "f", Perm: 0644, Mtime: 1300000010e9, Data: "blob"},
		{Path: "p/src/cache-old", Kind: "d", Perm: 0755, Mtime: 1300000010e9},
		{Path: "p/src/cache-old/blob", Kind: "f", Perm: 0644, Mtime: 1300000010e9, Data: "old blob"},
		{Path: "p/src/modules", Kind: "d", Perm: 0755, Mtime: 1300000010e9},
		{Path: "p/src/modules/a", Kind: "d", Perm: 0755, Mtime: 1300000010e9},
		{Path: "p/src/modules/a/a.tf", Kind: "f", Perm: 0644, Mtime: 1300000010e9, Data: "a"},
		{Path: "p/src/modules/a/scratch", Kind: "f", Perm: 0644, Mtime: 1300000010e9, Data: "s"},
		{Path: "p/src/modules/a/scratch.txt", Kind: "f", Perm: 0644, Mtime: 1300000010e9, Data: "s.txt"},
		{Path: "p/src/.terraformignore", Kind: "f", Perm: 0644, Mtime: 1400000000e9, Data: rules},
	}}
}

// a rule line repeated after a rule of the other polarity: the last occurrence decides (seed C03-h)
func repeatedLineCase(deref bool, rules string) *PCase {
	return &PCase{Src: "@ARENA@/p/src", Deref: deref, Ignore: true, Nodes: []PNode{
		{Path: "p", Kind: "d", Perm: 0755, Mtime: 1300000000e9},
		{Path: "p/src", Kind: "d", Perm: 0755, Mtime: 1300000001e9},
		{Path: "p/src/main.tf", Kind: "f", Perm: 0644, Mtime: 1300000010e9, Data: "m"},
		{Path: "p/src/certs", Kind: "d", Perm: 0755, Mtime: 1300000010e9},
		{Path: "p/src/certs/public.pem", Kind: "f", Perm: 0644, Mtime: 1300000010e9, Data: "public"},
		{Path: "p/src/certs/private.pem", Kind: "f", Perm: 0600, Mtime: 1300000010e9, Data: "private"},
		{Path: "p/src/keep.log", Kind: "f", Perm: 0644, Mtime: 1300000010e9, Data: "kept"},
		{Path: "p/src/x.log", Kind: "f", Perm: 0644, Mtime: 1300000010e9, Data: "x"},
		{Path: "p/src/.terraformignore", Kind: "f", Perm: 0644, Mtime: 1400000000e9, Data: rules},
	}}
}

// names with control characters (seed C20-h): files, a directory with a file below it, link names and
// link targets; valid UTF-8, so the case goes to the model as well
func controlNamesCase(deref, ignore bool) *PCase {
	c := &PCase{Src: "@ARENA@/p/src", Deref: deref, Ignore: ignore, Nodes: []PNode{
		{Path: "p", Kind: "d", Perm: 0755, Mtime: 1300000000e9},
		{Path: "p/src", Kind: "d", Perm: 0755, Mtime: 1300000001e9},
		{Path: "p/src/main.tf", Kind: "f", Perm: 0644, Mtime: 1300000010e9, Data: "m"},
		{Path: "p/src/notes\nsecond line.txt", Kind: "f", Perm: 0644, Mtime: 1300000011e9, Data: "lf"},
		{Path: "p/src/esc\x1b[31mred\x1b[0m.tf", Kind: "f", Perm: 0600, Mtime: 1300000012e9, Data: "esc"},
		{Path: "p/src/tab\tdir", Kind: "d", Perm: 0750, Mtime: 1300000013e9},
		{Path: "p/src/tab\tdir/bel\a", Kind: "f", Perm: 0644, Mtime: 1300000014e9, Data: "bel"},
		{Path: "p/src/tab\tdir/empty", Kind: "f", Perm: 0644, Mtime: 1300000015e9, Data: ""},
		{Path: "p/src/cr\rlink", Kind: "l", Data: "notes\nsecond line.txt"},
		{Path: "p/src/del\x7f", Kind: "f", Perm: 0644, Mtime: 1300000016e9, Data: "del"},
		{Path: "p/src/nel\u0085x", Kind: "f", Perm: 0644, Mtime: 1300000017e9, Data: "c1"},
		{Path: "p/src/to-bel", Kind: "l", Data: "tab\tdir/bel\a"},
	}}
	if ignore {
		c.Nodes = append(c.Nodes, PNode{Path: "p/src/.terraformignore", Kind: "f", Perm: 0644, Mtime: 1400000000e9, Data: "*.bak\n/del?\n"})
	}
	return c
}

var packCorpus = []*PCase{
	controlNamesCase(false, false), controlNamesCase(true, false), controlNamesCase(false, true),
	emptyStarCase(false, "terraform.tfstate*\n*.auto.tfvars\ncache*/\nmodules/*/scratch*\n"), emptyStarCase(true, "terraform.tfstate*\n*.auto.tfvars\ncache*/\nmodules/*/scratch*\n"),
	emptyStarCase(false, "/terraform.tfstate*\n/*.auto.tfvars\n!prod*.auto.tfvars\n**/scratch*\n"),
	repeatedLineCase(false, "*.pem\n!certs/public.pem\n*.pem\n"), repeatedLineCase(true, "*.pem\n!certs/public.pem\n*.pem\n"), repeatedLineCase(false, "!keep.log\n*.log\n!keep.log\n"),
	repeatedLineCase(false, "*.pem\n*.log\n!certs/public.pem\n!keep.log\n  *.pem\n*.log\n"),
	backslashNamesCase(false, "# keys at the top level, the log directory\n/*.pem\nlogs/\n"), backslashNamesCase(true, "/*.pem\nlogs/\n"), backslashNamesCase(false, "/su?/*.pem\n?lead\ntrail*/x*\n!logs\n"),
	rawNamesCase(false, false), rawNamesCase(true, true), rawNamesCase(false, true),
	emptyRuleFileCase(false, ""), emptyRuleFileCase(true, ""), emptyRuleFileCase(false, "\n"),
	bigRuleFileCase("rule-lines", 1<<20+4096, false), bigRuleFileCase("rule-lines", 1<<20+4096, true), bigRuleFileCase("long-line", 70<<10, false),
	badPatternCase("logs/[0-9.log", false), badPatternCase("[z-a]", false), badPatternCase("[", true),symlinkedComponentCase("BB", true), symlinkedComponentCase("B", true), symlinkedComponentCase("BB", false),
	oddSourceCase("@ARENA@/p/missing"), oddSourceCase("@ARENA@/p/plain"), oddSourceCase("@ARENA@/p/dangling"), oddSourceCase("@ARENA@/p/pipe"), oddSourceCase("@ARENA@/p/plain/"),
	derefRuleCase("l/inner\n"), derefRuleCase("inner\n"), derefRuleCase("l/sub/\n"), derefRuleCase("/l/*\n!/l/other\n"), derefRuleCase("l/\n!l/sub/deep\n"),
}

// the rule file content Pack reads for the case's source directory ("" = none readable: defaults)
func packRuleFile(c *PCase) string {
	if c.OracleRules != nil {
		return *c.OracleRules
	}
	byPath := map[string]PNode{}
	for _, n := range c.Nodes {
		byPath[n.Path] = n
	}
	n, ok := byPath["p/src/.terraformignore"]
	for hops := 0; ok && n.Kind == "l" && hops < 4; hops++ {
		if strings.HasPrefix(n.Data, "/") || strings.HasPrefix(n.Data, "@") || strings.Contains(n.Data, "..") {
			return ""
		}
		n, ok = byPath["p/src/"+n.Data]
	}
	if ok && n.Kind == "f" {
		return nodeData(n)
	}
	return ""
}

// rulesFromTree: rule lines made from the name of a node of the tree below p/src: a rule with one '*' that
// covers the node only if the '*' matches zero characters (seed C10-h), or a line repeated after a rule
// of the other polarity, all three covering the node (seed C03-h). "" if no name can be written into a rule.
func rulesFromTree(r *Rng, nodes []PNode) string {
	var cands []PNode
	for _, n := range nodes {
		if rel := strings.TrimPrefix(n.Path, "p/src/"); rel != n.Path && n.Kind != "s" && safeRuleName(rel) {
			cands = append(cands, n)
		}
	}
	if len(cands) == 0 {
		return ""
	}
	n := cands[r.Intn(len(cands))]
	rel := strings.TrimPrefix(n.Path, "p/src/")
	switch {
	case n.Kind == "d" && r.Chance(70):
		return emptyStarRuleFor(r, rel) + "/\n"
	case r.Bool():
		return emptyStarRuleFor(r, rel) + "\n"
	}
	return repeatedRuleFor(r, rel)
}

func genPCase(r *Rng) *PCase {
	c := &PCase{Nodes: genTree(r), Src: "@ARENA@/p/src", Deref: r.Chance(40), Ignore: r.Chance(50)}
	if c.Ignore && r.Chance(60) {
		switch x := r.Intn(100); {
		case x < 88:
			rules := r.Pick(pRuleFiles)
			if r.Chance(30) {
				if d := rulesFromTree(r, c.Nodes); d != "" {
					rules = d
				}
			}
			c.Nodes = append(c.Nodes, PNode{Path: "p/src/.terraformignore", Kind: "f", Perm: 0644, Mtime: 1400000000e9, Data: rules})
		case x < 92:
			// a rule file that cannot be read as a file: a directory of that name (default rules apply)
			c.Nodes = append(c.Nodes, PNode{Path: "p/src/.terraformignore", Kind: "d", Perm: 0755, Mtime: 1400000000e9})
		case x < 96:
			// ... a dangling link of that name
			c.Nodes = append(c.Nodes, PNode{Path: "p/src/.terraformignore", Kind: "l", Data: "no-such-rules"})
		default:
			// ... a link to a rule file elsewhere in the tree
			c.Nodes = append(c.Nodes, PNode{Path: "p/src/rules.txt", Kind: "f", Perm: 0644, Mtime: 1400000000e9, Data: r.Pick(pRuleFiles)},
				PNode{Path: "p/src/.terraformignore", Kind: "l", Data: "rules.txt"})
		}
	}
	if r.Chance(8) {
		c.Allow = []string{r.Pick([]string{"../ext", "@ARENA@/p/ext/file", "../src-evil", "../outside.txt", "", "."})}  // "" and ".": entries that denote the root itself (seed C05-e)
	}
	return c
}

func init() {
	lanes["pack"] = func(cfg *Config, rep *Report) {
		rep.Rule = "source trees of 1..9 nodes below src (files with modes 0000-0777 and .0/.4/.5/.6 s mtimes, directories incl. empty and read-only, fifos, links: in-tree relative/absolute, dangling, '..' detours, to a prefix-sharing sibling, to an outside file / directory / chain) next to outside decoys, x {dereference} x {ignore on/off with 27 rule files, incl. a '*' that has to match zero characters and a line repeated after a rule of the other polarity; 30% of the rule files made from a name of the tree in one of these two shapes} x allow-lists; names incl. backslashes (ordinary characters: one segment) under anchored / directory / wildcard rules, and control characters (LF, CR, TAB, BEL, ESC, DEL, U+0085); 4% of the trees with names, link names and link targets that are not valid UTF-8 (oracle only: Meta vs headers and the round trip, byte for byte); corpus: control-character names, empty-'*' rules, repeated rule lines, backslash names, non-UTF-8 names, .git / .terraform / .terraform/modules content next to a rule file of zero bytes; non-trivial = has a link, a rule file or a special file; distinct by (tree, options)"
		packWithCycles = cfg.Prop == "C19"
		corpus := packCorpus
		if packWithCycles {
			corpus = append(append([]*PCase{}, packCorpus...), derefCycleCase("p/ext/self", "."), derefCycleCase("p/ext/d/up", ".."),
				derefCycleCase("p/ext/d/abs", "@ARENA@/p/ext"), derefCycleCase("p/ext/d/fine", "../f"))
		}
		runPackLane(cfg, rep, func(r *Rng, i int) []*PCase {
			if i < len(corpus) {
				return []*PCase{corpus[i]}
			}
			c := genPCase(r)
			if r.Chance(4) {
				addRawNames(r, c)
			}
			return []*PCase{c}
		})
	}
}

func runPackLane(cfg *Config, rep *Report, gen func(r *Rng, i int) []*PCase) {
	r := NewRng(cfg.Seed)
	work, err := filepath.EvalSymlinks(cfg.Work)
	if err != nil {
		rep.Broken = append(rep.Broken, "work dir: "+err.Error())
		return
	}
	syscall.Umask(022)
	var cases []*PCase
	for i := 0; len(cases) < cfg.N; i++ {
		cases = append(cases, gen(r, i)...)
	}
	// exact replay (-case): the recorded case takes the last slot (and arena) and is run first, alone
	replayIdx := -1
	var rc PCase
	if loadReplayInput(cfg, "pack", &rc) {
		if why := unsafeReplayedPCase(&rc); why != "" {
			rep.ReplayNote("refused: " + why)
		} else {
			cases = append(cases, &rc)
			replayIdx = len(cases) - 1
		}
	} else {
		replayMissing(cfg, rep, "pack")
	}
	reqs := make([]string, len(cases))
	impl := make([]string, len(cases))
	human := make([]interface{}, len(cases))
	var wg sync.WaitGroup
	sem := make(chan struct{}, 16)
	runCase := func(i int) {
			c := cases[i]
			arena := filepath.Join(work, fmt.Sprintf("k%06d", i))
			defer func() {
				// restore permissions so that removal works
				filepath.Walk(arena, func(p string, info os.FileInfo, err error) error {
					if err == nil && info.IsDir() {
						os.Chmod(p, 0755)
					}
					return nil
				})
				os.RemoveAll(arena)
			}()
			if err := materialiseP(arena, c.Nodes); err != nil {
				rep.Count("skipped:materialise")
				return
			}
			sub := func(s string) string { return strings.Replace(s, "@ARENA@", arena, 1) }
			src := sub(c.Src)
			var allow []string
			for _, a := range c.Allow {
				allow = append(allow, sub(a))
			}
			fsdump := ""
			if !c.NoModel {
				fsdump = snapshotNS(arena)
			}
			var buf bytes.Buffer
			out := runPack(src, &buf, &buf, c.Deref, c.Ignore, allow)
			reqs[i] = fmt.Sprintf("pack %s %s %s %s %s %s", X("/"), X(src), B01(c.Deref), B01(c.Ignore), encStrList(allow), fsdump)
			impl[i] = canonPack(out)
			human[i] = c
			nt := c.Ignore
			for _, n := range c.Nodes {
				if strings.HasPrefix(n.Path, "p/src/") && (n.Kind == "l" || n.Kind == "s") {
					nt = true
				}
			}
			rep.Case(fmt.Sprintf("%v", *c), nt, map[string]interface{}{"case": c, "result": out.class})
			rep.Count("result:" + out.class)
			rawName, bsName := false, false
			for _, n := range c.Nodes {
				if !utf8.ValidString(n.Path) || (n.Kind == "l" && !utf8.ValidString(n.Data)) {
					rawName = true
				}
				if strings.HasPrefix(n.Path, "p/src/") && strings.Contains(n.Path, `\`) {
					bsName = true
				}
			}
			if rawName {
				rep.Count("names:not-utf8 (oracle only):" + out.class)
			}
			if bsName && c.Ignore {
				rep.Count("names:backslash, ignore on")
			}
			judgePack(rep, c, arena, src, allow, out, i)
			if c.NoModel {
				reqs[i] = ""
			}
	}
	if replayIdx >= 0 {
		rep.BeginReplay()
		runCase(replayIdx)
		rep.EndReplay(reqs[replayIdx])
	}
	for i := range cases {
		if i == replayIdx {
			continue
		}
		wg.Add(1)
		sem <- struct{}{}
		go func(i int) {
			defer wg.Done()
			defer func() { <-sem }()
			runCase(i)
		}(i)
	}
	wg.Wait()
	var rq, im []string
	var hu []interface{}
	remap := map[int]int{}
	for i := range reqs {
		if reqs[i] != "" {
			remap[i+1] = len(rq) + 1
			rq = append(rq, reqs[i])
			im = append(im, impl[i])
			hu = append(hu, human[i])
		}
	}
	for k := range rep.OracleFailures {
		rep.OracleFailures[k].ReqIdx = remap[rep.OracleFailures[k].ReqIdx]
	}
	rep.Compare(cfg.Driver, rq, im, hu)
}

// unsafeReplayedPCase: a recorded tree is materialised below a fresh arena; its node paths must stay
// there, and absolute link targets / sources / allow-list entries must be written with the @ARENA@
// placeholder ("" = accepted).
func unsafeReplayedPCase(c *PCase) string {
	if len(c.Nodes) == 0 || c.Src == "" {
		return "the recorded input is not a pack case (no tree / source)"
	}
	return unsafePNodes(c.Nodes, append([]string{c.Src}, c.Allow...))
}

func unsafePNodes(nodes []PNode, others []string) string {
	placeholder := func(t string) string {
		for _, ph := range []string{"@ARENA@", "@WORK@", "@WORKBASE@"} {
			t = strings.Replace(t, ph, "PLACEHOLDER", 1)
		}
		return t
	}
	for _, n := range nodes {
		if why := unsafeRelName(n.Path, false); why != "" {
			return "tree node: " + why
		}
		if n.Kind == "l" {
			if why := unsafeTarget(placeholder(n.Data)); why != "" {
				return "link " + n.Path + ": " + why
			}
		}
	}
	for _, t := range others {
		if why := unsafeTarget(placeholder(t)); why != "" {
			return why
		}
	}
	return ""
}

// showName renders a path for a report: as it is, or quoted with \x escapes when it is not valid
// UTF-8 (the JSON encoder would replace those bytes)
func showName(s string) string {
	if utf8.ValidString(s) {
		return s
	}
	return strconv.Quote(s)
}

func B01(b bool) string {
	if b {
		return "1"
	}
	return "0"
}

// judgePack applies the implementation-level oracles of C20, C05, C02 and C03 to one Pack run.
func judgePack(rep *Report, c *PCase, arena, src string, allow []string, out packOut, i int) {
	fail := func(prop, what, sig string) {
		rep.AddOracle(OracleFailure{Property: prop, Lane: "pack", What: what, Input: c, Signature: sig, ReqIdx: i + 1})
	}
	if out.panic != nil || out.timeout {
		fail("C19", fmt.Sprintf("Pack %s: %v", out.class, out.panic), "")
		return
	}
	srcReal, _ := filepath.EvalSymlinks(src)
	// tree facts
	hasOutsideLink := false
	linkInDerefDir := false
	srcRel, _ := filepath.Rel(arena, srcReal)
	for _, n := range c.Nodes {
		if n.Kind != "l" || !strings.HasPrefix(n.Path, srcRel+"/") {
			continue
		}
		t := strings.Replace(n.Data, "@ARENA@", arena, 1)
		abs := t
		if !strings.HasPrefix(t, "/") {
			abs = filepath.Join(filepath.Dir(filepath.Join(arena, n.Path)), t)
		}
		if !within(srcReal, filepath.Clean(abs)) {
			hasOutsideLink = true
		}
	}
	_ = linkInDerefDir
	if out.class != "ok" {
		if out.class == "illegal" && !hasOutsideLink {
			fail("C05", "Pack fails with an illegal-slug error although every link of the tree stays inside it", "")
		}
		return
	}
	// the rule file the oracles judge by
	ruleText := packRuleFile(c)
	if c.Ignore && hasLongRuleLine(c) {
		// refused as a whole (built-in rules only) or honoured as a whole: whichever explains the slug
		// without a mismatch; if neither does, the failures are reported against the refusal (what the
		// unchanged code does)
		shipped := map[string]bool{}
		for _, e := range out.entries {
			shipped[strings.TrimSuffix(e.Name, "/")] = true
		}
		mismatches := func(text string) int {
			orules := oParse(text)
			k := 0
			filepath.Walk(srcReal, func(p string, info os.FileInfo, err error) error {
				if err != nil {
					return nil
				}
				rel, _ := filepath.Rel(srcReal, p)
				if rel == "." || info.IsDir() {
					return nil
				}
				if oExcluded(orules, rel) == shipped[rel] {
					k++
				}
				return nil
			})
			return k
		}
		if mismatches(ruleText) != 0 && mismatches("") == 0 {
			// F46 (repaired): the whole rule file dropped, the built-in rules alone applied
			rep.Count("long-rule-line:refused-defaults-apply")
			fail("C03", "a rule file with a line of 64 KiB or more was dropped as a whole: only the built-in rules were applied and files excluded by the user's rules are in the slug", "")
			ruleText = ""
		} else if mismatches(ruleText) == 0 {
			rep.Count("long-rule-line:honoured")
		} else {
			ruleText = ""
			rep.Count("long-rule-line:partial")
		}
	}
	// ---- C20 ----
	var names []string
	var bodySum, hdrSum int64
	for k, e := range out.entries {
		names = append(names, e.Name)
		if e.Typ == tar.TypeReg {
			bodySum += int64(len(e.Body))
			hdrSum += out.sizes[k]
		}
	}
	if strings.Join(names, "\x00") != strings.Join(out.meta.Files, "\x00") {
		fail("C20", fmt.Sprintf("Meta.Files %q differs from the entry names of the slug %q", out.meta.Files, names), "")
	}
	if out.meta.Size != bodySum || hdrSum != bodySum {
		fail("C20", fmt.Sprintf("Meta.Size=%d, content bytes stored=%d, header sizes=%d", out.meta.Size, bodySum, hdrSum), "")
	}
	escSig := ""
	// ---- C05: link entries stay inside at their archive position; data only from inside ----
	for _, e := range out.entries {
		if e.Typ == tar.TypeSymlink {
			pos := filepath.Join("/root", filepath.Dir(e.Name))
			var res string
			if strings.HasPrefix(e.Link, "/") {
				res = "abs"
				if !within(srcReal, filepath.Clean(e.Link)) {
					res = "outside"
				}
			} else if !within("/root", filepath.Join(pos, e.Link)) {
				res = "outside"
			}
			if res == "outside" {
				allowed := false
				for _, a := range allow {
					if !strings.HasPrefix(a, "/") {
						a = filepath.Join(srcReal, a)
					}
					t := e.Link
					if !strings.HasPrefix(t, "/") {
						t = filepath.Join(srcReal, filepath.Dir(e.Name), t)
					}
					if within(filepath.Clean(a), filepath.Clean(t)) {
						allowed = true
					}
				}
				if !allowed {
					sig := "pack.link-in-dereferenced-dir"
					for _, n := range c.Nodes {
						if n.Kind == "l" && n.Path == "p/src/"+e.Name && n.Data == e.Link {
							// a link of the tree itself: on disk its target leaves the source directory and comes
							// back through the directory's own name; in the archive that name is gone
							sig = "pack.link-reenters-root-by-name"
						}
					}
					escSig = sig
					fail("C05", fmt.Sprintf("link entry %s -> %q leaves the archive root at its position", showName(e.Name), e.Link), sig)
				}
			}
		}
		if e.Typ == tar.TypeReg && !c.Deref {
			// without dereferencing, every body is the content of the file of that name inside src
			b, err := os.ReadFile(filepath.Join(srcReal, e.Name))
			if err != nil || string(b) != e.Body {
				fail("C05", fmt.Sprintf("entry %s carries data that is not the content of that file inside the source directory", showName(e.Name)), "")
			}
		}
		if strings.HasPrefix(e.Name, "../") || strings.HasPrefix(e.Name, "/") {
			if escSig == "" {
				escSig = "pack.nested-dereference-name"
			}
			fail("C05", "entry name leaves the archive root: "+e.Name, "pack.nested-dereference-name")
		}
	}
	if !c.Deref && hasOutsideLink && len(allow) == 0 && !c.Ignore {
		fail("C05", "a tree with an out-of-tree link was packed without dereferencing and without an allow-list", "")
	}
	// ---- C05: Unpack accepts what Pack produced (relative links only) ----
	relOnly := true
	for _, n := range c.Nodes {
		if n.Kind == "l" && strings.HasPrefix(n.Path, "p/src/") && strings.HasPrefix(n.Data, "@ARENA@") {
			relOnly = false
		}
	}
	dst := filepath.Join(arena, "unpacked")
	os.Mkdir(dst, 0755)
	uo := runUnpack(bytes.NewReader(out.raw), dst, allow)
	if relOnly && len(allow) == 0 && uo.class == "illegal" {
		fail("C05", "Unpack refuses a slug that Pack produced from a tree whose links are all relative", escSig)
	}
	// ---- C02: round trip (no ignore rules, no dereferencing, links relative and inside) ----
	if !c.Ignore && !c.Deref && len(allow) == 0 && !hasOutsideLink && relOnly && uo.class != "ok" && escSig == "" {
		fail("C02", "unpacking the slug that Pack produced from a tree of files, directories and in-tree relative links fails: "+uo.class, "")
	}
	if !c.Deref && len(allow) == 0 && !hasOutsideLink && relOnly && uo.class == "ok" {
		rep.Count("c02:judged")
		// with ignore processing the round trip is judged on the files and links whose own path the
		// rules do not exclude (and that no pruned directory hides: finding F32): "the only omissions
		// are entries excluded by ignore rules" (seed C02-d)
		var keepOnly func(rel string, isDir bool) bool
		if c.Ignore {
			rulefile := ruleText
			orules := oParse(rulefile)
			keepOnly = func(rel string, isDir bool) bool {
				return !isDir && !oExcluded(orules, rel) && packPruneSignature(orules, rel) == ""
			}
			rep.Count("c02:judged-with-ignore")
		}
		var diffs []string
		want := map[string]string{}
		filepath.Walk(srcReal, func(p string, info os.FileInfo, err error) error {
			if err != nil {
				return nil
			}
			rel, _ := filepath.Rel(srcReal, p)
			if rel == "." {
				return nil
			}
			switch {
			case info.Mode()&os.ModeSymlink != 0:
				t, _ := os.Readlink(p)
				want[rel] = "l " + t
			case info.IsDir():
				want[rel] = fmt.Sprintf("d %o %d", info.Mode().Perm(), info.ModTime().Round(time.Second).Unix())
			case info.Mode().IsRegular():
				b, _ := os.ReadFile(p)
				want[rel] = fmt.Sprintf("f %o %d %s", info.Mode().Perm(), info.ModTime().Round(time.Second).Unix(), b)
			}
			return nil
		})
		got := map[string]string{}
		filepath.Walk(dst, func(p string, info os.FileInfo, err error) error {
			if err != nil {
				return nil
			}
			rel, _ := filepath.Rel(dst, p)
			if rel == "." {
				return nil
			}
			switch {
			case info.Mode()&os.ModeSymlink != 0:
				t, _ := os.Readlink(p)
				got[rel] = "l " + t
			case info.IsDir():
				got[rel] = fmt.Sprintf("d %o %d", info.Mode().Perm(), info.ModTime().Unix())
			case info.Mode().IsRegular():
				b, _ := os.ReadFile(p)
				got[rel] = fmt.Sprintf("f %o %d %s", info.Mode().Perm(), info.ModTime().Unix(), b)
			}
			return nil
		})
		for k, v := range want {
			if keepOnly != nil && !keepOnly(k, strings.HasPrefix(v, "d ")) {
				continue
			}
			if got[k] != v {
				diffs = append(diffs, fmt.Sprintf("%s: source %q, unpacked %q", showName(k), v, got[k]))
			}
		}
		for k := range got {
			if _, ok := want[k]; !ok {
				diffs = append(diffs, "extra: "+showName(k))
			}
		}
		if len(diffs) > 0 {
			sort.Strings(diffs)
			fail("C02", "round trip differs: "+strings.Join(diffs, "; "), "")
		}
	}
	// make the unpacked tree removable
	filepath.Walk(dst, func(p string, info os.FileInfo, err error) error {
		if err == nil && info.IsDir() {
			os.Chmod(p, 0755)
		}
		return nil
	})
	// ---- C03 (secrecy, also with dereferencing): no entry whose own archive path is excluded ----
	if c.Ignore && c.Deref && len(allow) == 0 {
		rulefile := ruleText
		orules := oParse(rulefile)
		for _, e := range out.entries {
			name := strings.TrimSuffix(e.Name, "/")
			if !strings.HasPrefix(name, "../") && oExcluded(orules, name) {
				fail("C03", fmt.Sprintf("%s is excluded by the rules but is in the slug (dereferencing on)", showName(name)), "")
			}
		}
	}
	// ---- C03: with ignore processing, a file ships iff its own path is not excluded ----
	if !c.Deref && len(allow) == 0 {
		rulefile := ruleText
		orules := oParse(rulefile)
		shipped := map[string]bool{}
		for _, e := range out.entries {
			shipped[strings.TrimSuffix(e.Name, "/")] = true
		}
		filepath.Walk(srcReal, func(p string, info os.FileInfo, err error) error {
			if err != nil {
				return nil
			}
			rel, _ := filepath.Rel(srcReal, p)
			if rel == "." || info.IsDir() || (!info.Mode().IsRegular() && info.Mode()&os.ModeSymlink == 0) {
				return nil
			}
			ex := c.Ignore && oExcluded(orules, rel)
			if ex && shipped[rel] {
				fail("C03", fmt.Sprintf("%s is excluded by the rules but is in the slug", showName(rel)), "")
			}
			if !ex && !shipped[rel] {
				sig := ""
				if c.Ignore {
					sig = packPruneSignature(orules, rel)
				}
				fail("C03", fmt.Sprintf("%s is not excluded by the rules but is missing from the slug", showName(rel)), sig)
			}
			return nil
		})
	}
}

// packPruneSignature: the file is missing because an ancestor directory, tested as "dir/", is matched
// by a rule whose last segment can match the empty string (F32), with no later negation.
func packPruneSignature(rules []oRule, rel string) string {
	segs := strings.Split(rel, "/")
	for i := 1; i < len(segs); i++ {
		d := strings.Join(segs[:i], "/") + "/"
		if oExcluded(rules, d) {
			return "pack.prune-on-empty-tail-match"
		}
	}
	return ""
}

// ---------- pack-faults lane (C12): the output writer fails at every offset ----------

type failWriter struct {
	n    int // bytes accepted before failing
	seen int
}

func (w *failWriter) Write(p []byte) (int, error) {
	if w.seen+len(p) > w.n {
		k := w.n - w.seen
		if k < 0 {
			k = 0
		}
		w.seen += k
		return k, fmt.Errorf("injected write error")
	}
	w.seen += len(p)
	return len(p), nil
}

func init() {
	lanes["pack-faults"] = func(cfg *Config, rep *Report) {
		rep.Rule = "small source trees x option sets; the output writer fails after k bytes for every k below the length of the fault-free slug (quick: a stride plus the last 40 offsets; thorough: every offset = exhaustive over positions); oracle: Pack returns an error; non-trivial = every case; distinct by (tree, options, k)"
		r := NewRng(cfg.Seed)
		work, err := filepath.EvalSymlinks(cfg.Work)
		if err != nil {
			rep.Broken = append(rep.Broken, "work dir: "+err.Error())
			return
		}
		syscall.Umask(022)
		// exact replay (-case): the recorded input is {"case": tree and options, "fail_after": k}; the tree
		// goes first through the lane and k is added to the failure offsets that are tried
		var rin struct {
			Case      *PCase `json:"case"`
			FailAfter *int   `json:"fail_after"`
		}
		var rcase *PCase
		if loadReplayInput(cfg, "pack-faults", &rin) && rin.Case != nil {
			rcase = rin.Case
		} else {
			var plain PCase
			if loadReplayInput(cfg, "pack-faults", &plain) && len(plain.Nodes) > 0 {
				rcase = &plain
			}
		}
		if rcase == nil {
			replayMissing(cfg, rep, "pack-faults")
		} else if why := unsafeReplayedPCase(rcase); why != "" {
			rep.ReplayNote("refused: " + why)
			rcase = nil
		}
		for a := -1; a < cfg.N; a++ {
			var c *PCase
			isReplay := a < 0
			if isReplay {
				if rcase == nil {
					continue
				}
				c = rcase
				rep.BeginReplay()
			} else {
				c = genPCase(r)
			}
			c.Allow = nil
			arena := filepath.Join(work, fmt.Sprintf("w%05d", a))
			if isReplay {
				arena = filepath.Join(work, "w99999") // same length as the others: absolute link targets keep their size
			}
			if err := materialiseP(arena, c.Nodes); err != nil {
				if isReplay {
					rep.EndReplay()
				}
				continue
			}
			src := strings.Replace(c.Src, "@ARENA@", arena, 1)
			var buf bytes.Buffer
			base := runPack(src, &buf, &buf, c.Deref, c.Ignore, nil)
			if base.class == "ok" {
				n := buf.Len()
				stride := 17
				if cfg.Tier == "thorough" {
					stride = 1
				}
				var ks []int
				if !isReplay {
					for k := r.Intn(stride); k < n; k += stride {
						ks = append(ks, k)
					}
				}
				if isReplay {
					// the recorded offset first; the stride offsets come from a stream of their own
					if rin.FailAfter != nil && *rin.FailAfter >= 0 {
						ks = append(ks, *rin.FailAfter)
					}
					rr := NewRng(cfg.Seed ^ 0x5eed)
					for k := rr.Intn(stride); k < n; k += stride {
						ks = append(ks, k)
					}
				}
				for k := n - 40; k < n; k++ {
					if k >= 0 {
						ks = append(ks, k)
					}
				}
				var wg sync.WaitGroup
				sem := make(chan struct{}, 16)
				for _, k := range ks {
					wg.Add(1)
					sem <- struct{}{}
					go func(k int) {
						defer wg.Done()
						defer func() { <-sem }()
						fw := &failWriter{n: k}
						o := runPack(src, fw, nil, c.Deref, c.Ignore, nil)
						rep.Case(fmt.Sprintf("%d|%d", a, k), true, map[string]interface{}{"tree": len(c.Nodes), "fail_after": k, "of": n, "result": o.class})
						rep.Count("result:" + o.class)
						if o.class == "ok" {
							rep.AddOracle(OracleFailure{Property: "C12", Lane: "pack-faults", What: fmt.Sprintf("Pack reported success although the writer failed after %d of %d bytes", k, n), Input: map[string]interface{}{"case": c, "fail_after": k}})
							// the Meta it returned then describes a slug that was never written in full
							rep.AddOracle(OracleFailure{Property: "C20", Lane: "pack-faults", What: fmt.Sprintf("Pack returned a Meta for a slug of which only %d of %d bytes reached the writer", k, n), Input: map[string]interface{}{"case": c, "fail_after": k}})
						}
						if o.panic != nil || o.timeout {
							rep.AddOracle(OracleFailure{Property: "C19", Lane: "pack-faults", What: "Pack " + o.class + " under a failing writer", Input: c})
						}
					}(k)
				}
				wg.Wait()
			}
			filepath.Walk(arena, func(p string, info os.FileInfo, err error) error {
				if err == nil && info.IsDir() {
					os.Chmod(p, 0755)
				}
				return nil
			})
			os.RemoveAll(arena)
			if isReplay {
				rep.EndReplay()
			}
		}
		rep.Exhaustive = cfg.Tier == "thorough"
	}
}

// ---------- pack-spelling lane (C16): same tree, varied spelling / cwd / history / concurrency ----------

// slowWriter yields between writes so that overlapping Pack calls really overlap
type slowWriter struct{ w io.Writer }

func (s *slowWriter) Write(p []byte) (int, error) {
	time.Sleep(200 * time.Microsecond)
	return s.w.Write(p)
}

func init() {
	lanes["pack-spelling"] = func(cfg *Config, rep *Report) {
		rep.Rule = "one generated tree per case, packed through: the absolute path (baseline), relative spellings from two working directories ('p/src', './p/src/.', 'p/./src', 'src' from p), a trailing slash, a '..' detour, an absolute root link, a relative root link (from its own directory and from elsewhere), a chained root link, 'link/', the source directory below a linked parent directory (relative / absolute / chained link, absolute and relative spelling), a relative spelling from a working directory entered through a link ($PWD spelled with the link); after parsing rule files that begin with a negation; and with four Pack calls running concurrently; the linked-parent spellings of a tree whose links are all relative and in-tree are also judged for C02 (Pack succeeds and stores links as links); per tree a dereferencing Packer whose first Pack failed inside a dereferenced out-of-tree directory (writer fault at two offsets inside a 128 KiB file; a dangling link there) then packs the same, the repaired and another tree, each compared with a fresh Packer; per tree one generated history (2-6 Pack / parse steps over 1-3 directories whose rule files share pattern texts with and without a later negation and are replaced in place, deleted, re-created) whose last Pack is repeated in a fresh process; for every fourth tree the package-level Pack held at its first write while another package-level Pack with the other dereference setting runs; non-trivial = every variant; distinct by (tree, variant)"
		r := NewRng(cfg.Seed)
		work, err := filepath.EvalSymlinks(cfg.Work)
		if err != nil {
			rep.Broken = append(rep.Broken, "work dir: "+err.Error())
			return
		}
		syscall.Umask(022)
		origWd, _ := os.Getwd()
		defer os.Chdir(origWd)
		var reqs, impl []string
		var human []interface{}
		// root links used by some variants
		rootLinks := []PNode{
			{Path: "abslink", Kind: "l", Data: "@ARENA@/p/src"},
			{Path: "p/rellink", Kind: "l", Data: "src"},
			{Path: "chain2", Kind: "l", Data: "@ARENA@/abslink"},
			// links to the PARENT of the source directory (seed C16-g: the root resolved through the file
			// system, the walked paths left as they were spelled): relative, absolute, and one that sits in a
			// directory of its own (so that its '..' is not the arena)
			{Path: "lnkparent", Kind: "l", Data: "p"},
			{Path: "lnkparentabs", Kind: "l", Data: "@ARENA@/p"},
			{Path: "q", Kind: "d", Perm: 0755, Mtime: 1300000020e9},
			{Path: "q/up", Kind: "l", Data: "../lnkparent"}}
		runOne := func(a int, c *PCase, isReplay bool, histories []*HCase) {
			arena := filepath.Join(work, fmt.Sprintf("s%05d", a))
			if err := materialiseP(arena, c.Nodes); err != nil {
				return
			}
			var finishHistories []func()
			for k, h := range histories {
				finishHistories = append(finishHistories, startHistory(rep, filepath.Join(work, fmt.Sprintf("y%05d_%d", a, k)), h))
				rep.Case(fmt.Sprintf("%d|history-%d", a, k), true, map[string]interface{}{"variant": "history-vs-fresh-process", "steps": len(h.Steps), "dirs": h.Dirs})
				rep.Count("variant:history-vs-fresh-process")
			}
			fsdump := snapshotNS(arena)
			abs := arena + "/p/src"
			type variant struct {
				name, cwd, src, sig string
				// pwd: the working directory was entered through a link and $PWD still spells it that way
				// (os.Getwd, and with it filepath.Abs, answers $PWD when it names the working directory)
				pwd bool
			}
			// a link of the tree with an ABSOLUTE target: generated ones are spelled with the physical path of
			// the arena. With the source reached through a linked parent, the unchanged code compares such a
			// target (or, with dereferencing, the targets of the links found below an absolute out-of-tree
			// directory target, e.g. p/ext/dir/back -> ../../src/a) as a path string with the root as it was
			// spelled, finds it outside, and the slug is another one (illegal / io / a copy instead of a
			// link). The model does the same. The linked-parent spellings of such a tree are compared with
			// the model only.
			absInTreeLink := false
			for _, n := range c.Nodes {
				if n.Kind == "l" && strings.HasPrefix(n.Path, "p/src/") && strings.HasPrefix(n.Data, "@ARENA@") {
					absInTreeLink = true
				}
			}
			vs := []variant{
				{"absolute", arena, abs, "", false},
				{"relative", arena, "p/src", "", false},
				{"relative-dots", arena, "./p/src/.", "", false},
				{"relative-inner-dot", arena, "p/./src", "", false},
				{"relative-from-p", arena + "/p", "src", "", false},
				{"trailing-slash", arena, abs + "/", "", false},
				{"dotdot-detour", arena, arena + "/p/ext/../src", "", false},
				{"abs-root-link", arena, arena + "/abslink", "", false},
				{"rel-root-link-own-dir", arena + "/p", arena + "/p/rellink", "", false},
				{"rel-root-link-other-cwd", arena, arena + "/p/rellink", "pack.root-relative-link", false},
				{"chained-root-link", arena, arena + "/chain2", "pack.root-chained-link", false},
				{"root-link-trailing-slash", arena, arena + "/abslink/", "pack.root-link-trailing-slash", false},
				// the source directory below a linked PARENT directory: the last component is the directory itself
				{"parent-link", arena, arena + "/lnkparent/src", "", false},
				{"parent-link-absolute-target", arena + "/p", arena + "/lnkparentabs/src", "", false},
				{"parent-link-relative-spelling", arena, "lnkparent/src", "", false},
				{"parent-link-chain", arena, arena + "/q/up/src", "", false},
				// a relative spelling from a working directory that was entered through the link
				{"cwd-through-link", arena + "/lnkparent", "src", "", true},
				{"cwd-through-link-dot", arena + "/lnkparent/src", ".", "", true},
			}
			// a tree of regular files, directories and relative links that stay inside it (lexically, at
			// their own position): whatever the spelling of the source, it must pack, and its links must be
			// stored as links (C02; seed C02-h: the root resolved through the file system, the walked paths
			// left as they were spelled, so that every in-tree link counted as external)
			onlyInTreeRelLinks := true
			for _, n := range c.Nodes {
				if n.Kind != "l" || !strings.HasPrefix(n.Path, "p/src/") {
					continue
				}
				if strings.HasPrefix(n.Data, "/") || strings.HasPrefix(n.Data, "@") {
					onlyInTreeRelLinks = false
					continue
				}
				// inside at every step of the target (a target that leaves the source directory and comes back
				// through the directory's own name, '../src/a', is not counted as in-tree)
				cur := filepath.Join("/A", filepath.Dir(n.Path))
				for _, comp := range strings.Split(n.Data, "/") {
					cur = filepath.Join(cur, comp)
					if !within("/A/p/src", cur) {
						onlyInTreeRelLinks = false
					}
				}
			}
			var base string
			var baseOut packOut
			for vi, v := range vs {
				if vi == 3 {
					// history: rule files that begin with a negation were parsed earlier in this process
					slug.Pack(filepath.Join(arena, "p/ext"), io.Discard, false)
					parseSafe("!foo\n!.git/\n")
				}
				os.Chdir(v.cwd)
				oldPwd, hadPwd := os.LookupEnv("PWD")
				if v.pwd {
					os.Setenv("PWD", v.cwd)
				}
				var buf bytes.Buffer
				out := runPack(v.src, &buf, &buf, c.Deref, c.Ignore, nil)
				if v.pwd {
					if hadPwd {
						os.Setenv("PWD", oldPwd)
					} else {
						os.Unsetenv("PWD")
					}
				}
				os.Chdir(origWd)
				canon := canonPack(out)
				reqs = append(reqs, fmt.Sprintf("pack %s %s %s %s - %s", X(v.cwd), X(v.src), B01(c.Deref), B01(c.Ignore), fsdump))
				impl = append(impl, canon)
				in := map[string]interface{}{"case": c, "variant": v.name, "cwd": strings.TrimPrefix(v.cwd, arena), "src": strings.Replace(v.src, arena, "<arena>", 1)}
				human = append(human, in)
				rep.Case(fmt.Sprintf("%d|%s", a, v.name), true, map[string]interface{}{"variant": v.name, "result": out.class, "entries": len(out.entries)})
				rep.Count("variant:" + v.name)
				if vi == 0 {
					base = canon
					baseOut = out
					continue
				}
				if absInTreeLink && (strings.HasPrefix(v.name, "parent-link") || v.pwd) {
					// F48 (open): validSymlink compares an absolute link target with the root AS SPELLED, so a tree
					// with an absolute link target named by its physical path packs differently when the root is
					// reached through a symlinked ancestor; the model reproduces it (compared above)
					if canon != base {
						rep.Count("parent-link (absolute link target):differs")
						rep.AddOracle(OracleFailure{Property: "C16", Lane: "pack-spelling", What: fmt.Sprintf("slug for spelling %q (cwd %q) through a symlinked ancestor differs from the slug for the physical path: the tree has a link with an absolute target (result %s)", in["src"], in["cwd"], out.class), Input: in, Signature: "pack.parent-link-absolute-target", ReqIdx: len(reqs)})
					} else {
						rep.Count("parent-link (absolute link target):same")
					}
					continue
				}
				if canon != base {
					rep.AddOracle(OracleFailure{Property: "C16", Lane: "pack-spelling", What: fmt.Sprintf("slug for spelling %q (cwd %q) differs from the slug for the absolute path (result %s)", in["src"], in["cwd"], out.class), Input: in, Signature: v.sig, ReqIdx: len(reqs)})
				}
				if (strings.HasPrefix(v.name, "parent-link") || v.pwd) && onlyInTreeRelLinks && baseOut.class == "ok" {
					rep.Count("c02:linked-parent spelling of a tree with in-tree relative links only")
					const c02 = "a tree of regular files, directories and relative in-tree links must pack and round-trip whatever the spelling of the source: "
					if out.class != "ok" {
						rep.AddOracle(OracleFailure{Property: "C02", Lane: "pack-spelling", What: fmt.Sprintf(c02+"Pack of %q (cwd %q: the source directory reached through a symlinked ancestor) fails (%s: %s) although the same tree packs by its physical path", in["src"], in["cwd"], out.class, strings.ReplaceAll(out.errText, arena, "<arena>")), Input: in, Signature: v.sig, ReqIdx: len(reqs)})
					} else {
						stored := map[string]bool{}
						for _, e := range out.entries {
							if e.Typ == tar.TypeSymlink {
								stored[e.Name] = true
							}
						}
						var copies []string
						for _, e := range baseOut.entries {
							if e.Typ == tar.TypeSymlink && !stored[e.Name] {
								copies = append(copies, showName(e.Name))
							}
						}
						if len(copies) > 0 {
							rep.AddOracle(OracleFailure{Property: "C02", Lane: "pack-spelling", What: fmt.Sprintf(c02+"Pack of %q (cwd %q: the source directory reached through a symlinked ancestor) stores the link(s) %s as copies of their targets (links when the tree is packed by its physical path)", in["src"], in["cwd"], strings.Join(copies, ", ")), Input: in, Signature: v.sig, ReqIdx: len(reqs)})
						}
					}
				}
			}
			// one Packer value reused for two Pack calls on different roots (options incl. a relative
			// allow-list prefix): the second result must be what a fresh Packer produces
			{
				arena2 := filepath.Join(work, fmt.Sprintf("t%05d", a), "other")
				if materialiseP(arena2, c.Nodes) == nil {
					mkP := func() *slug.Packer {
						opts := []slug.PackerOption{slug.AllowSymlinkTarget("../ext"), slug.AllowSymlinkTarget("../outside.txt")}
						if c.Ignore {
							opts = append(opts, slug.ApplyTerraformIgnore())
						}
						p, _ := slug.NewPacker(opts...)
						return p
					}
					packWith := func(p *slug.Packer, src string) string {
						var buf bytes.Buffer
						m, err := p.Pack(src, &buf)
						o := packOut{class: classify(err), meta: m}
						if err == nil {
							o.entries, o.sizes, _ = decodeSlug(buf.Bytes())
						}
						return canonPack(o)
					}
					fresh := packWith(mkP(), arena2+"/p/src")
					shared := mkP()
					packWith(shared, abs)
					second := packWith(shared, arena2+"/p/src")
					if second != fresh {
						rep.AddOracle(OracleFailure{Property: "C16", Lane: "pack-spelling", What: "a Packer that packed another directory before produces a different slug than a fresh Packer with the same options (relative allow-list prefix)", Input: c})
						// the tree itself is packed correctly by a fresh Packer: the reused one no longer
						// reproduces it (seed C02-e: a root remembered from the first call)
						rep.AddOracle(OracleFailure{Property: "C02", Lane: "pack-spelling", What: "a reused Packer does not produce the slug of the tree it is given (a fresh Packer does): " + firstDiffLine(fresh, second), Input: c})
					}
					rep.Count("shared-packer")
					// C05 through the same history: the second tree has a link into the FIRST root's
					// allow-listed directory; for the second root that target is not allow-listed, so it
					// must not be stored as a link (seed C05-d: the relative prefix frozen to the first root)
					extra := filepath.Join(arena2, "p/src/zz_into_first")
					if os.Symlink(filepath.Join(filepath.Dir(filepath.Dir(abs)), "p/ext/file"), extra) == nil {
						shared2 := mkP()
						// the first root contains an allow-listed out-of-tree link, so that the allow-list is
						// consulted (and, on defective code, frozen) during the first Pack
						first := filepath.Join(abs, "zz_first")
						os.Symlink("../ext/file", first)
						packWith(shared2, abs)
						os.Remove(first)
						var buf bytes.Buffer
						if _, err := shared2.Pack(arena2+"/p/src", &buf); err == nil {
							ents, _, _ := decodeSlug(buf.Bytes())
							for _, e := range ents {
								if e.Typ == tar.TypeSymlink && e.Name == "zz_into_first" {
									rep.AddOracle(OracleFailure{Property: "C05", Lane: "pack-spelling", What: "a link to a target outside the source directory that is not allow-listed for this root is stored as a link by a Packer that packed another root before: " + e.Link, Input: c})
								}
							}
						}
						rep.Count("shared-packer-c05")
						os.Remove(extra)
					}
					chmodAll(filepath.Dir(arena2))
					os.RemoveAll(filepath.Dir(arena2))
				}
			}
			// history (a): a Packer whose previous Pack FAILED half-way (after copying file data) must report
			// the same Meta as a fresh Packer (seed C20-d: a byte counter kept in the Packer)
			{
				hdir := filepath.Join(work, fmt.Sprintf("h%05d", a))
				os.MkdirAll(filepath.Join(hdir, "bad"), 0755)
				os.WriteFile(filepath.Join(hdir, "bad", "a.txt"), []byte("0123456789"), 0644)
				os.WriteFile(filepath.Join(hdir, "secret"), []byte("s"), 0600)
				os.Symlink("../secret", filepath.Join(hdir, "bad", "z_out")) // out of tree: Pack fails after a.txt
				reused, _ := slug.NewPacker()
				var sink bytes.Buffer
				_, ferr := reused.Pack(filepath.Join(hdir, "bad"), &sink)
				var b1, b2 bytes.Buffer
				m1, e1 := reused.Pack(abs, &b1)
				freshP, _ := slug.NewPacker()
				m2, e2 := freshP.Pack(abs, &b2)
				rep.Count("failed-then-pack")
				if ferr != nil && e1 == nil && e2 == nil {
					ents, sizes, _ := decodeSlug(b1.Bytes())
					var sum int64
					for _, sz := range sizes {
						sum += sz
					}
					_ = ents
					if m1.Size != sum {
						rep.AddOracle(OracleFailure{Property: "C20", Lane: "pack-spelling", What: fmt.Sprintf("Meta.Size = %d but the slug holds %d content bytes, for a Packer whose previous Pack failed", m1.Size, sum), Input: c})
					}
					if m1.Size != m2.Size || strings.Join(m1.Files, "\x00") != strings.Join(m2.Files, "\x00") || !bytes.Equal(b1.Bytes(), b2.Bytes()) {
						rep.AddOracle(OracleFailure{Property: "C16", Lane: "pack-spelling", What: "a Packer whose previous Pack failed produces a different result than a fresh Packer", Input: c})
					}
				}
				os.RemoveAll(hdir)
			}
			// history (a2): a Packer whose previous Pack failed INSIDE a dereferenced out-of-tree directory (seed C16-h)
			runFailedInsideDeref(rep, filepath.Join(work, fmt.Sprintf("g%05d", a)), c, a)
			// history (b): the rule file of a directory is replaced by another of the same length and the
			// same modification time between two Packs of the same path; the second slug must be what the
			// same tree gives at another path (seed C16-d: rules cached by path, size and mtime)
			{
				rdir := filepath.Join(work, fmt.Sprintf("r%05d", a))
				mk := func(root, rules string) {
					os.MkdirAll(root, 0755)
					os.WriteFile(filepath.Join(root, "a.txt"), []byte("a"), 0644)
					os.WriteFile(filepath.Join(root, "b.txt"), []byte("b"), 0644)
					os.WriteFile(filepath.Join(root, "main.tf"), []byte("m"), 0644)
					os.WriteFile(filepath.Join(root, ".terraformignore"), []byte(rules), 0644)
					t0 := time.Unix(1500000000, 0)
					for _, n := range []string{"a.txt", "b.txt", "main.tf", ".terraformignore"} {
						os.Chtimes(filepath.Join(root, n), t0, t0)
					}
					os.Chtimes(root, t0, t0)
				}
				packI := func(root string) string {
					var buf bytes.Buffer
					return canonPack(runPack(root, &buf, &buf, false, true, nil))
				}
				mk(filepath.Join(rdir, "one"), "a.txt\n")
				packI(filepath.Join(rdir, "one"))
				mk(filepath.Join(rdir, "one"), "b.txt\n") // same length, same mtime
				again := packI(filepath.Join(rdir, "one"))
				mk(filepath.Join(rdir, "two"), "b.txt\n")
				other := packI(filepath.Join(rdir, "two"))
				rep.Count("rulefile-replaced")
				if again != other {
					rep.AddOracle(OracleFailure{Property: "C16", Lane: "pack-spelling", What: "after the rule file was replaced (same size and mtime) the directory packs differently from an identical tree at another path: earlier parsing leaks into this Pack", Input: c})
				}
				os.RemoveAll(rdir)
			}
			// history (c): ONE Packer used by overlapping Pack calls on two directories with different rule
			// files; each slug must be what a fresh Packer gives for that directory (seed C16-e: the parsed
			// rules kept in the Packer)
			if a%4 == 0 || isReplay {
				sdir := filepath.Join(work, fmt.Sprintf("c%05d", a))
				mk := func(root, rules string) {
					os.MkdirAll(filepath.Join(root, "sub"), 0755)
					for i := 0; i < 12; i++ {
						os.WriteFile(filepath.Join(root, fmt.Sprintf("a%02d.txt", i)), []byte("a"), 0644)
						os.WriteFile(filepath.Join(root, fmt.Sprintf("b%02d.log", i)), []byte("b"), 0644)
						os.WriteFile(filepath.Join(root, "sub", fmt.Sprintf("c%02d.tmp", i)), []byte("c"), 0644)
					}
					os.WriteFile(filepath.Join(root, ".terraformignore"), []byte(rules), 0644)
				}
				mk(filepath.Join(sdir, "one"), "*.log\n")
				mk(filepath.Join(sdir, "two"), "*.tmp\n*.txt\n")
				packP := func(p *slug.Packer, root string, slow bool) string {
					var buf bytes.Buffer
					var w io.Writer = &buf
					if slow {
						w = &slowWriter{w: &buf}
					}
					m, err := p.Pack(root, w)
					o := packOut{class: classify(err), meta: m}
					if err == nil {
						o.entries, o.sizes, _ = decodeSlug(buf.Bytes())
					}
					return canonPack(o)
				}
				newP := func() *slug.Packer { p, _ := slug.NewPacker(slug.ApplyTerraformIgnore()); return p }
				want := map[string]string{"one": packP(newP(), filepath.Join(sdir, "one"), false), "two": packP(newP(), filepath.Join(sdir, "two"), false)}
				shared := newP()
				var cwg sync.WaitGroup
				var cmu sync.Mutex
				bad := ""
				for g := 0; g < 8; g++ {
					cwg.Add(1)
					go func(g int) {
						defer cwg.Done()
						name := []string{"one", "two"}[g%2]
						if got := packP(shared, filepath.Join(sdir, name), true); got != want[name] {
							cmu.Lock()
							bad = name
							cmu.Unlock()
						}
					}(g)
				}
				cwg.Wait()
				rep.Count("shared-packer-concurrent")
				if bad != "" {
					rep.AddOracle(OracleFailure{Property: "C16", Lane: "pack-spelling", What: "one Packer used by overlapping Pack calls on two directories with different rule files: the slug of directory '" + bad + "' differs from what a fresh Packer produces", Input: c})
				}
				os.RemoveAll(sdir)
			}
			// history (d): generated histories of Pack calls over 1-3 directories whose rule files share
			// pattern texts, are replaced in place, deleted and re-created; the last Pack against the same
			// Pack in a fresh process (seeds C03-f, C16-f: state kept at package level)
			// (run before the spellings, judged here: the fresh process runs meanwhile)
			for _, fin := range finishHistories {
				fin()
			}
			// overlapping calls of the package-level Pack with different dereference arguments (seed C05-f)
			if a%4 == 0 || isReplay {
				runOverlappingLegacyPack(rep, filepath.Join(work, fmt.Sprintf("o%05d", a)), map[string]interface{}{"case": c})
				rep.Case(fmt.Sprintf("%d|overlapping-legacy-pack", a), true, map[string]interface{}{"variant": "overlapping-legacy-pack"})
				rep.Count("variant:overlapping-legacy-pack")
			}
			// concurrent Pack calls of the same tree
			var wg sync.WaitGroup
			results := make([]string, 4)
			for k := 0; k < 4; k++ {
				wg.Add(1)
				go func(k int) {
					defer wg.Done()
					var buf bytes.Buffer
					results[k] = canonPack(runPack(abs, &buf, &buf, c.Deref, c.Ignore, nil))
				}(k)
			}
			wg.Wait()
			for k := range results {
				if results[k] != base {
					rep.AddOracle(OracleFailure{Property: "C16", Lane: "pack-spelling", What: "slug produced while other Pack calls were running differs from the sequential one", Input: c})
				}
			}
			rep.Count("concurrent-groups")
			filepath.Walk(arena, func(p string, info os.FileInfo, err error) error {
				if err == nil && info.IsDir() {
					os.Chmod(p, 0755)
				}
				return nil
			})
			os.RemoveAll(arena)
		}
		// exact replay (-case): the recorded tree (an oracle failure records the case itself or
		// {"case": ..., "variant": ...}; a difference records the latter) goes first through all
		// spellings, histories and the concurrent group
		{
			var wrapped struct {
				Case *PCase `json:"case"`
			}
			var hw struct {
				History *HCase `json:"history"`
			}
			var rc *PCase
			if loadReplayInput(cfg, "pack-spelling", &hw) && hw.History != nil {
				// a recorded history: run alone, first (its pattern texts have not been met in this process)
				if why := unsafeHCase(hw.History); why != "" {
					rep.ReplayNote("refused: " + why)
				} else {
					rep.BeginReplay()
					runHistory(rep, filepath.Join(work, fmt.Sprintf("y%05d_r", cfg.N)), hw.History)
					rep.EndReplay()
				}
			} else if loadReplayInput(cfg, "pack-spelling", &wrapped) && wrapped.Case != nil {
				rc = wrapped.Case
			} else {
				var plain PCase
				if loadReplayInput(cfg, "pack-spelling", &plain) && len(plain.Nodes) > 0 {
					rc = &plain
				}
			}
			if hw.History != nil {
				// done above
			} else if rc == nil {
				replayMissing(cfg, rep, "pack-spelling")
			} else if why := unsafeReplayedPCase(rc); why != "" {
				rep.ReplayNote("refused: " + why)
			} else {
				rc.Allow = nil
				have := map[string]bool{}
				for _, n := range rc.Nodes {
					have[n.Path] = true
				}
				for _, l := range rootLinks {
					if !have[l.Path] {
						rc.Nodes = append(rc.Nodes, l)
					}
				}
				s0 := len(reqs)
				rep.BeginReplay()
				runOne(cfg.N, rc, true, nil)
				rep.EndReplay(reqs[s0:]...)
			}
		}
		for a := 0; a < cfg.N; a++ {
			c := genPCase(r)
			c.Allow = nil
			c.Nodes = append(c.Nodes, rootLinks...)
			hs := []*HCase{genHCase(r)}
			runOne(a, c, false, hs)
		}
		rep.Compare(cfg.Driver, reqs, impl, human)
	}
}

// runFailedInsideDeref (history a2): one Packer made with DereferenceSymlinks() packs a tree whose link
// 'lib' leads to a directory outside it. The first Pack FAILS while the walk is inside that directory:
// (1) the writer reports a fault while a large incompressible file of that directory is being copied
// (two fault offsets), (2) the directory holds a dangling link. Afterwards the same Packer packs the
// unchanged tree with a healthy writer (1), the repaired tree and another tree that links to the same
// directory (2); each result must be what a fresh Packer gives (seed C16-h: the stack of directories
// being archived in place of a link kept in the Packer and unwound on the success path only, so that
// every later visit of that directory is taken for a symlink cycle).
func runFailedInsideDeref(rep *Report, hdir string, c *PCase, a int) {
	defer os.RemoveAll(hdir)
	put := func(rel, data string, perm os.FileMode) {
		p := filepath.Join(hdir, rel)
		os.MkdirAll(filepath.Dir(p), 0755)
		os.WriteFile(p, []byte(data), perm)
	}
	br := NewRng(0xC16A)
	big := make([]byte, 128<<10)
	for i := 0; i+8 <= len(big); i += 8 {
		v := br.Next()
		for k := 0; k < 8; k++ {
			big[i+k] = byte(v >> (8 * k))
		}
	}
	put("config/a_main.tf", "main", 0644)
	put("config/z_outputs.tf", "outputs", 0644)
	os.Symlink("../shared", filepath.Join(hdir, "config", "lib"))
	put("shared/blob.bin", string(big), 0644)
	put("shared/mod.tf", "mod", 0644)
	put("other/main.tf", "other", 0644)
	os.Symlink("../shared", filepath.Join(hdir, "other", "vendor"))
	// variant (2): the outside directory holds a dangling link
	put("config2/a_main.tf", "main", 0644)
	os.Symlink("../shared2", filepath.Join(hdir, "config2", "lib"))
	put("shared2/mod.tf", "mod", 0644)
	os.Symlink("generated.tf", filepath.Join(hdir, "shared2", "zz_generated"))
	put("other2/main.tf", "other", 0644)
	os.Symlink("../shared2", filepath.Join(hdir, "other2", "vendor"))

	newP := func() *slug.Packer { p, _ := slug.NewPacker(slug.DereferenceSymlinks()); return p }
	// class, error text (scratch path replaced) and one line per entry
	listing := func(err error, raw []byte) string {
		if err != nil {
			return classify(err) + ": " + strings.ReplaceAll(err.Error(), hdir, "<dir>")
		}
		ents, sizes, derr := decodeSlug(raw)
		lines := []string{"ok"}
		if derr != nil {
			lines[0] = "ok-but-unreadable"
		}
		for k, e := range ents {
			h := sha256.Sum256([]byte(e.Body))
			lines = append(lines, fmt.Sprintf("%q type=%c mode=%o size=%d link=%q sha256=%s", e.Name, e.Typ, e.Mode, sizes[k], e.Link, hex.EncodeToString(h[:8])))
		}
		return strings.Join(lines, "\n")
	}
	type result struct {
		listing string
		err     error
		meta    *slug.Meta
	}
	pack := func(p *slug.Packer, rel string, w io.Writer) (res result) {
		done := make(chan result, 1)
		go func() {
			var r result
			defer func() {
				if x := recover(); x != nil {
					r.err = fmt.Errorf("panic: %v", x)
					r.listing = "panic"
				}
				done <- r
			}()
			var buf bytes.Buffer
			out := w
			if out == nil {
				out = &buf
			}
			r.meta, r.err = p.Pack(filepath.Join(hdir, rel), out)
			r.listing = listing(r.err, buf.Bytes())
		}()
		select {
		case res = <-done:
		case <-time.After(caseTimeout):
			res = result{listing: "timeout", err: fmt.Errorf("timeout")}
		}
		return res
	}
	first := func(l string) string { return strings.SplitN(l, "\n", 2)[0] }
	judge := func(how, what string, got, want result) {
		kind := "writer-fault"
		if strings.Contains(how, "dangling") {
			kind = "dangling-link"
		}
		if got.listing == want.listing {
			rep.Count("failed-inside-deref:" + kind + ":same as a fresh Packer")
			return
		}
		rep.Count("failed-inside-deref:" + kind + ":differs")
		in := map[string]interface{}{"case": c, "step": "failed-inside-dereferenced-dir", "first_pack": how, "then": what}
		rep.AddOracle(OracleFailure{Property: "C16", Lane: "pack-spelling", What: fmt.Sprintf("output depends on what earlier Pack happened on the Packer: after a Pack that failed inside a dereferenced out-of-tree directory (%s), the same Packer (DereferenceSymlinks) gives for %s: %q; a fresh Packer gives %q (%s)", how, what, first(got.listing), first(want.listing), firstDiffLine(got.listing, want.listing)), Input: in})
	}
	// (1) writer fault while shared/blob.bin is copied
	want := pack(newP(), "config", nil)
	wantOther := pack(newP(), "other", nil)
	if want.err != nil {
		rep.Count("failed-inside-deref:reference Pack fails")
		return
	}
	for _, k := range []int{4 << 10, 2048 + (a*7919)%(100<<10)} {
		reused := newP()
		f := pack(reused, "config", &failWriter{n: k})
		if f.err == nil {
			rep.Count("failed-inside-deref:writer-fault:first Pack did not fail")
			rep.AddOracle(OracleFailure{Property: "C12", Lane: "pack-spelling", What: fmt.Sprintf("Pack reported success although the writer failed after %d bytes", k), Input: map[string]interface{}{"case": c, "step": "failed-inside-dereferenced-dir", "fail_after": k}})
			continue
		}
		how := fmt.Sprintf("the writer failed after %d bytes, while lib/blob.bin = ../shared/blob.bin was being copied", k)
		judge(how, "the unchanged tree config/{a_main.tf, lib -> ../shared, z_outputs.tf} with a healthy writer", pack(reused, "config", nil), want)
		judge(how, "another tree other/{main.tf, vendor -> ../shared} that links to the same directory", pack(reused, "other", nil), wantOther)
	}
	// (2) a dangling link inside the dereferenced directory; then the missing file appears
	{
		reused := newP()
		f := pack(reused, "config2", nil)
		if f.err == nil {
			rep.Count("failed-inside-deref:dangling-link:first Pack did not fail")
			return
		}
		put("shared2/generated.tf", "generated", 0644)
		how := "the directory held the dangling link lib/zz_generated -> generated.tf; the missing file was created afterwards"
		judge(how, "the repaired tree config2/{a_main.tf, lib -> ../shared2}", pack(reused, "config2", nil), pack(newP(), "config2", nil))
		judge(how, "another tree other2/{main.tf, vendor -> ../shared2} that links to the same directory", pack(reused, "other2", nil), pack(newP(), "other2", nil))
	}
}

// ---------- pack-spelling: histories judged against a FRESH PROCESS (C16, C03) ----------
//
// The history steps above compare a reused Packer with a fresh Packer of the same process; state kept
// at package level (seeds C03-f: parsed rules remembered per source path; C16-f: compiled rules
// remembered per pattern text together with the negationsAfter flag of the rule file that compiled
// them first) poisons both sides of such a comparison. Here the last Pack of a generated history is
// repeated by a child process (the vh binary, lane "pack-child") on the directory as it is on disk,
// and the two entry listings must be equal.

type HStep struct {
	Dir int `json:"dir"` // which of the directories h0, h1, h2
	// rule file of that directory before the call: Rules != nil: written (created or replaced in
	// place); Delete: removed; neither: left as it is
	Rules  *string `json:"rules"`
	Delete bool    `json:"delete,omitempty"`
	// packer: NewPacker(ApplyTerraformIgnore) | legacy: slug.Pack | plain: NewPacker() (no ignore
	// processing) | parse: no Pack, the rule text is parsed and matched against the tree's paths
	Mode  string `json:"mode"`
	Deref bool   `json:"deref,omitempty"`
}

type HCase struct {
	Tree  []PNode `json:"tree"` // materialised in each directory (paths relative to it)
	Dirs  int     `json:"dirs"`
	Steps []HStep `json:"steps"` // the last one is a Pack; it is what the fresh process repeats
}

// what the child process is given: the directory is already on disk
type packChildReq struct {
	Src   string `json:"src"`
	Mode  string `json:"mode"`
	Deref bool   `json:"deref"`
}

// packListing: class, then one line per entry: name, type, mode, size, link target, content hash
func packListing(src, mode string, deref bool) string {
	var buf bytes.Buffer
	var err error
	switch mode {
	case "legacy":
		_, err = slug.Pack(src, &buf, deref)
	default:
		var opts []slug.PackerOption
		if deref {
			opts = append(opts, slug.DereferenceSymlinks())
		}
		if mode != "plain" {
			opts = append(opts, slug.ApplyTerraformIgnore())
		}
		var p *slug.Packer
		p, err = slug.NewPacker(opts...)
		if err == nil {
			_, err = p.Pack(src, &buf)
		}
	}
	cls := classify(err)
	if cls != "ok" {
		return cls
	}
	ents, sizes, derr := decodeSlug(buf.Bytes())
	lines := []string{cls}
	if derr != nil {
		lines[0] = "ok-but-unreadable"
	}
	for k, e := range ents {
		h := sha256.Sum256([]byte(e.Body))
		lines = append(lines, fmt.Sprintf("%q type=%c mode=%o size=%d link=%q sha256=%s", e.Name, e.Typ, e.Mode, sizes[k], e.Link, hex.EncodeToString(h[:8])))
	}
	return strings.Join(lines, "\n")
}

func listingNames(l string) string {
	var names []string
	for _, line := range strings.Split(l, "\n")[1:] {
		if i := strings.Index(line, " type="); i > 0 {
			names = append(names, line[:i])
		}
	}
	sort.Strings(names)
	return strings.Join(names, ",")
}

func init() {
	lanes["pack-child"] = func(cfg *Config, rep *Report) {
		var q packChildReq
		b, err := os.ReadFile(cfg.Replay)
		if err != nil || json.Unmarshal(b, &q) != nil || q.Src == "" {
			os.Exit(3)
		}
		syscall.Umask(022)
		os.Stdout.WriteString(packListing(q.Src, q.Mode, q.Deref))
		os.Exit(0)
	}
}

// packInFreshProcess repeats a Pack call in a child process and returns its listing.
func packInFreshProcess(scratch string, q packChildReq) (string, error) {
	self, err := os.Executable()
	if err != nil {
		return "", err
	}
	b, _ := json.Marshal(q)
	cf := filepath.Join(scratch, "child-case.json")
	if err := os.WriteFile(cf, b, 0644); err != nil {
		return "", err
	}
	defer os.Remove(cf)
	ctx, cancel := context.WithTimeout(context.Background(), 30*time.Second)
	defer cancel()
	cmd := exec.CommandContext(ctx, self, "-lane", "pack-child", "-replay", cf, "-work", scratch)
	var stdout, stderr bytes.Buffer
	cmd.Stdout = &stdout
	cmd.Stderr = &stderr
	if err := cmd.Run(); err != nil {
		return "", fmt.Errorf("pack-child: %v: %s", err, strings.TrimSpace(stderr.String()))
	}
	return stdout.String(), nil
}

func genHCase(r *Rng) *HCase {
	// names and pattern texts of their own for every history: a process-wide cache keyed by pattern
	// text is "first writer wins", so pattern texts met earlier in this process would hide it
	tok := fmt.Sprintf("%05x", r.Next()&0xfffff)
	D, L := "zz"+tok, "l"+tok
	h := &HCase{Dirs: []int{1, 1, 2, 2, 2, 3}[r.Intn(6)], Tree: []PNode{
		{Path: "main.tf", Kind: "f", Perm: 0644, Data: "m"},
		{Path: D, Kind: "d", Perm: 0755},
		{Path: D + "/keep.txt", Kind: "f", Perm: 0644, Data: "keep"},
		{Path: D + "/other.txt", Kind: "f", Perm: 0600, Data: "other"},
		{Path: D + "/deep", Kind: "d", Perm: 0750},
		{Path: D + "/deep/x.txt", Kind: "f", Perm: 0644, Data: "x"},
		{Path: "debug." + L, Kind: "f", Perm: 0644, Data: "log"},
		{Path: "mod", Kind: "d", Perm: 0755},
		{Path: "mod/net.tf", Kind: "f", Perm: 0755, Data: "net"},
		{Path: "creds", Kind: "d", Perm: 0700},
		{Path: "creds/prod.pem", Kind: "f", Perm: 0600, Data: "pem"},
		{Path: "creds/readme.md", Kind: "f", Perm: 0644, Data: "readme"},
	}}
	if r.Chance(40) {
		h.Tree = append(h.Tree, PNode{Path: D + "/up", Kind: "l", Data: "../mod/net.tf"})
	}
	if r.Chance(12) {
		h.Tree = append(h.Tree, PNode{Path: "zout", Kind: "l", Data: "../hext/file"}) // out of the tree (decoy inside the arena)
	}
	// rule files that share pattern texts with and without a later negation
	bases := []string{D + "/\n", "*." + L + "\n" + D + "/\n", "creds/\n", D + "/\ncreds/\n", "*." + L + "\n", "creds/*.pem\n", "mod/\n" + D + "/deep/\n"}
	tails := []string{"!" + D + "/keep.txt\n", "!" + D + "/deep/x.txt\n*." + L + "\n", "!creds/readme.md\n", "!mod/net.tf\n", "!" + D + "/deep/\n"}
	pool := func() string {
		s := r.Pick(bases)
		if r.Chance(45) {
			s += r.Pick(tails)
		}
		if r.Chance(8) {
			s = r.Pick([]string{"", "# nothing\n", "\n"})
		}
		return s
	}
	packMode := func(last bool) string {
		switch x := r.Intn(100); {
		case x < 55:
			return "packer"
		case x < 80:
			return "legacy"
		case x < 90 || last:
			return "plain"
		default:
			return "parse"
		}
	}
	str := func(s string) *string { return &s }
	switch shape := r.Intn(100); {
	case shape < 40:
		// the same pattern lines first without, later with a negation after them (or the other way
		// round), in the same or in another directory
		bi := r.Intn(4)
		base := bases[bi]
		// a negation that brings back something below a directory the base excludes
		tail := r.Pick([]string{tails[0], tails[1], tails[4]})
		if bi == 2 || (bi == 3 && r.Bool()) {
			tail = tails[2]
		}
		with := base + tail
		first, second := base, with
		if r.Chance(25) {
			first, second = with, base
		}
		d0 := r.Intn(h.Dirs)
		h.Steps = append(h.Steps, HStep{Dir: d0, Rules: str(first), Mode: r.Pick([]string{"packer", "packer", "legacy", "parse"}), Deref: r.Chance(20)})
		if r.Chance(40) {
			h.Steps = append(h.Steps, HStep{Dir: r.Intn(h.Dirs), Rules: str(pool()), Mode: packMode(false)})
		}
		h.Steps = append(h.Steps, HStep{Dir: r.Intn(h.Dirs), Rules: str(second), Mode: r.Pick([]string{"packer", "packer", "legacy"}), Deref: r.Chance(20)})
	case shape < 75:
		// one directory packed, its rule file replaced in place / deleted / deleted and re-created,
		// packed again by the same path
		d0 := r.Intn(h.Dirs)
		h.Steps = append(h.Steps, HStep{Dir: d0, Rules: str(pool()), Mode: r.Pick([]string{"packer", "legacy"}), Deref: r.Chance(20)})
		if r.Chance(40) {
			h.Steps = append(h.Steps, HStep{Dir: r.Intn(h.Dirs), Rules: str(pool()), Mode: packMode(false)})
		}
		last := HStep{Dir: d0, Mode: r.Pick([]string{"packer", "packer", "legacy"}), Deref: r.Chance(20)}
		switch x := r.Intn(100); {
		case x < 55:
			last.Rules = str(pool())
		case x < 80:
			last.Delete = true
		default:
			h.Steps = append(h.Steps, HStep{Dir: d0, Delete: true, Mode: packMode(false)})
			last.Rules = str(pool())
		}
		h.Steps = append(h.Steps, last)
	default:
		n := 2 + r.Intn(4)
		for i := 0; i < n; i++ {
			st := HStep{Dir: r.Intn(h.Dirs), Mode: packMode(i == n-1), Deref: r.Chance(25)}
			if st.Mode == "parse" && i == n-1 {
				st.Mode = "packer"
			}
			switch x := r.Intn(100); {
			case x < 70:
				st.Rules = str(pool())
			case x < 82:
				st.Delete = true
			}
			h.Steps = append(h.Steps, st)
		}
	}
	return h
}

// unsafeHCase: "" if the (replayed) history can be run inside a scratch arena.
func unsafeHCase(h *HCase) string {
	if h == nil || len(h.Tree) == 0 || len(h.Steps) == 0 || len(h.Steps) > 40 || h.Dirs < 1 || h.Dirs > 3 {
		return "the recorded input is not a history case"
	}
	for _, st := range h.Steps {
		if st.Dir < 0 || st.Dir >= h.Dirs {
			return "history step names a directory that does not exist"
		}
		switch st.Mode {
		case "packer", "legacy", "plain", "parse":
		default:
			return "history step with an unknown mode"
		}
	}
	if m := h.Steps[len(h.Steps)-1].Mode; m == "parse" {
		return "the last history step is not a Pack"
	}
	for _, n := range h.Tree {
		if n.Path == ".terraformignore" || strings.ContainsAny(n.Data, "@") {
			return "history tree with a rule file or a placeholder of its own"
		}
		if n.Kind == "l" && (strings.HasPrefix(n.Data, "/") || countDotDot(n.Data) > 1+strings.Count(n.Path, "/")) {
			return "history tree link " + n.Path + " leaves the arena"
		}
	}
	return unsafePNodes(h.Tree, nil)
}

// runHistory runs one history in this process and its last Pack again in a fresh process.
func runHistory(rep *Report, arena string, h *HCase) {
	startHistory(rep, arena, h)()
}

// startHistory runs the history in this process and starts the fresh process; the function it returns
// waits for that process, compares and removes the arena (so that the child's run time overlaps with
// whatever the caller does in between).
func startHistory(rep *Report, arena string, h *HCase) (finish func()) {
	started := false
	defer func() {
		if !started {
			os.RemoveAll(arena)
		}
	}()
	finish = func() {}
	os.MkdirAll(filepath.Join(arena, "hext"), 0755)
	os.WriteFile(filepath.Join(arena, "hext", "file"), []byte("outside"), 0600)
	dirs := make([]string, h.Dirs)
	usedDir := map[int]bool{}
	for _, st := range h.Steps {
		usedDir[st.Dir] = true
	}
	for d := range dirs {
		dirs[d] = filepath.Join(arena, fmt.Sprintf("h%d", d))
		if !usedDir[d] {
			continue
		}
		// modes as given, times as they come: both sides of the comparison read the same disk state
		os.MkdirAll(dirs[d], 0755)
		for _, n := range h.Tree {
			p := filepath.Join(dirs[d], n.Path)
			var err error
			switch n.Kind {
			case "d":
				err = os.MkdirAll(p, os.FileMode(n.Perm|0700))
			case "f":
				err = os.WriteFile(p, []byte(n.Data), os.FileMode(n.Perm))
			case "l":
				err = os.Symlink(n.Data, p)
			}
			if err != nil {
				rep.Count("history:skipped-materialise")
				return finish
			}
		}
	}
	var paths []string
	for _, n := range h.Tree {
		paths = append(paths, n.Path)
		if n.Kind == "d" {
			paths = append(paths, n.Path+"/")
		}
	}
	in := map[string]interface{}{"history": h}
	var last string
	for _, st := range h.Steps {
		rf := filepath.Join(dirs[st.Dir], ".terraformignore")
		switch {
		case st.Rules != nil:
			os.WriteFile(rf, []byte(*st.Rules), 0644)
		case st.Delete:
			os.Remove(rf)
		}
		if st.Mode == "parse" {
			b, _ := os.ReadFile(rf)
			if rs, err, _ := parseSafe(string(b)); err == nil && rs != nil {
				for _, p := range paths {
					excludesSafe(rs, p)
				}
			}
			continue
		}
		done := make(chan string, 1)
		go func(src, mode string, deref bool) {
			defer func() {
				if x := recover(); x != nil {
					done <- "panic"
				}
			}()
			done <- packListing(src, mode, deref)
		}(dirs[st.Dir], st.Mode, st.Deref)
		select {
		case last = <-done:
		case <-time.After(caseTimeout):
			rep.AddOracle(OracleFailure{Property: "C19", Lane: "pack-spelling", What: "Pack did not return within 20 s in a history of Pack calls", Input: in})
			return finish
		}
	}
	fin := h.Steps[len(h.Steps)-1]
	type childOut struct {
		listing string
		err     error
	}
	ch := make(chan childOut, 1)
	go func() {
		l, err := packInFreshProcess(arena, packChildReq{Src: dirs[fin.Dir], Mode: fin.Mode, Deref: fin.Deref})
		ch <- childOut{l, err}
	}()
	started = true
	return func() {
		defer os.RemoveAll(arena)
		co := <-ch
		judgeHistory(rep, h, in, last, co.listing, co.err)
	}
}

func judgeHistory(rep *Report, h *HCase, in map[string]interface{}, last, fresh string, err error) {
	fin := h.Steps[len(h.Steps)-1]
	if err != nil {
		rep.mu.Lock()
		rep.Broken = append(rep.Broken, "fresh-process Pack: "+err.Error())
		rep.mu.Unlock()
		return
	}
	rep.Count("history:fresh-process")
	rep.Count("history-result:" + strings.SplitN(fresh, "\n", 2)[0])
	if last == fresh {
		return
	}
	rep.AddOracle(OracleFailure{Property: "C16", Lane: "pack-spelling", What: fmt.Sprintf("output depends on what earlier Pack or ignore-file parsing happened in the process: the last Pack of the history (directory h%d, %s) differs from the same Pack of the same directory in a fresh process: %s", fin.Dir, fin.Mode, firstDiffLine(last, fresh)), Input: in})
	if fin.Mode != "plain" && listingNames(last) != listingNames(fresh) {
		rep.AddOracle(OracleFailure{Property: "C03", Lane: "pack-spelling", What: fmt.Sprintf("what ships is not decided by the directory's rule file alone: after the history the slug of h%d holds [%s], in a fresh process [%s]", fin.Dir, listingNames(last), listingNames(fresh)), Input: in})
	}
}

// ---------- pack-spelling: overlapping calls of the package-level Pack (C05, C16) ----------

// gateWriter blocks on its first Write until released.
type gateWriter struct {
	buf     bytes.Buffer
	once    sync.Once
	entered chan struct{}
	release chan struct{}
}

func (g *gateWriter) Write(b []byte) (int, error) {
	g.once.Do(func() {
		close(g.entered)
		<-g.release
	})
	return g.buf.Write(b)
}

// runOverlappingLegacyPack: slug.Pack(A, w, derefA) is held at its first write (after it has started,
// before its walk reaches A's out-of-tree link) while slug.Pack(B, _, !derefA) runs to completion.
// Each call must behave as it does alone (seed C05-f: one package-level Packer behind slug.Pack whose
// dereference flag every call overwrites).
func runOverlappingLegacyPack(rep *Report, arena string, input map[string]interface{}) {
	defer os.RemoveAll(arena)
	const secret = "TOP-SECRET-OUTSIDE-CONTENT"
	A, B := filepath.Join(arena, "projA"), filepath.Join(arena, "projB")
	for _, d := range []string{A, B, filepath.Join(arena, "outside")} {
		os.MkdirAll(d, 0755)
	}
	os.WriteFile(filepath.Join(arena, "outside", "secret.txt"), []byte(secret), 0600)
	os.WriteFile(filepath.Join(A, "a_first.txt"), []byte("inside A"), 0644)
	// incompressible, so that compressed data also reaches the writer before the walk meets the link
	br := NewRng(0xC05F)
	big := make([]byte, 64<<10)
	for i := 0; i+8 <= len(big); i += 8 {
		v := br.Next()
		for k := 0; k < 8; k++ {
			big[i+k] = byte(v >> (8 * k))
		}
	}
	os.WriteFile(filepath.Join(A, "b_big.bin"), big, 0644)
	os.Symlink("../outside/secret.txt", filepath.Join(A, "z_link"))
	os.WriteFile(filepath.Join(B, "b.txt"), []byte("inside B"), 0644)
	os.Symlink("b.txt", filepath.Join(B, "in_link"))
	type res struct {
		class string
		canon string
		leak  bool
	}
	finish := func(err error, raw []byte) res {
		o := packOut{class: classify(err)}
		ents, sizes, _ := decodeSlug(raw) // as far as it can be read
		leak := false
		for _, e := range ents {
			if strings.Contains(e.Body, secret) {
				leak = true
			}
		}
		canon := o.class
		if err == nil {
			var ls []string
			for k, e := range ents {
				h := sha256.Sum256([]byte(e.Body))
				ls = append(ls, fmt.Sprintf("%q type=%c mode=%o size=%d link=%q sha256=%s", e.Name, e.Typ, e.Mode, sizes[k], e.Link, hex.EncodeToString(h[:8])))
			}
			canon += "\n" + strings.Join(ls, "\n")
		}
		return res{o.class, canon, leak}
	}
	for _, derefA := range []bool{false, true} {
		var sb bytes.Buffer
		_, serr := slug.Pack(A, &sb, derefA)
		alone := finish(serr, sb.Bytes())
		gw := &gateWriter{entered: make(chan struct{}), release: make(chan struct{})}
		done := make(chan error, 1)
		go func() {
			defer func() {
				if x := recover(); x != nil {
					done <- fmt.Errorf("panic: %v", x)
				}
			}()
			_, err := slug.Pack(A, gw, derefA)
			done <- err
		}()
		var oerr error
		finished := false
		select {
		case <-gw.entered:
		case oerr = <-done:
			finished = true // nothing was written before it returned: no overlap to speak of
		case <-time.After(caseTimeout):
			close(gw.release)
			rep.AddOracle(OracleFailure{Property: "C19", Lane: "pack-spelling", What: "slug.Pack wrote nothing and did not return within 10 s", Input: input})
			return
		}
		if !finished {
			slug.Pack(B, io.Discard, !derefA)
			close(gw.release)
			select {
			case oerr = <-done:
			case <-time.After(caseTimeout):
				rep.AddOracle(OracleFailure{Property: "C19", Lane: "pack-spelling", What: "slug.Pack did not return within 20 s after its writer was released", Input: input})
				return
			}
		} else {
			rep.Count("overlap:not-entered")
		}
		got := finish(oerr, gw.buf.Bytes())
		rep.Count(fmt.Sprintf("overlap:deref=%v:%s", derefA, got.class))
		in := map[string]interface{}{"step": "overlapping-legacy-pack", "blocked_call": map[string]interface{}{"src": "projA (a_first.txt, b_big.bin, z_link -> ../outside/secret.txt)", "dereference": derefA},
			"other_call": map[string]interface{}{"src": "projB (b.txt, in_link -> b.txt)", "dereference": !derefA}}
		for k, v := range input {
			in[k] = v
		}
		if got.canon != alone.canon {
			rep.AddOracle(OracleFailure{Property: "C16", Lane: "pack-spelling", What: fmt.Sprintf("result depends on other Pack calls running at the same time: slug.Pack(projA, w, dereference=%v) gives %q alone and %q when slug.Pack(projB, _, dereference=%v) runs while it is under way: %s", derefA, alone.class, got.class, !derefA, firstDiffLine(alone.canon, got.canon)), Input: in})
		}
		if !derefA && (got.class != "illegal" || got.leak) {
			rep.AddOracle(OracleFailure{Property: "C05", Lane: "pack-spelling", What: fmt.Sprintf("out-of-tree link content leaked / no illegal-slug error without dereferencing: slug.Pack(projA, w, false) overlapped by slug.Pack(projB, _, true) returned %q (outside file's content in the output: %v)", got.class, got.leak), Input: in})
		}
		if !derefA && alone.leak {
			rep.AddOracle(OracleFailure{Property: "C05", Lane: "pack-spelling", What: "slug.Pack(projA, w, false) wrote the content of the out-of-tree file", Input: in})
		}
	}
}
