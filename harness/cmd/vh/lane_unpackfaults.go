package main

import (
	"archive/tar"
	"bytes"
	"compress/gzip"
	"errors"
	"fmt"
	"io"
	"os"
	"path/filepath"
	"sync"
	"syscall"
	"time"
)

// unpack-faults lane (C12, C01): the input fails at every position.
//  (a) the *tar* stream is cut at offset k before compression: the failure then falls into the
//      header of entry i or after n bytes of its body, which is the model's Fault.header i /
//      Fault.body i n — compared with the model (full filesystem dump);
//  (b) the *gzip* stream fails (error or clean truncation) at offset k — judged by the oracle only:
//      success implies the destination equals that of the fault-free run.

type tarLayout struct {
	data      []byte
	hdrStart  []int // offset where the header blocks of entry i start
	bodyStart []int
	bodyEnd   []int
}

func buildTarLayout(es []UEntry) *tarLayout {
	var buf bytes.Buffer
	tw := tar.NewWriter(&buf)
	l := &tarLayout{}
	for _, e := range es {
		tw.Flush()
		h := tarHeaderOf(e) // the unpack lane's header (format and recorded times of the entry included)
		l.hdrStart = append(l.hdrStart, buf.Len())
		if err := tw.WriteHeader(h); err != nil {
			return nil
		}
		l.bodyStart = append(l.bodyStart, buf.Len())
		if h.Size > 0 {
			tw.Write([]byte(e.Body))
		}
		l.bodyEnd = append(l.bodyEnd, buf.Len())
	}
	tw.Close()
	l.data = buf.Bytes()
	return l
}

// faultFor maps a cut of the tar stream at offset k to the model's fault
func (l *tarLayout) faultFor(k int, es []UEntry) string {
	for i := range es {
		if k < l.bodyStart[i] {
			return fmt.Sprintf("h%d", i) // inside (or before) the header of entry i
		}
		if k < l.bodyEnd[i] {
			return fmt.Sprintf("b%d.%d", i, k-l.bodyStart[i])
		}
		// padding after the body belongs to the entry; a cut there surfaces at the next header
	}
	// after the last body: padding + end-of-archive blocks
	lastEnd := 0
	if len(es) > 0 {
		lastEnd = l.bodyEnd[len(es)-1]
	}
	padded := (lastEnd + 511) / 512 * 512
	if k < padded {
		return fmt.Sprintf("h%d", len(es))
	}
	if k == padded {
		return "none" // a clean end without trailer blocks is a clean EOF for archive/tar
	}
	if k < padded+1024 {
		return fmt.Sprintf("h%d", len(es))
	}
	return "none"
}

func gz(data []byte) []byte {
	var b bytes.Buffer
	w, _ := gzip.NewWriterLevel(&b, gzip.BestSpeed)
	w.Write(data)
	w.Close()
	return b.Bytes()
}

func init() {
	lanes["unpack-faults"] = func(cfg *Config, rep *Report) {
		rep.Rule = "small archives (1..4 entries: files with bodies of 0..700 bytes, directories, links, duplicates) x every cut position of the tar stream at a stride (quick) or every byte (thorough: exhaustive over positions) -> model fault = header i / body i after n bytes; plus read errors and clean truncations of the gzip stream at a stride; non-trivial = the cut falls inside an entry; distinct by (archive, position, kind)"
		r := NewRng(cfg.Seed)
		work, err := filepath.EvalSymlinks(cfg.Work)
		if err != nil {
			rep.Broken = append(rep.Broken, "work dir: "+err.Error())
			return
		}
		// every cut position is compared with the filesystem model, which has umask 022 built in: this lane
		// runs under 022 whatever -umask says (the unpack lane is the one that honours it)
		syscall.Umask(022)
		narch := cfg.N
		stride := 53
		if cfg.Tier == "thorough" {
			stride = 1
		}
		type job struct {
			c      *UCase
			es     []UEntry
			data   []byte // gzip stream handed to Unpack
			fault  string // model fault ("" = oracle only)
			failAt int    // gzip-level failure offset (-1 none)
			hard   bool   // gzip-level: error (true) or clean EOF (false)
			full   []UEntry // the complete archive
		}
		var jobs []job
		for a := 0; a < narch; a++ {
			n := 1 + r.Intn(4)
			var es []UEntry
			for i := 0; i < n; i++ {
				e := UEntry{Name: r.Pick([]string{"a", "b", "d/a", "d/b", "d/e/f"}), Mode: 0644, Mtime: 1400000000 + int64(i)}
				switch x := r.Intn(10); {
				case x < 6:
					e.Typ = tar.TypeReg
					e.Body = string(bytes.Repeat([]byte{byte('a' + i)}, []int{0, 1, 100, 511, 512, 700}[r.Intn(6)]))
				case x < 8:
					e.Typ = tar.TypeDir
					e.Name = r.Pick([]string{"d/", "d/e/", "g/"})
					e.Mode = 0750
				default:
					e.Typ = tar.TypeSymlink
					e.Name = r.Pick([]string{"l", "d/l"})
					e.Link = "a"
					e.Mode = 0777
				}
				es = append(es, e)
			}
			l := buildTarLayout(es)
			if l == nil {
				continue
			}
			base := &UCase{Dst: "p/q/dst", Init: baseInit(), Entries: es}
			off := r.Intn(stride)
			for k := off; k <= len(l.data); k += stride {
				c := *base
				c.Fault = fmt.Sprintf("tar-cut@%d", k)
				des, fault := decodeWithFault(l.data[:k])
				jobs = append(jobs, job{c: &c, es: des, data: gz(l.data[:k]), fault: fault, failAt: -1, full: es})
			}
			full := gz(l.data)
			gstride := stride
			if gstride < 7 {
				gstride = 7
			}
			for k := r.Intn(gstride); k < len(full); k += gstride {
				for _, hard := range []bool{true, false} {
					c := *base
					c.Fault = fmt.Sprintf("gzip-%v@%d", hard, k)
					jobs = append(jobs, job{c: &c, es: es, data: full, failAt: k, hard: hard, full: es})
				}
			}
		}
		// exact replay (-case): the recorded case (archive + fault position) takes the last slot and is run first, alone
		replayIdx := -1
		var rc UCase
		if loadReplayInput(cfg, "unpack-faults", &rc) {
			if why := prepareReplayedUCase(&rc, filepath.Join(work, fmt.Sprintf("f%07d", len(jobs))), work); why != "" {
				rep.ReplayNote("refused: " + why)
			} else if j, why := faultJobOf(&rc); why != "" {
				rep.ReplayNote(why)
			} else {
				jobs = append(jobs, job{c: j.c, es: j.es, data: j.data, fault: j.fault, failAt: j.failAt, hard: j.hard, full: j.full})
				replayIdx = len(jobs) - 1
			}
		} else {
			replayMissing(cfg, rep, "unpack-faults")
		}
		reqs := make([]string, len(jobs))
		impl := make([]string, len(jobs))
		human := make([]interface{}, len(jobs))
		var wg sync.WaitGroup
		sem := make(chan struct{}, 16)
		runJob := func(i int) {
				j := jobs[i]
				arena := filepath.Join(work, fmt.Sprintf("f%07d", i))
				defer os.RemoveAll(arena)
				if err := materialise(arena, j.c.Init); err != nil {
					return
				}
				dst := filepath.Join(arena, j.c.Dst)
				start := time.Now()
				before := snapshot(arena, start)
				rd := &errReader{data: j.data, fail: j.failAt}
				if j.hard {
					rd.err = errors.New("injected read error")
				}
				out := runUnpack(rd, dst, nil)
				after := snapshot(arena, start)
				rep.Case(fmt.Sprintf("%v|%s", j.es, j.c.Fault), j.fault != "none", map[string]interface{}{"entries": len(j.es), "fault": j.c.Fault, "model_fault": j.fault, "result": out.class})
				rep.Count("result:" + out.class)
				if j.fault != "" {
					rep.Count("modelfault:" + j.fault[:1])
					reqs[i] = fmt.Sprintf("unpack 1 %s %s - %s %s %s", X("/"), X(dst), j.fault, encArena(arena, before), encEntries(j.es))
					impl[i] = out.class + " " + encArena(arena, after)
					human[i] = j.c
				}
				// oracle: success => the whole archive was materialised (same tree as the fault-free run)
				if out.class == "ok" {
					ref := filepath.Join(work, fmt.Sprintf("r%07d", i))
					defer os.RemoveAll(ref)
					materialise(ref, j.c.Init)
					st2 := time.Now()
					// what the reader delivered in full: for a tar cut that archive/tar reads as a clean end, the
					// decoded prefix; for gzip-level faults, the whole archive
					wantEntries := j.full
					if j.fault == "none" {
						wantEntries = j.es
					}
					o2 := runUnpack(bytes.NewReader(gz(buildTarLayout(wantEntries).data)), filepath.Join(ref, j.c.Dst), nil)
					want := snapshot(ref, st2)
					if o2.class != "ok" || !sameNodes(want, after) {
						rep.AddOracle(OracleFailure{Property: "C12", Lane: "unpack-faults", What: fmt.Sprintf("Unpack returned success under %s but the destination is not the fully materialised archive", j.c.Fault), Input: j.c, ReqIdx: i + 1})
					}
				}
				if out.panicked != nil || out.timeout {
					rep.AddOracle(OracleFailure{Property: "C19", Lane: "unpack-faults", What: fmt.Sprintf("Unpack %s under %s", out.class, j.c.Fault), Input: j.c, ReqIdx: i + 1})
				}
				// C01 under faults: nothing outside dst changes
				if d := diffOutside(before, after, j.c.Dst); d != "" {
					rep.AddOracle(OracleFailure{Property: "C01", Lane: "unpack-faults", What: "outside dst under " + j.c.Fault + ": " + d, Input: j.c, ReqIdx: i + 1})
				}
		}
		if replayIdx >= 0 {
			rep.BeginReplay()
			runJob(replayIdx)
			rep.EndReplay(reqs[replayIdx])
		}
		for i := range jobs {
			if i == replayIdx {
				continue
			}
			wg.Add(1)
			sem <- struct{}{}
			go func(i int) {
				defer wg.Done()
				defer func() { <-sem }()
				runJob(i)
			}(i)
		}
		wg.Wait()
		var rq, im []string
		var hu []interface{}
		remap := map[int]int{}
		for i := range reqs {
			if reqs[i] != "" {
				remap[i+1] = len(rq) + 1
				rq = append(rq, reqs[i])
				im = append(im, impl[i])
				hu = append(hu, human[i])
			}
		}
		for k := range rep.OracleFailures {
			rep.OracleFailures[k].ReqIdx = remap[rep.OracleFailures[k].ReqIdx]
		}
		rep.Exhaustive = cfg.Tier == "thorough"
		rep.Compare(cfg.Driver, rq, im, hu)
	}
}

// faultJobOf rebuilds a job of this lane from a recorded case: its Fault field says where the stream fails
// ("tar-cut@K": the tar stream ends after K bytes; "gzip-true@K" / "gzip-false@K": the gzip stream
// fails with an error / ends cleanly at offset K).
type faultJob struct {
	c      *UCase
	es     []UEntry
	data   []byte
	fault  string
	failAt int
	hard   bool
	full   []UEntry
}

func faultJobOf(c *UCase) (*faultJob, string) {
	l := buildTarLayout(c.Entries)
	if l == nil {
		return nil, "the recorded archive cannot be written as a tar stream"
	}
	var k int
	var hard bool
	if n, _ := fmt.Sscanf(c.Fault, "tar-cut@%d", &k); n == 1 {
		if k < 0 || k > len(l.data) {
			return nil, "recorded cut position " + c.Fault + " is beyond the tar stream"
		}
		des, fault := decodeWithFault(l.data[:k])
		return &faultJob{c: c, es: des, data: gz(l.data[:k]), fault: fault, failAt: -1, full: c.Entries}, ""
	}
	if n, _ := fmt.Sscanf(c.Fault, "gzip-%t@%d", &hard, &k); n == 2 {
		full := gz(l.data)
		if k < 0 || k > len(full) {
			return nil, "recorded fault position " + c.Fault + " is beyond the gzip stream"
		}
		return &faultJob{c: c, es: c.Entries, data: full, failAt: k, hard: hard, full: c.Entries}, ""
	}
	return nil, fmt.Sprintf("the recorded case has no fault position of this lane (fault %q)", c.Fault)
}

func sameNodes(a, b []FSNode) bool {
	if len(a) != len(b) {
		return false
	}
	for i := range a {
		x, y := a[i], b[i]
		if x.Path != y.Path || x.Kind != y.Kind || x.Perm != y.Perm || x.Mtime != y.Mtime || x.Data != y.Data {
			return false
		}
	}
	return true
}

// decodeWithFault reads a (possibly cut) tar stream with archive/tar and reports what Unpack's
// reader will see: the entries delivered and where it fails (model fault), if anywhere.
func decodeWithFault(data []byte) ([]UEntry, string) {
	tr := tar.NewReader(bytes.NewReader(data))
	var out []UEntry
	for {
		h, err := tr.Next()
		if err == io.EOF {
			return out, "none"
		}
		if err != nil {
			return out, fmt.Sprintf("h%d", len(out))
		}
		body, berr := io.ReadAll(tr)
		out = append(out, UEntry{Name: h.Name, Typ: h.Typeflag, Mode: int64(h.FileInfo().Mode().Perm()) | specialBits(h.FileInfo().Mode()),
			Mtime: h.ModTime.Unix(), Link: h.Linkname, Body: string(body)})
		if berr != nil {
			return out, fmt.Sprintf("b%d.%d", len(out)-1, len(body))
		}
	}
}

func diffOutside(before, after []FSNode, dst string) string {
	bm := map[string]FSNode{}
	for _, n := range before {
		bm[n.Path] = n
	}
	in := func(p string) bool { return p == dst || len(p) > len(dst) && p[:len(dst)+1] == dst+"/" }
	out := ""
	seen := map[string]bool{}
	for _, a := range after {
		seen[a.Path] = true
		if in(a.Path) {
			continue
		}
		if b, ok := bm[a.Path]; !ok {
			out += " created:" + a.Path
		} else if b != a {
			out += " changed:" + a.Path
		}
	}
	for _, b := range before {
		if !in(b.Path) && !seen[b.Path] {
			out += " removed:" + b.Path
		}
	}
	return out
}
