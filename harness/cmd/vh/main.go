package main

import (
	"flag"
	"fmt"
	"os"
)

type Lane func(cfg *Config, rep *Report)

type Config struct {
	Seed   uint64
	N      int
	Tier   string
	Driver string
	Replay string
	Work   string // scratch directory (removed by the caller)
	Prop   string // property whose projection/oracle is wanted ("" = all)
}

var lanes = map[string]Lane{}

func main() {
	lane := flag.String("lane", "", "lane to run")
	seed := flag.Uint64("seed", 1, "PRNG seed")
	n := flag.Int("n", 1000, "number of generated cases")
	tier := flag.String("tier", "quick", "quick|thorough")
	driver := flag.String("driver", "/verif/lean/.lake/build/bin/driver", "Lean driver executable")
	out := flag.String("out", "-", "report file")
	replay := flag.String("replay", "", "replay file")
	work := flag.String("work", "", "scratch directory")
	prop := flag.String("prop", "", "property id (projection)")
	flag.Parse()
	f, ok := lanes[*lane]
	if !ok {
		fmt.Fprintf(os.Stderr, "unknown lane %q\n", *lane)
		os.Exit(2)
	}
	cfg := &Config{Seed: *seed, N: *n, Tier: *tier, Driver: *driver, Replay: *replay, Work: *work, Prop: *prop}
	rep := NewReport(*lane, *seed)
	f(cfg, rep)
	if err := rep.Write(*out); err != nil {
		fmt.Fprintln(os.Stderr, err)
		os.Exit(2)
	}
}
