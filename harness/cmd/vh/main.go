package main

import (
	"path/filepath"
	"flag"
	"fmt"
	"os"
	"strconv"
	"syscall"
)

type Lane func(cfg *Config, rep *Report)

type Config struct {
	Seed   uint64
	N      int
	Tier   string
	Driver string
	Replay string
	Work   string // scratch directory (removed by the caller)
	Prop   string // property whose projection/oracle is wanted ("" = all)
	// CaseFile: a replay file written by bin/check; the recorded failing input is run first through the
	// lane (exact replay), in addition to the ordinary run. CaseData is its content (read before privileges
	// are dropped).
	CaseFile string
	CaseData []byte
	// Umask (-umask, octal; default 022): the process umask the unpack and bundle-roundtrip lanes run under.
	// Any other value than 022 is outside the Lean filesystem model: those lanes then send no requests to
	// the model and only the implementation-level oracles judge. UmaskGiven: the field was set (a Config
	// built without it means 022).
	Umask      int
	UmaskGiven bool
}

var lanes = map[string]Lane{}

func main() {
	lane := flag.String("lane", "", "lane to run")
	seed := flag.Uint64("seed", 1, "PRNG seed")
	n := flag.Int("n", 1000, "number of generated cases")
	tier := flag.String("tier", "quick", "quick|thorough")
	driver := flag.String("driver", "/verif/lean/.lake/build/bin/driver", "Lean driver executable")
	out := flag.String("out", "-", "report file")
	replay := flag.String("replay", "", "replay file")
	work := flag.String("work", "", "scratch directory")
	prop := flag.String("prop", "", "property id (projection)")
	caseFile := flag.String("case", "", "replay file of bin/check: run its recorded input first through the lane (exact replay)")
	umaskS := flag.String("umask", "022", "process umask (octal) for the unpack and bundle-roundtrip lanes; other values than 022 are outside the model: no model comparison, oracles only")
	uid := flag.Int("uid", 0, "drop privileges to this uid/gid before running the lane (the work directory is chowned first)")
	flag.Parse()
	umask, uerr := strconv.ParseUint(*umaskS, 8, 12)
	if uerr != nil || umask > 0777 {
		fmt.Fprintf(os.Stderr, "bad -umask %q (octal, 0..777)\n", *umaskS)
		os.Exit(2)
	}
	var caseData []byte
	if *caseFile != "" {
		// read while still privileged (replay files may live where an unprivileged lane cannot read)
		b, err := os.ReadFile(*caseFile)
		if err != nil {
			fmt.Fprintln(os.Stderr, "case file:", err)
			os.Exit(2)
		}
		caseData = b
	}
	var outF *os.File
	if *uid != 0 {
		if *out != "-" && *out != "" {
			// the report file is opened while still privileged
			f, err := os.Create(*out)
			if err != nil {
				fmt.Fprintln(os.Stderr, err)
				os.Exit(2)
			}
			outF = f
		}
		if *work != "" {
			os.MkdirAll(*work, 0755)
			os.Chown(*work, *uid, *uid)
			// the unprivileged lane must be able to execute the model driver wherever /verif lives
			// (a checkout below a directory that other users cannot traverse): run a copy from the
			// scratch directory
			if b, err := os.ReadFile(*driver); err == nil {
				cp := filepath.Join(*work, "driver-copy")
				if os.WriteFile(cp, b, 0755) == nil {
					os.Chmod(cp, 0755)
					*driver = cp
				}
			}
		}
		syscall.Setgroups([]int{})
		if err := syscall.Setgid(*uid); err != nil {
			fmt.Fprintln(os.Stderr, "setgid:", err)
			os.Exit(2)
		}
		if err := syscall.Setuid(*uid); err != nil {
			fmt.Fprintln(os.Stderr, "setuid:", err)
			os.Exit(2)
		}
	}
	f, ok := lanes[*lane]
	if !ok {
		fmt.Fprintf(os.Stderr, "unknown lane %q\n", *lane)
		os.Exit(2)
	}
	cfg := &Config{Seed: *seed, N: *n, Tier: *tier, Driver: *driver, Replay: *replay, Work: *work, Prop: *prop, CaseFile: *caseFile, CaseData: caseData, Umask: int(umask), UmaskGiven: true}
	rep := NewReport(*lane, *seed)
	rep.prop = *prop
	f(cfg, rep)
	if outF != nil {
		*out = "-"
		os.Stdout = outF
	}
	if err := rep.Write(*out); err != nil {
		fmt.Fprintln(os.Stderr, err)
		os.Exit(2)
	}
}
