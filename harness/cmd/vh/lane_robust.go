package main

import (
	"archive/tar"
	"bytes"
	"context"
	"encoding/json"
	"fmt"
	"io"
	"os"
	"os/exec"
	"path/filepath"
	"runtime/debug"
	"strings"
	"sync"
	"syscall"
	"time"

	slug "github.com/hashicorp/go-slug"
	"github.com/hashicorp/go-slug/sourceaddrs"
	"github.com/hashicorp/go-slug/sourcebundle"
)

// robust lane (C19): every entry point on hostile input, each case in a watched worker process
// (time limit, memory limit, bounded stack), so that panics, stack exhaustion and hangs are
// observed as exit status / timeout instead of taking the harness down.

type RCase struct {
	Kind   string  `json:"kind"` // pack | unpack | opendir | parse
	Nodes  []PNode `json:"nodes,omitempty"`
	Deref  bool    `json:"deref,omitempty"`
	Ignore bool    `json:"ignore,omitempty"`
	Data   []byte  `json:"data,omitempty"`
	Text   string  `json:"text,omitempty"`
}

func init() {
	lanes["robust-child"] = func(cfg *Config, rep *Report) {
		// worker: run one case, exit 0 on a value or an error, crash otherwise
		debug.SetMaxStack(64 << 20)
		var c RCase
		b, err := os.ReadFile(cfg.Replay)
		if err != nil || json.Unmarshal(b, &c) != nil {
			os.Exit(3)
		}
		switch c.Kind {
		case "pack":
			arena := filepath.Join(cfg.Work, "arena")
			if materialiseP(arena, c.Nodes) != nil {
				os.Exit(3)
			}
			var opts []slug.PackerOption
			if c.Deref {
				opts = append(opts, slug.DereferenceSymlinks())
			}
			if c.Ignore {
				opts = append(opts, slug.ApplyTerraformIgnore())
			}
			p, _ := slug.NewPacker(opts...)
			p.Pack(filepath.Join(arena, "p/src"), io.Discard)
		case "unpack":
			dst := filepath.Join(cfg.Work, "dst")
			os.MkdirAll(dst, 0755)
			slug.Unpack(bytes.NewReader(c.Data), dst)
		case "opendir":
			dir := filepath.Join(cfg.Work, "bundle")
			os.MkdirAll(dir, 0755)
			os.WriteFile(filepath.Join(dir, "terraform-sources.json"), c.Data, 0644)
			sourcebundle.OpenDir(dir)
		case "parse":
			if s, err := sourceaddrs.ParseSource(c.Text); err == nil {
				_ = s.String()
				sourceaddrs.SourceFilename(s)
			}
			if s, err := sourceaddrs.ParseFinalSource(c.Text); err == nil {
				_ = s.String()
				sourceaddrs.FinalSourceFilename(s)
			}
			if s, err := sourceaddrs.ParseRemotePackage(c.Text); err == nil {
				_ = s.String()
			}
			if s, err := sourceaddrs.ParseRegistryPackage(c.Text); err == nil {
				_ = s.String()
			}
			sourceaddrs.ValidSubPath(c.Text)
		}
		os.Exit(0)
	}

	lanes["robust"] = func(cfg *Config, rep *Report) {
		rep.Rule = "watched worker process per case (10 s, GOMEMLIMIT 512 MiB, 64 MiB stack): Pack over trees with link cycles inside and outside the tree, dereferenced directories containing themselves, links to fifos, odd names; Unpack over structurally mutated tar streams (type flags, names, sizes, truncations; checksums repaired by archive/tar); OpenDir over mutated manifest documents; the four parsers over mutated address strings; non-trivial = every case; distinct by case"
		r := NewRng(cfg.Seed)
		self, _ := os.Executable()
		var cases []RCase
		sigs := map[int]string{}
		for i := 0; i < cfg.N; i++ {
			switch i % 4 {
			case 0:
				c := RCase{Kind: "pack", Nodes: genTree(r), Deref: r.Chance(70), Ignore: r.Chance(50)}
				switch r.Intn(8) {
				case 0: // cycle outside the tree reached by dereferencing
					c.Nodes = append(c.Nodes, PNode{Path: "p/src/tocycle", Kind: "l", Data: "../ext/ca"})
					if c.Deref {
						sigs[len(cases)] = "pack.external-link-cycle"
					}
				case 1: // dereferenced directory containing a link to itself
					c.Nodes = append(c.Nodes, PNode{Path: "p/ext/dir/self", Kind: "l", Data: "../dir"}, PNode{Path: "p/src/todir", Kind: "l", Data: "../ext/dir"})
					if c.Deref {
						sigs[len(cases)] = "pack.dereferenced-dir-contains-itself"
					}
				case 2: // link to a fifo outside
					c.Nodes = append(c.Nodes, PNode{Path: "p/src/topipe", Kind: "l", Data: "../ext/pipe"})
					if c.Deref {
						sigs[len(cases)] = "pack.dereference-fifo"
					}
				case 3: // cycle inside the tree
					c.Nodes = append(c.Nodes, PNode{Path: "p/src/la", Kind: "l", Data: "lb"}, PNode{Path: "p/src/lb", Kind: "l", Data: "la"}, PNode{Path: "p/src/selfdir", Kind: "l", Data: "."})
				case 4:
					c.Nodes = append(c.Nodes, PNode{Path: "p/src/.terraformignore", Kind: "f", Perm: 0644, Mtime: 1, Data: r.Pick([]string{"   \n", "!\n", "! \n", "[\n", "a[b\n", "\\\n", "**\n", "***/**/\n", strings.Repeat("*", 50) + "\n", "\x00\n", "!/\n", "/\n"})})
					c.Ignore = true
				}
				cases = append(cases, c)
			case 1:
				n := 1 + r.Intn(4)
				var es []UEntry
				for k := 0; k < n; k++ {
					es = append(es, genEntry(r, "/nonexistent-arena", k))
				}
				data := buildTarGz(es)
				if r.Chance(60) {
					// mutate the raw tar, re-gzip
					raw := mustGunzip(data)
					for k := 0; k < 1+r.Intn(3) && len(raw) > 0; k++ {
						pos := r.Intn(len(raw))
						switch r.Intn(3) {
						case 0:
							raw[pos] = byte(r.Intn(256))
						case 1:
							raw = raw[:pos]
						default:
							raw = append(raw[:pos], append([]byte{byte(r.Intn(256))}, raw[pos:]...)...)
						}
					}
					data = gz(repairTar(raw))
				} else if r.Chance(30) && len(data) > 4 {
					data = data[:r.Intn(len(data))]
				}
				cases = append(cases, RCase{Kind: "unpack", Data: data})
			case 2:
				m := genManifest(r)
				b, _ := json.Marshal(m)
				if r.Chance(50) && len(b) > 2 {
					pos := r.Intn(len(b))
					b[pos] = []byte("{}[]\":,0x")[r.Intn(9)]
				}
				cases = append(cases, RCase{Kind: "opendir", Data: b})
			default:
				cases = append(cases, RCase{Kind: "parse", Text: genAddr(r) + r.Pick([]string{"", "", "//", "@", "::", "\x00", "?", "//..", "@1.0.0", "@x//"})})
			}
		}
		var wg sync.WaitGroup
		sem := make(chan struct{}, 16)
		for i := range cases {
			wg.Add(1)
			sem <- struct{}{}
			go func(i int) {
				defer wg.Done()
				defer func() { <-sem }()
				c := cases[i]
				dir := filepath.Join(cfg.Work, fmt.Sprintf("rb%06d", i))
				os.MkdirAll(dir, 0755)
				defer func() { chmodAll(dir); os.RemoveAll(dir) }()
				cf := filepath.Join(dir, "case.json")
				b, _ := json.Marshal(c)
				os.WriteFile(cf, b, 0644)
				ctx, cancel := context.WithTimeout(context.Background(), 10*time.Second)
				defer cancel()
				cmd := exec.CommandContext(ctx, self, "-lane", "robust-child", "-replay", cf, "-work", dir, "-out", filepath.Join(dir, "out.json"))
				cmd.Env = append(os.Environ(), "GOMEMLIMIT=512MiB", "GOTRACEBACK=none")
				cmd.SysProcAttr = &syscall.SysProcAttr{Setpgid: true}
				var stderr bytes.Buffer
				cmd.Stderr = &stderr
				err := cmd.Run()
				if cmd.Process != nil {
					syscall.Kill(-cmd.Process.Pid, syscall.SIGKILL)
				}
				rep.Case(string(b), true, map[string]interface{}{"kind": c.Kind})
				rep.Count("kind:" + c.Kind)
				if err == nil {
					rep.Count("outcome:returned")
					return
				}
				what := ""
				if ctx.Err() != nil {
					what = "did not return within 10 s"
					rep.Count("outcome:timeout")
				} else {
					msg := stderr.String()
					if len(msg) > 200 {
						msg = msg[:200]
					}
					what = "crashed: " + strings.TrimSpace(strings.Split(msg, "\n")[0])
					rep.Count("outcome:crash")
				}
				small := c
				if len(small.Data) > 600 {
					small.Data = small.Data[:600]
				}
				rep.AddOracle(OracleFailure{Property: "C19", Lane: "robust", What: c.Kind + " " + what, Input: small, Signature: sigs[i]})
			}(i)
		}
		wg.Wait()
	}
}

func mustGunzip(data []byte) []byte {
	es, err := decodeTar(data)
	_ = es
	_ = err
	var buf bytes.Buffer
	tw := tar.NewWriter(&buf)
	for _, e := range es {
		h := &tar.Header{Name: e.Name, Typeflag: e.Typ, Linkname: e.Link, Mode: e.Mode, ModTime: time.Unix(e.Mtime, 0), Size: int64(len(e.Body))}
		if tw.WriteHeader(h) == nil {
			tw.Write([]byte(e.Body))
		}
	}
	tw.Close()
	return buf.Bytes()
}

// repairTar recomputes the header checksum of every 512-byte block that looks like a header, so
// that mutated fields are actually looked at by the reader
func repairTar(raw []byte) []byte {
	for off := 0; off+512 <= len(raw); off += 512 {
		blk := raw[off : off+512]
		if string(blk[257:262]) != "ustar" {
			continue
		}
		for i := 148; i < 156; i++ {
			blk[i] = ' '
		}
		var sum int
		for _, b := range blk {
			sum += int(b)
		}
		copy(blk[148:156], []byte(fmt.Sprintf("%06o\x00 ", sum)))
	}
	return raw
}
