package main

import (
	"archive/tar"
	"bytes"
	"context"
	"encoding/json"
	"fmt"
	"io"
	"os"
	"os/exec"
	"path/filepath"
	"runtime/debug"
	"strconv"
	"strings"
	"sync"
	"syscall"
	"time"

	slug "github.com/hashicorp/go-slug"
	"github.com/hashicorp/go-slug/sourceaddrs"
	"github.com/hashicorp/go-slug/sourcebundle"
)

// robust lane (C19; resource-limit cases for C02, C12, C15): every entry point on hostile input, each case in a watched worker process
// (time limit, memory limit, bounded stack), so that panics, stack exhaustion and hangs are
// observed as exit status / timeout instead of taking the harness down.

type RCase struct {
	Kind   string  `json:"kind"` // pack | unpack | opendir | parse
	Nodes  []PNode `json:"nodes,omitempty"`
	Deref  bool    `json:"deref,omitempty"`
	Ignore bool    `json:"ignore,omitempty"`
	Data   []byte  `json:"data,omitempty"`
	Text   string  `json:"text,omitempty"`
	// resource-limit kinds (the case is complete without Data: the child builds its archive from Files):
	//   unpack-nofile   : Unpack of a generated archive with Files small regular files while the soft
	//                     RLIMIT_NOFILE is Limit (seed C02-g: every extracted file kept open until Unpack returns)
	//   pack-nofile     : Pack of Nodes while the soft RLIMIT_NOFILE is Limit (0..3: nothing can be opened;
	//                     seed C12-g: a walk root that cannot be read gives an empty slug and no error; 16 and
	//                     more: a control, Pack must succeed with a complete slug)
	//   pack-unreadable : Pack of Nodes as user Uid (unprivileged; a directory of mode 0300 cannot be read)
	//   unpack-unwritable : Unpack of Entries as user Uid (unprivileged) into a place where the file cannot be
	//                     created and no chmod of the file cures it: Shape "rodir" = the destination has mode
	//                     DirMode (0555); "rosub" = an existing sub-directory Sub of dst has mode DirMode;
	//                     "umask" = the process umask is Umask (octal, without owner-write: 0222), so the
	//                     directories Unpack makes itself come out read-only. Unpack must RETURN - an error -
	//                     within the worker's time limit (seed C19-h: the "permission error on create => chmod
	//                     0600 and create again" fallback as an unbounded loop; invisible to root)
	Files int `json:"files,omitempty"`
	Limit int `json:"limit,omitempty"`
	Uid   int `json:"uid,omitempty"`
	Shape   string   `json:"shape,omitempty"`
	Entries []UEntry `json:"entries,omitempty"`
	DirMode uint32   `json:"dir_mode,omitempty"`
	Sub     string   `json:"sub,omitempty"`
	Umask   string   `json:"umask,omitempty"`
	// Truncated: Data was shortened for the report (such a case cannot be replayed exactly)
	Truncated bool `json:"truncated,omitempty"`
}

// verdictExit: a worker that has judged its own case (resource-limit kinds) exits with this status after
// writing one line "VERDICT <property> <text>" per violated property to stderr.
const verdictExit = 10

// setupExit: the worker could not set its case up (machinery, not a finding)
const setupExit = 3

func verdict(lines ...string) {
	for _, l := range lines {
		fmt.Fprintln(os.Stderr, "VERDICT "+l)
	}
	os.Exit(verdictExit)
}

// withNofile runs f while the soft RLIMIT_NOFILE is limit; descriptors that are already open stay usable
// (stdio, the runtime's poller), so the worker can still report afterwards.
func withNofile(limit int, f func()) error {
	var old syscall.Rlimit
	if err := syscall.Getrlimit(syscall.RLIMIT_NOFILE, &old); err != nil {
		return err
	}
	lim := old
	lim.Cur = uint64(limit)
	if lim.Cur > lim.Max {
		lim.Cur = lim.Max
	}
	if err := syscall.Setrlimit(syscall.RLIMIT_NOFILE, &lim); err != nil {
		return err
	}
	defer syscall.Setrlimit(syscall.RLIMIT_NOFILE, &old)
	f()
	return nil
}

// manyFilesArchive: n small regular files (modes 0644 / 0600, distinct times) in directories of 50, an empty
// directory and a relative link; what Pack writes for such a tree.
func manyFilesArchive(n int) []UEntry {
	var es []UEntry
	for i := 0; i < n; i++ {
		if i%50 == 0 {
			es = append(es, UEntry{Name: fmt.Sprintf("d%03d/", i/50), Typ: tar.TypeDir, Mode: 0755, Mtime: 1400000000 + int64(i), Fmt: "auto"})
		}
		es = append(es, UEntry{Name: fmt.Sprintf("d%03d/f%05d.tf", i/50, i), Typ: tar.TypeReg, Mode: []int64{0644, 0600}[i%2], Mtime: 1400000000 + int64(i), Body: fmt.Sprintf("file %d\n", i), Fmt: "auto"})
	}
	es = append(es, UEntry{Name: "empty/", Typ: tar.TypeDir, Mode: 0750, Mtime: 1400000000, Fmt: "auto"},
		UEntry{Name: "link", Typ: tar.TypeSymlink, Link: "d000/f00000.tf", Mode: 0777, Mtime: 1400000000, Fmt: "auto"})
	return es
}

// packExpect: the entry names a complete slug of the plain tree below p/src has (files, directories with a
// trailing slash, links; with dereferencing, a link to ../ext/<dir> stands for that directory: its content
// is listed below the link's name). Trees of the resource-limit kinds have no rule file and no special files.
func packExpect(nodes []PNode, deref bool) []string {
	var want []string
	linkTo := map[string]string{} // link path -> arena path of the directory it points at (deref only)
	for _, n := range nodes {
		if n.Kind == "l" && strings.HasPrefix(n.Path, "p/src/") && deref && strings.HasPrefix(n.Data, "../ext/") {
			linkTo[n.Path] = "p/ext/" + strings.TrimPrefix(n.Data, "../ext/")
		}
	}
	for _, n := range nodes {
		if !strings.HasPrefix(n.Path, "p/src/") {
			for l, d := range linkTo {
				if strings.HasPrefix(n.Path, d+"/") {
					rel := strings.TrimPrefix(l, "p/src/") + "/" + strings.TrimPrefix(n.Path, d+"/")
					if n.Kind == "d" {
						rel += "/"
					}
					want = append(want, rel)
				}
			}
			continue
		}
		if linkTo[n.Path] != "" {
			continue // the dereferenced directory has no entry of its own, its content is listed below the link's name
		}
		rel := strings.TrimPrefix(n.Path, "p/src/")
		if n.Kind == "d" {
			rel += "/"
		}
		want = append(want, rel)
	}
	return want
}

// judgePackComplete: Pack returned err and wrote buf; nil error means the slug must list every expected name.
func judgePackComplete(c *RCase, err error, buf *bytes.Buffer, under string) {
	if err != nil {
		return
	}
	es, _, derr := decodeSlug(buf.Bytes())
	have := map[string]bool{}
	for _, e := range es {
		have[e.Name] = true
		if e.Typ == tar.TypeDir {
			have[strings.TrimSuffix(e.Name, "/")+"/"] = true
		}
	}
	var missing []string
	for _, w := range packExpect(c.Nodes, c.Deref) {
		if !have[w] {
			missing = append(missing, w)
		}
	}
	if derr != nil || len(missing) > 0 {
		if len(missing) > 8 {
			missing = append(missing[:8], "...")
		}
		verdict(fmt.Sprintf("C12 Pack %s returned success but the slug is partial: %d entries, missing %q (a source that cannot be read must be reported)", under, len(es), missing))
	}
}

func init() {
	lanes["robust-child"] = func(cfg *Config, rep *Report) {
		// worker: run one case, exit 0 on a value or an error, crash otherwise
		debug.SetMaxStack(64 << 20)
		var c RCase
		b, err := os.ReadFile(cfg.Replay)
		if err != nil || json.Unmarshal(b, &c) != nil {
			os.Exit(3)
		}
		switch c.Kind {
		case "pack":
			arena := filepath.Join(cfg.Work, "arena")
			if materialiseP(arena, c.Nodes) != nil {
				os.Exit(3)
			}
			var opts []slug.PackerOption
			if c.Deref {
				opts = append(opts, slug.DereferenceSymlinks())
			}
			if c.Ignore {
				opts = append(opts, slug.ApplyTerraformIgnore())
			}
			p, _ := slug.NewPacker(opts...)
			p.Pack(filepath.Join(arena, "p/src"), io.Discard)
		case "unpack":
			// dst sits three levels below the scratch directory of the lane (targets that climb, also after a
			// rewriting of separators, stay inside it)
			dst := filepath.Join(cfg.Work, "p/q/dst")
			os.MkdirAll(dst, 0755)
			slug.Unpack(bytes.NewReader(c.Data), dst)
		case "unpack-nofile":
			es := manyFilesArchive(c.Files)
			data := buildTarGz(es)
			dst := filepath.Join(cfg.Work, "p/q/dst")
			if os.MkdirAll(dst, 0755) != nil || c.Files <= 0 || c.Limit < 16 {
				os.Exit(setupExit)
			}
			var uerr error
			if withNofile(c.Limit, func() { uerr = slug.Unpack(bytes.NewReader(data), dst) }) != nil {
				os.Exit(setupExit)
			}
			what := ""
			if uerr != nil {
				what = fmt.Sprintf("Unpack of an archive with %d regular files fails under RLIMIT_NOFILE=%d, a descriptor limit that a correct implementation never reaches (one file open at a time): %v", c.Files, c.Limit, uerr)
			} else {
				missing := 0
				first := ""
				for _, e := range es {
					fi, err := os.Lstat(filepath.Join(dst, e.Name))
					bad := err != nil
					if !bad && e.Typ == tar.TypeReg {
						b, rerr := os.ReadFile(filepath.Join(dst, e.Name))
						bad = rerr != nil || string(b) != e.Body || int64(fi.Mode().Perm()) != e.Mode || fi.ModTime().Unix() != e.Mtime
					}
					if bad {
						if missing == 0 {
							first = e.Name
						}
						missing++
					}
				}
				if missing > 0 {
					what = fmt.Sprintf("Unpack of an archive with %d regular files under RLIMIT_NOFILE=%d returned nil but %d entries are missing or differ (first: %q)", c.Files, c.Limit, missing, first)
				}
			}
			if what != "" {
				verdict("C02 "+what, "C15 "+what)
			}
		case "pack-nofile", "pack-unreadable":
			arena := filepath.Join(cfg.Work, "arena")
			if materialiseP(arena, c.Nodes) != nil {
				os.Exit(setupExit)
			}
			var opts []slug.PackerOption
			if c.Deref {
				opts = append(opts, slug.DereferenceSymlinks())
			}
			p, perr := slug.NewPacker(opts...)
			if perr != nil {
				os.Exit(setupExit)
			}
			var buf bytes.Buffer
			var err error
			if c.Kind == "pack-nofile" {
				if c.Limit < 0 || (c.Limit > 3 && c.Limit < 16) || withNofile(c.Limit, func() { _, err = p.Pack(filepath.Join(arena, "p/src"), &buf) }) != nil {
					os.Exit(setupExit)
				}
				under := fmt.Sprintf("under RLIMIT_NOFILE=%d (no directory can be opened)", c.Limit)
				if c.Limit > 3 {
					// control: descriptors to spare, Pack succeeds and the slug must be complete
					under = fmt.Sprintf("under RLIMIT_NOFILE=%d", c.Limit)
					if err != nil {
						verdict(fmt.Sprintf("C12 Pack %s of a readable tree fails, with descriptors to spare (one directory or file open at a time): %v", under, err))
					}
				}
				judgePackComplete(&c, err, &buf, under)
			} else {
				if os.Geteuid() == 0 {
					os.Exit(setupExit) // root reads every directory: the case says nothing
				}
				_, err = p.Pack(filepath.Join(arena, "p/src"), &buf)
				judgePackComplete(&c, err, &buf, fmt.Sprintf("as uid %d of a tree with a directory it cannot read (mode 0300)", os.Geteuid()))
			}
		case "unpack-unwritable":
			if os.Geteuid() == 0 {
				os.Exit(setupExit) // root creates files wherever it likes: the case says nothing
			}
			if unsafeRCase(&c) != "" {
				os.Exit(setupExit)
			}
			dst := filepath.Join(cfg.Work, "p/q/dst")
			if mkdirAllExact(dst, 0755) != nil {
				os.Exit(setupExit)
			}
			data := buildTarGz(c.Entries)
			switch c.Shape {
			case "rodir":
				if os.Chmod(dst, os.FileMode(c.DirMode)) != nil {
					os.Exit(setupExit)
				}
			case "rosub":
				sub := filepath.Join(dst, c.Sub)
				if mkdirAllExact(sub, 0755) != nil || os.Chmod(sub, os.FileMode(c.DirMode)) != nil {
					os.Exit(setupExit)
				}
			case "umask":
				um, err := strconv.ParseUint(c.Umask, 8, 12)
				if err != nil {
					os.Exit(setupExit)
				}
				syscall.Umask(int(um))
			default:
				os.Exit(setupExit)
			}
			uerr := slug.Unpack(bytes.NewReader(data), dst)
			syscall.Umask(022)
			if uerr == nil {
				// it returned: the hang is excluded. A nil return is believable only if everything is there.
				for _, e := range c.Entries {
					if e.Typ != tar.TypeReg && e.Typ != tar.TypeDir {
						continue
					}
					if _, err := os.Lstat(filepath.Join(dst, e.Name)); err != nil {
						verdict(fmt.Sprintf("C12 Unpack as uid %d (%s) returned nil but the entry %q is not there: %v", os.Geteuid(), c.Shape, e.Name, err))
					}
				}
			}
		case "opendir":
			dir := filepath.Join(cfg.Work, "bundle")
			os.MkdirAll(dir, 0755)
			os.WriteFile(filepath.Join(dir, "terraform-sources.json"), c.Data, 0644)
			sourcebundle.OpenDir(dir)
		case "parse":
			if s, err := sourceaddrs.ParseSource(c.Text); err == nil {
				_ = s.String()
				sourceaddrs.SourceFilename(s)
			}
			if s, err := sourceaddrs.ParseFinalSource(c.Text); err == nil {
				_ = s.String()
				sourceaddrs.FinalSourceFilename(s)
			}
			if s, err := sourceaddrs.ParseRemotePackage(c.Text); err == nil {
				_ = s.String()
			}
			if s, err := sourceaddrs.ParseRegistryPackage(c.Text); err == nil {
				_ = s.String()
			}
			sourceaddrs.ValidSubPath(c.Text)
		}
		os.Exit(0)
	}

	lanes["robust"] = func(cfg *Config, rep *Report) {
		rep.Rule = "watched worker process per case (10 s, GOMEMLIMIT 512 MiB, 64 MiB stack): Pack over trees with link cycles inside and outside the tree, dereferenced directories containing themselves, links to fifos, odd names; Unpack over structurally mutated tar streams (type flags, names, sizes, truncations; checksums repaired by archive/tar); OpenDir over mutated manifest documents; the four parsers over mutated address strings; plus max(10, N/20) resource-limit and permission cases judged by the worker itself or by its watchdog (C19: Unpack as uid 65534 of a small archive of regular files into a destination of mode 0555/0500/0511, into a destination with a read-only sub-directory, or under a umask without owner-write (0222, 0277, 0322: the directories Unpack makes itself are read-only) must return - a permission error - within the time limit; C02/C15: Unpack of 48..79 regular files under a soft RLIMIT_NOFILE of 24 or 32 must succeed and materialise all of them; C12: Pack of a small plain tree under RLIMIT_NOFILE 0..3 (and, as a control of the completeness check, 24 or 32), and Pack as uid 65534 of a tree whose root / dereferenced outside directory / sub-directory has mode 0300, must return an error or a complete slug); non-trivial = every case; distinct by case"
		r := NewRng(cfg.Seed)
		self, _ := os.Executable()
		var cases []RCase
		sigs := map[int]string{}
		for i := 0; i < cfg.N; i++ {
			switch i % 4 {
			case 0:
				c := RCase{Kind: "pack", Nodes: genTree(r), Deref: r.Chance(70), Ignore: r.Chance(50)}
				switch r.Intn(8) {
				case 0: // cycle outside the tree reached by dereferencing
					c.Nodes = append(c.Nodes, PNode{Path: "p/src/tocycle", Kind: "l", Data: "../ext/ca"})
					if c.Deref {
						sigs[len(cases)] = "pack.external-link-cycle"
					}
				case 1: // dereferenced directory containing a link to itself
					c.Nodes = append(c.Nodes, PNode{Path: "p/ext/dir/self", Kind: "l", Data: "../dir"}, PNode{Path: "p/src/todir", Kind: "l", Data: "../ext/dir"})
					if c.Deref {
						sigs[len(cases)] = "pack.dereferenced-dir-contains-itself"
					}
				case 2: // link to a fifo outside
					c.Nodes = append(c.Nodes, PNode{Path: "p/src/topipe", Kind: "l", Data: "../ext/pipe"})
					if c.Deref {
						sigs[len(cases)] = "pack.dereference-fifo"
					}
				case 3: // cycle inside the tree
					c.Nodes = append(c.Nodes, PNode{Path: "p/src/la", Kind: "l", Data: "lb"}, PNode{Path: "p/src/lb", Kind: "l", Data: "la"}, PNode{Path: "p/src/selfdir", Kind: "l", Data: "."})
				case 4:
					c.Nodes = append(c.Nodes, PNode{Path: "p/src/.terraformignore", Kind: "f", Perm: 0644, Mtime: 1, Data: r.Pick([]string{"   \n", "!\n", "! \n", "[\n", "a[b\n", "\\\n", "**\n", "***/**/\n", strings.Repeat("*", 50) + "\n", "\x00\n", "!/\n", "/\n"})})
					c.Ignore = true
				}
				cases = append(cases, c)
			case 1:
				n := 1 + r.Intn(4)
				var es []UEntry
				for k := 0; k < n; k++ {
					es = append(es, genEntry(r, "/nonexistent-arena", k))
				}
				data := buildTarGz(es)
				if r.Chance(60) {
					// mutate the raw tar, re-gzip
					raw := mustGunzip(data)
					for k := 0; k < 1+r.Intn(3) && len(raw) > 0; k++ {
						pos := r.Intn(len(raw))
						switch r.Intn(3) {
						case 0:
							raw[pos] = byte(r.Intn(256))
						case 1:
							raw = raw[:pos]
						default:
							raw = append(raw[:pos], append([]byte{byte(r.Intn(256))}, raw[pos:]...)...)
						}
					}
					data = gz(repairTar(raw))
				} else if r.Chance(30) && len(data) > 4 {
					data = data[:r.Intn(len(data))]
				}
				cases = append(cases, RCase{Kind: "unpack", Data: data})
			case 2:
				m := genManifest(r)
				b, _ := json.Marshal(m)
				if r.Chance(50) && len(b) > 2 {
					pos := r.Intn(len(b))
					b[pos] = []byte("{}[]\":,0x")[r.Intn(9)]
				}
				cases = append(cases, RCase{Kind: "opendir", Data: b})
			default:
				cases = append(cases, RCase{Kind: "parse", Text: genAddr(r) + r.Pick([]string{"", "", "//", "@", "::", "\x00", "?", "//..", "@1.0.0", "@x//"})})
			}
		}
		// resource-limit cases, on top of the N hostile-input cases (and after them in the random stream):
		// at least one of each shape
		nres := cfg.N / 20
		if nres < len(resourceShapes) {
			nres = len(resourceShapes)
		}
		for k := 0; k < nres; k++ {
			cases = append(cases, genResourceCase(r, k))
		}
		// exact replay (-case): the recorded case is run first, alone, through the same watched worker
		replayIdx := -1
		var rc RCase
		if loadReplayInput(cfg, "robust", &rc) {
			if why := unsafeRCase(&rc); why != "" {
				rep.ReplayNote("refused: " + why)
			} else {
				cases = append(cases, rc)
				replayIdx = len(cases) - 1
			}
		} else {
			replayMissing(cfg, rep, "robust")
		}
		var wg sync.WaitGroup
		sem := make(chan struct{}, 16)
		runCase := func(i int) {
				c := cases[i]
				dir := filepath.Join(cfg.Work, fmt.Sprintf("rb%06d", i))
				os.MkdirAll(dir, 0755)
				defer func() { chmodAll(dir); os.RemoveAll(dir) }()
				cf := filepath.Join(dir, "case.json")
				b, _ := json.Marshal(c)
				os.WriteFile(cf, b, 0644)
				ctx, cancel := context.WithTimeout(context.Background(), 30*time.Second) // generous: a loaded machine must not look like a hang
				defer cancel()
				args := []string{"-lane", "robust-child", "-replay", cf, "-work", dir, "-out", filepath.Join(dir, "out.json")}
				if dropsUid(c.Kind) {
					if os.Geteuid() == 0 {
						// the worker drops to the case's uid before it builds and packs the tree (main.go: -uid
						// chowns the scratch directory first; no model driver is needed there)
						if c.Uid <= 0 {
							rep.Count("skipped:" + c.Kind + "-without-uid")
							return
						}
						os.Chmod(dir, 0755)
						if !othersCanReach(dir) {
							// a scratch directory below one that other users cannot traverse (TMPDIR under /root):
							// the unprivileged worker could not even read its case
							rep.Count("skipped:" + c.Kind + "-scratch-not-reachable-unprivileged")
							return
						}
						args = append(args, "-uid", fmt.Sprint(c.Uid), "-driver", "")
					}
				}
				cmd := exec.CommandContext(ctx, self, args...)
				cmd.Env = append(os.Environ(), "GOMEMLIMIT=512MiB", "GOTRACEBACK=none")
				cmd.SysProcAttr = &syscall.SysProcAttr{Setpgid: true}
				var stderr bytes.Buffer
				cmd.Stderr = &stderr
				err := cmd.Run()
				if cmd.Process != nil {
					syscall.Kill(-cmd.Process.Pid, syscall.SIGKILL)
				}
				rep.Case(string(b), true, map[string]interface{}{"kind": c.Kind})
				rep.Count("kind:" + c.Kind)
				if err == nil {
					rep.Count("outcome:returned")
					return
				}
				what := ""
				code := -1
				if ee, ok := err.(*exec.ExitError); ok {
					code = ee.ExitCode()
				}
				if ctx.Err() == nil && code == 2 && dropsUid(c.Kind) && (strings.Contains(stderr.String(), "setuid:") || strings.Contains(stderr.String(), "setgid:")) {
					// main.go could not switch to the unprivileged user (a sandbox without that uid mapped)
					rep.Count("skipped:cannot-drop-privileges")
					return
				}
				if ctx.Err() == nil && code == setupExit {
					// the worker could not set the case up: machinery, not a finding
					rep.Count("outcome:setup-failed")
					rep.mu.Lock()
					rep.Broken = append(rep.Broken, fmt.Sprintf("robust worker could not set up its %s case: %s", c.Kind, strings.TrimSpace(stderr.String())))
					rep.mu.Unlock()
					return
				}
				if ctx.Err() == nil && code == verdictExit {
					// the worker judged its own case: one failure per property named
					rep.Count("outcome:verdict")
					n := 0
					for _, l := range strings.Split(stderr.String(), "\n") {
						if !strings.HasPrefix(l, "VERDICT ") {
							continue
						}
						f := strings.SplitN(strings.TrimPrefix(l, "VERDICT "), " ", 2)
						if len(f) == 2 {
							n++
							rep.AddOracle(OracleFailure{Property: f[0], Lane: "robust", What: c.Kind + ": " + f[1], Input: c})
						}
					}
					if n == 0 {
						rep.mu.Lock()
						rep.Broken = append(rep.Broken, "robust worker exited with the verdict status but wrote no verdict")
						rep.mu.Unlock()
					}
					return
				}
				if ctx.Err() != nil {
					what = "did not return within 30 s"
					if c.Kind == "unpack-unwritable" {
						what = fmt.Sprintf("as uid %d (%s: the file cannot be created and chmod of the file does not cure it) did not return within 30 s; it must return a permission error", c.Uid, c.Shape)
					}
					rep.Count("outcome:timeout")
				} else {
					msg := stderr.String()
					if len(msg) > 200 {
						msg = msg[:200]
					}
					what = "crashed: " + strings.TrimSpace(strings.Split(msg, "\n")[0])
					rep.Count("outcome:crash")
				}
				small := c
				if len(small.Data) > 600 {
					small.Data = small.Data[:600]
					small.Truncated = true
				}
				rep.AddOracle(OracleFailure{Property: "C19", Lane: "robust", What: c.Kind + " " + what, Input: small, Signature: sigs[i]})
		}
		if replayIdx >= 0 {
			rep.BeginReplay()
			runCase(replayIdx)
			rep.EndReplay()
		}
		// the resource-limit cases (the longest-running ones) are started first, so that they overlap with
		// the others
		order := make([]int, 0, len(cases))
		for i := cfg.N; i < len(cases); i++ {
			order = append(order, i)
		}
		for i := 0; i < cfg.N && i < len(cases); i++ {
			order = append(order, i)
		}
		for _, i := range order {
			if i == replayIdx {
				continue
			}
			wg.Add(1)
			sem <- struct{}{}
			go func(i int) {
				defer wg.Done()
				defer func() { <-sem }()
				runCase(i)
			}(i)
		}
		wg.Wait()
	}
}

// ---------- resource-limit cases ----------

var resourceShapes = []string{"unpack-nofile", "pack-nofile", "pack-unreadable:root", "pack-unreadable:deref", "pack-nofile:deref", "pack-unreadable:sub", "pack-nofile:control",
	"unpack-unwritable:rodir", "unpack-unwritable:umask", "unpack-unwritable:rosub"}

// dropsUid: the worker of such a case runs as the case's unprivileged uid
func dropsUid(kind string) bool { return kind == "pack-unreadable" || kind == "unpack-unwritable" }

// unwritableEntries: a small archive of regular files (and directories); the first entry that cannot be
// created is a regular file at want (so that the failing call is the file creation, not a MkdirAll).
func unwritableEntries(r *Rng, want string) []UEntry {
	es := []UEntry{{Name: want, Typ: tar.TypeReg, Mode: int64([]int{0644, 0600, 0444}[r.Intn(3)]), Mtime: 1400000000, Body: r.Pick([]string{"", "x", "content"})}}
	for i, n := 0, r.Intn(3); i < n; i++ {
		es = append(es, UEntry{Name: fmt.Sprintf("%s%d", r.Pick([]string{"b", "g/h", "z"}), i), Typ: tar.TypeReg, Mode: 0644, Mtime: 1400000001 + int64(i), Body: "later"})
	}
	return es
}

// plainTree: a small source tree of regular files and directories below p/src (what a complete slug must
// list is packExpect), next to an outside directory p/ext/shared for the dereference shapes.
func plainTree(r *Rng) []PNode {
	nodes := []PNode{
		{Path: "p", Kind: "d", Perm: 0755, Mtime: 1300000000e9},
		{Path: "p/src", Kind: "d", Perm: 0755, Mtime: 1300000001e9},
		{Path: "p/src/a.tf", Kind: "f", Perm: 0644, Mtime: 1400000000e9, Data: "a"},
		{Path: "p/src/sub", Kind: "d", Perm: 0755, Mtime: 1400000001e9},
		{Path: "p/src/sub/b.tf", Kind: "f", Perm: 0600, Mtime: 1400000002e9, Data: "b"},
		{Path: "p/ext", Kind: "d", Perm: 0755, Mtime: 1300000002e9},
		{Path: "p/ext/shared", Kind: "d", Perm: 0755, Mtime: 1300000003e9},
		{Path: "p/ext/shared/shared.tf", Kind: "f", Perm: 0644, Mtime: 1300000004e9, Data: "shared"},
	}
	for i, n := 0, r.Intn(4); i < n; i++ {
		nodes = append(nodes, PNode{Path: fmt.Sprintf("p/src/sub/deep%d", i), Kind: "d", Perm: 0755, Mtime: 1400000003e9},
			PNode{Path: fmt.Sprintf("p/src/sub/deep%d/c.tf", i), Kind: "f", Perm: 0644, Mtime: 1400000004e9, Data: "c"})
	}
	return nodes
}

func setPerm(nodes []PNode, path string, perm uint32) {
	for k := range nodes {
		if nodes[k].Path == path {
			nodes[k].Perm = perm
		}
	}
}

func genResourceCase(r *Rng, k int) RCase {
	switch shape := resourceShapes[k%len(resourceShapes)]; shape {
	case "unpack-nofile":
		// more regular files than the limit leaves descriptors for, were they all kept open
		// (kept small: the worker's own descriptors are fewer than ten, a correct Unpack needs one more)
		return RCase{Kind: "unpack-nofile", Files: 48 + r.Intn(32), Limit: 24 + 8*r.Intn(2)}
	case "pack-nofile":
		return RCase{Kind: "pack-nofile", Nodes: plainTree(r), Limit: r.Intn(4)}
	case "pack-nofile:deref":
		c := RCase{Kind: "pack-nofile", Nodes: plainTree(r), Limit: r.Intn(4), Deref: true}
		c.Nodes = append(c.Nodes, PNode{Path: "p/src/shared", Kind: "l", Data: "../ext/shared"})
		return c
	case "pack-nofile:control":
		// descriptors to spare: Pack succeeds, and the completeness check itself is exercised on every run
		c := RCase{Kind: "pack-nofile", Nodes: plainTree(r), Limit: 24 + 8*r.Intn(2), Deref: true}
		c.Nodes = append(c.Nodes, PNode{Path: "p/src/shared", Kind: "l", Data: "../ext/shared"})
		return c
	case "unpack-unwritable:rodir":
		// a read-only destination, any archive with a regular file at the top
		return RCase{Kind: "unpack-unwritable", Shape: "rodir", Uid: 65534, DirMode: uint32([]int{0555, 0500, 0511}[r.Intn(3)]), Entries: unwritableEntries(r, r.Pick([]string{"a", "main.tf"}))}
	case "unpack-unwritable:umask":
		// a umask without owner-write: the directory Unpack makes for d/f is read-only
		return RCase{Kind: "unpack-unwritable", Shape: "umask", Uid: 65534, Umask: r.Pick([]string{"222", "222", "277", "322"}), Entries: unwritableEntries(r, r.Pick([]string{"d/f", "d/e/f", "mod/main.tf"}))}
	case "unpack-unwritable:rosub":
		// a read-only directory that is already in dst
		sub := r.Pick([]string{"d", "d/e", "mod"})
		return RCase{Kind: "unpack-unwritable", Shape: "rosub", Uid: 65534, Sub: sub, DirMode: uint32([]int{0555, 0500}[r.Intn(2)]), Entries: unwritableEntries(r, sub+"/"+r.Pick([]string{"f", "main.tf"}))}
	case "pack-unreadable:root":
		c := RCase{Kind: "pack-unreadable", Nodes: plainTree(r), Uid: 65534, Deref: r.Bool()}
		setPerm(c.Nodes, "p/src", 0300)
		return c
	case "pack-unreadable:deref":
		c := RCase{Kind: "pack-unreadable", Nodes: plainTree(r), Uid: 65534, Deref: true}
		c.Nodes = append(c.Nodes, PNode{Path: "p/src/shared", Kind: "l", Data: "../ext/shared"})
		setPerm(c.Nodes, "p/ext/shared", 0300)
		return c
	default: // a directory below the root that cannot be read
		c := RCase{Kind: "pack-unreadable", Nodes: plainTree(r), Uid: 65534}
		setPerm(c.Nodes, "p/src/sub", 0300)
		return c
	}
}

// othersCanReach: every ancestor of dir (and dir) has the search bit for others
func othersCanReach(dir string) bool {
	for p := filepath.Clean(dir); ; p = filepath.Dir(p) {
		fi, err := os.Stat(p)
		if err != nil || fi.Mode().Perm()&0001 == 0 {
			return false
		}
		if p == "/" || p == "." {
			return true
		}
	}
}

// unsafeRCase: a replayed case must stay inside its scratch directory ("" = accepted). Cases that carry raw
// archive or manifest bytes are not replayed (their content is not checked here, and reports shorten it).
func unsafeRCase(c *RCase) string {
	switch c.Kind {
	case "pack", "pack-nofile", "pack-unreadable":
		if len(c.Nodes) == 0 {
			return "the recorded input has no tree"
		}
		if c.Kind == "pack-unreadable" && c.Uid <= 0 {
			return "the recorded input names no unprivileged uid"
		}
		return unsafePNodes(c.Nodes, nil)
	case "unpack-nofile":
		if c.Files <= 0 || c.Files > 5000 || c.Limit < 16 {
			return "file count / descriptor limit out of range"
		}
		return ""
	case "unpack-unwritable":
		if c.Uid <= 0 {
			return "the recorded input names no unprivileged uid"
		}
		if len(c.Entries) == 0 || len(c.Entries) > 64 {
			return "the recorded input has no (or too large an) entry list"
		}
		for _, e := range c.Entries {
			// plain files and directories below dst only: no links, no climbing or absolute names
			if e.Typ != tar.TypeReg && e.Typ != tar.TypeDir {
				return fmt.Sprintf("entry %q: only regular files and directories are replayed in this kind", e.Name)
			}
			if why := unsafeRelName(e.Name, false); why != "" {
				return "entry name: " + why
			}
		}
		switch c.Shape {
		case "rodir":
		case "rosub":
			if why := unsafeRelName(c.Sub, false); why != "" || c.Sub == "" {
				return "sub-directory: not a plain relative path"
			}
		case "umask":
			if v, err := strconv.ParseUint(c.Umask, 8, 12); err != nil || v > 0777 {
				return "umask is not an octal number 0..777"
			}
		default:
			return fmt.Sprintf("unknown shape %q", c.Shape)
		}
		if c.DirMode > 0777 {
			return "directory mode out of range"
		}
		return ""
	case "parse":
		return ""
	}
	return fmt.Sprintf("cases of kind %q carry raw bytes and are not replayed", c.Kind)
}

func mustGunzip(data []byte) []byte {
	es, err := decodeTar(data)
	_ = es
	_ = err
	var buf bytes.Buffer
	tw := tar.NewWriter(&buf)
	for _, e := range es {
		h := &tar.Header{Name: e.Name, Typeflag: e.Typ, Linkname: e.Link, Mode: e.Mode, ModTime: time.Unix(e.Mtime, 0), Size: int64(len(e.Body))}
		if tw.WriteHeader(h) == nil {
			tw.Write([]byte(e.Body))
		}
	}
	tw.Close()
	return buf.Bytes()
}

// repairTar recomputes the header checksum of every 512-byte block that looks like a header, so
// that mutated fields are actually looked at by the reader
func repairTar(raw []byte) []byte {
	for off := 0; off+512 <= len(raw); off += 512 {
		blk := raw[off : off+512]
		if string(blk[257:262]) != "ustar" {
			continue
		}
		for i := 148; i < 156; i++ {
			blk[i] = ' '
		}
		var sum int
		for _, b := range blk {
			sum += int(b)
		}
		copy(blk[148:156], []byte(fmt.Sprintf("%06o\x00 ", sum)))
	}
	return raw
}
