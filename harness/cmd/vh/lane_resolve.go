package main

import (
	"github.com/apparentlymart/go-versions/versions"
	"fmt"
	"strings"
	"unicode/utf8"

	"github.com/hashicorp/go-slug/sourceaddrs"
)

// resolve lane (C11): ResolveRelativeSource / ResolveRelativeFinalSource / FinalSourceAddr
// against the model's resolveRelative and against a segment-stack reference (oracle).

func encFinal(a sourceaddrs.FinalSource) string {
	switch v := a.(type) {
	case sourceaddrs.LocalSource:
		return "loc " + X(v.RelativePath())
	case sourceaddrs.RemoteSource:
		return "remote " + X(v.Package().String()) + " " + X(v.SubPath())
	case sourceaddrs.RegistrySourceFinal:
		return "registryfinal " + X(v.Package().String()) + " " + X(v.SelectedVersion().String()) + " " + X(v.SubPath())
	}
	return "unknown"
}

func encSource(a sourceaddrs.Source) string {
	switch v := a.(type) {
	case sourceaddrs.LocalSource:
		return "loc " + X(v.RelativePath())
	case sourceaddrs.RemoteSource:
		return "remote " + X(v.Package().String()) + " " + X(v.SubPath())
	case sourceaddrs.RegistrySource:
		return "registry " + X(v.Package().String()) + " " + X(v.SubPath())
	}
	return "unknown"
}

// segment-stack reference (second implementation of Spec/SubPath): returns ok=false on underflow
func refApply(baseSub, rel string) (string, bool) {
	var st []string
	if baseSub != "" {
		st = strings.Split(baseSub, "/")
	}
	for _, s := range strings.Split(rel, "/") {
		switch s {
		case "", ".":
		case "..":
			if len(st) == 0 {
				return "", false
			}
			st = st[:len(st)-1]
		default:
			st = append(st, s)
		}
	}
	return strings.Join(st, "/"), true
}

func canonicalRel(ups int, names []string) string {
	if ups == 0 {
		if len(names) == 0 {
			return "./"
		}
		return "./" + strings.Join(names, "/")
	}
	s := strings.Repeat("../", ups)
	if len(names) == 0 {
		if ups == 1 {
			return "../"
		}
		return strings.TrimSuffix(s, "/")
	}
	return s + strings.Join(names, "/")
}

func init() {
	lanes["resolve"] = func(cfg *Config, rep *Report) {
		rep.Rule = "bases of every kind (remote, registry, final registry, local) with sub-paths of depth 0..4 x canonical relative paths (0..5 '..' then 0..3 names over {a,b,c2}) enumerated exhaustively, final registry bases also with pre-release / build-metadata versions (final resolver; version and package must come back as the base has them), plus random longer ones and (base, rel1, rel2) triples for composition; oracle only (outside the model): bases of every non-local kind whose sub-path has a segment that is not valid UTF-8 (Latin-1 name, lone 0xff, truncated sequence, overlong encoding; depth 1..3) x 9 relative paths through both parsers and resolvers - refused at parse time or judged by the segment stack; non-trivial = rel contains '..' or base has a sub-path; distinct by (base, rel[, rel2])"
		r := NewRng(cfg.Seed)
		var reqs, impl []string
		var human []interface{}
		// names beginning with a dot look like the start of "./" or "../" to a careless prefix test (seed C11-d)
		names := []string{"a", "b", "c2", ".github", "..cache"}
		subs := []string{"", "a", "a/b", "b/a/c2", "a/b/c2/a"}
		var bases []string
		for _, s := range subs {
			suf := ""
			if s != "" {
				suf = "//" + s
			}
			bases = append(bases,
				"git::https://example.com/foo.git"+suf,
				"https://example.com/foo.tar.gz"+suf+"?x=y",
				"example.com/foo/bar/baz"+suf,
				"foo/bar/baz"+suf)
			if s == "" {
				bases = append(bases, "./", "../")
			} else {
				bases = append(bases, "./"+s, "../"+s, "../../"+s)
			}
		}
		// final registry bases whose selected version carries a pre-release and/or build metadata: only the
		// final resolver takes them (seed C11-f: the version must come back exactly as the base has it)
		var finalBases []string
		for _, s := range []string{"", "a/b/c2"} {
			suf := ""
			if s != "" {
				suf = "//" + s
			}
			finalBases = append(finalBases,
				"example.com/foo/bar/baz@1.2.3+build.7"+suf,
				"foo/bar/baz@2.0.0-beta.1+exp.sha.5114f85"+suf,
				"example.com/foo/bar/baz@2.3.4-rc.1"+suf)
		}
		var rels []string
		for ups := 0; ups <= 5; ups++ {
			var rec func(pre []string, d int)
			rec = func(pre []string, d int) {
				rels = append(rels, canonicalRel(ups, pre))
				if d == 0 {
					return
				}
				for _, n := range names {
					rec(append(append([]string{}, pre...), n), d-1)
				}
			}
			rec(nil, 2)
		}
		// random longer ones
		for i := 0; i < cfg.N/50; i++ {
			var ns []string
			for j := 0; j < 3+r.Intn(4); j++ {
				ns = append(ns, r.Pick(names))
			}
			rels = append(rels, canonicalRel(r.Intn(7), ns))
		}
		// quiet: a replayed pair that does not parse is skipped, not reported as a generator defect
		quiet := false
		check := func(baseStr, relStr string, final bool) (sourceaddrs.Source, bool) {
			var a sourceaddrs.Source
			var af sourceaddrs.FinalSource
			var err error
			// a pair with bytes that are not valid UTF-8 is outside the model's domain (Lean strings are
			// Unicode): no request goes to the model, the oracles alone judge. The parsers are expected to
			// refuse such a base (the sub-path definition is io/fs.ValidPath); where one is accepted, the
			// segment stack applies as for any other base (seed C11-g)
			oracleOnly := !utf8.ValidString(baseStr) || !utf8.ValidString(relStr)
			if final {
				fs := baseStr
				if !strings.HasPrefix(fs, ".") && !strings.Contains(fs, "::") && !strings.Contains(fs, "://") && !strings.Contains(fs, "@") {
					pkg, sub, _ := strings.Cut(fs, "//")
					fs = pkg + "@1.2.3"
					if sub != "" {
						fs += "//" + sub
					}
				}
				af, err = sourceaddrs.ParseFinalSource(fs)
				baseStr = fs
			} else {
				a, err = sourceaddrs.ParseSource(baseStr)
			}
			if err != nil {
				if oracleOnly {
					rep.Count("oracle-only:not-utf8-base-refused")
				} else if !quiet {
					rep.Broken = append(rep.Broken, fmt.Sprintf("generator: base %q does not parse: %v", baseStr, err))
				}
				return nil, false
			}
			if oracleOnly {
				rep.Count("oracle-only:not-utf8-base-accepted")
			}
			b, err := sourceaddrs.ParseLocalSource(relStr)
			if err != nil {
				if !quiet {
					rep.Broken = append(rep.Broken, fmt.Sprintf("generator: rel %q does not parse: %v", relStr, err))
				}
				return nil, false
			}
			// what an oracle failure records: the pair and the route (enough to replay it)
			var recIn interface{} = []string{baseStr, relStr, fmt.Sprintf("final=%v", final)}
			if oracleOnly {
				// JSON cannot carry the bytes: the exact strings go in hex next to a readable rendering
				recIn = map[string]interface{}{"base_hex": X(baseStr), "rel_hex": X(relStr), "base": fmt.Sprintf("%q", baseStr), "rel": fmt.Sprintf("%q", relStr), "final": final, "oracle_only": true}
			}
			var aEnc, resEnc, baseSub, resSub string
			var isLocal, gotErr bool
			var res sourceaddrs.Source
			if final {
				aEnc = encFinal(af)
				rf, err := sourceaddrs.ResolveRelativeFinalSource(af, b)
				switch v := af.(type) {
				case sourceaddrs.LocalSource:
					isLocal = true
				case sourceaddrs.RemoteSource:
					baseSub = v.SubPath()
				case sourceaddrs.RegistrySourceFinal:
					baseSub = v.SubPath()
				}
				if err != nil {
					gotErr = true
					resEnc = "err"
				} else {
					resEnc = encFinal(rf)
					switch v := rf.(type) {
					case sourceaddrs.RemoteSource:
						resSub = v.SubPath()
					case sourceaddrs.RegistrySourceFinal:
						resSub = v.SubPath()
					}
					// same kind / package / version (oracle)
					if fmt.Sprintf("%T", rf) != fmt.Sprintf("%T", af) {
						rep.AddOracle(OracleFailure{Property: "C11", Lane: "resolve", What: "result kind differs from base kind", Input: recIn})
					} else {
						switch bv := af.(type) {
						case sourceaddrs.RemoteSource:
							if rv := rf.(sourceaddrs.RemoteSource); rv.Package() != bv.Package() {
								rep.AddOracle(OracleFailure{Property: "C11", Lane: "resolve", What: fmt.Sprintf("package changed by relative resolution of a final source: %s, base has %s", rv.Package(), bv.Package()), Input: recIn})
							}
						case sourceaddrs.RegistrySourceFinal:
							rv := rf.(sourceaddrs.RegistrySourceFinal)
							if rv.Package() != bv.Package() {
								rep.AddOracle(OracleFailure{Property: "C11", Lane: "resolve", What: fmt.Sprintf("package changed by relative resolution of a final registry source: %s, base has %s", rv.Package(), bv.Package()), Input: recIn})
							}
							if rv.SelectedVersion() != bv.SelectedVersion() || rv.SelectedVersion().String() != bv.SelectedVersion().String() {
								rep.AddOracle(OracleFailure{Property: "C11", Lane: "resolve", What: fmt.Sprintf("selected version changed by relative resolution of a final registry source: result %s has version %s, base %s has version %s", rv, rv.SelectedVersion(), bv, bv.SelectedVersion()), Input: recIn})
							}
						}
					}
				}
			} else {
				aEnc = encSource(a)
				rs, err := sourceaddrs.ResolveRelativeSource(a, b)
				switch v := a.(type) {
				case sourceaddrs.LocalSource:
					isLocal = true
				case sourceaddrs.RemoteSource:
					baseSub = v.SubPath()
				case sourceaddrs.RegistrySource:
					baseSub = v.SubPath()
				}
				if err != nil {
					gotErr = true
					resEnc = "err"
				} else {
					res = rs
					resEnc = encSource(rs)
					switch v := rs.(type) {
					case sourceaddrs.RemoteSource:
						resSub = v.SubPath()
						if v.Package() != a.(sourceaddrs.RemoteSource).Package() {
							rep.AddOracle(OracleFailure{Property: "C11", Lane: "resolve", What: "package changed by relative resolution", Input: recIn})
						}
					case sourceaddrs.RegistrySource:
						resSub = v.SubPath()
						if v.Package() != a.(sourceaddrs.RegistrySource).Package() {
							rep.AddOracle(OracleFailure{Property: "C11", Lane: "resolve", What: "package changed by relative resolution", Input: recIn})
						}
					}
					if fmt.Sprintf("%T", rs) != fmt.Sprintf("%T", a) {
						rep.AddOracle(OracleFailure{Property: "C11", Lane: "resolve", What: "result kind differs from base kind", Input: recIn})
					}
				}
			}
			line := "resolve " + aEnc + " | loc " + X(relStr)
			if !oracleOnly {
				reqs = append(reqs, line)
				impl = append(impl, resEnc)
				human = append(human, map[string]interface{}{"base": baseStr, "rel": relStr, "final": final})
			}
			rep.Case(line, strings.Contains(relStr, "..") || baseSub != "", map[string]interface{}{"base": baseStr, "rel": relStr, "result": resEnc})
			if !isLocal {
				want, ok := refApply(baseSub, relStr)
				if ok == gotErr {
					note := ""
					if oracleOnly {
						note = fmt.Sprintf(": base %q is accepted with the sub-path %q, which is not valid UTF-8, and resolving %s from it is refused although the result %q stays inside the package", baseStr, baseSub, relStr, want)
					}
					rep.AddOracle(OracleFailure{Property: "C11", Lane: "resolve", What: fmt.Sprintf("error/ok mismatch with segment stack (stack ok=%v, code err=%v)%s", ok, gotErr, note), Input: recIn})
				} else if ok && want != resSub {
					rep.AddOracle(OracleFailure{Property: "C11", Lane: "resolve", What: fmt.Sprintf("sub-path %q, segment stack says %q", resSub, want), Input: recIn})
				}
				if gotErr {
					rep.Count("outcome:escape-error")
				} else {
					rep.Count("outcome:ok")
				}
			} else {
				rep.Count("outcome:local-base")
				// local base: the same segment stack with an unbounded number of leading ".." (seed C11-c)
				ups, names := 0, []string{}
				for _, part := range []string{baseStr, relStr} {
					for _, sg := range strings.Split(part, "/") {
						switch sg {
						case "", ".":
						case "..":
							if len(names) > 0 {
								names = names[:len(names)-1]
							} else {
								ups++
							}
						default:
							names = append(names, sg)
						}
					}
				}
				if want := "loc " + X(canonicalRel(ups, names)); gotErr || resEnc != want {
					rep.AddOracle(OracleFailure{Property: "C11", Lane: "resolve", What: fmt.Sprintf("local base: result %s (err=%v), the segment stack says %q", resEnc, gotErr, canonicalRel(ups, names)), Input: recIn})
				}
			}
			return res, !gotErr
		}
		// absolute second argument is returned unchanged
		checkAbs := func(b, abs string) {
			{
				a, aerr := sourceaddrs.ParseSource(b)
				c, cerr := sourceaddrs.ParseSource(abs)
				if quiet && (aerr != nil || cerr != nil) {
					return
				}
				got, err := sourceaddrs.ResolveRelativeSource(a, c)
				if err != nil || got != c {
					rep.AddOracle(OracleFailure{Property: "C11", Lane: "resolve", What: "absolute second argument not returned unchanged", Input: []string{b, abs}})
				}
				line := "resolve " + encSource(a) + " | " + encSource(c)
				reqs = append(reqs, line)
				if err != nil {
					impl = append(impl, "err")
				} else {
					impl = append(impl, encSource(got))
				}
				human = append(human, map[string]interface{}{"base": b, "abs": abs})
				rep.Case(line, true, nil)
				rep.Count("outcome:abs-unchanged")
			}
		}
		// composition: resolve(resolve(a,b),c) == resolve(a, resolve(b,c)) on non-local bases
		compose := func(bs, r1, r2 string) {
			{
			a, e0 := sourceaddrs.ParseSource(bs)
			b1, e1 := sourceaddrs.ParseLocalSource(r1)
			b2, e2 := sourceaddrs.ParseLocalSource(r2)
			if quiet && (e0 != nil || e1 != nil || e2 != nil) {
				return
			}
			ab, err1 := sourceaddrs.ResolveRelativeSource(a, b1)
			var abc sourceaddrs.Source
			var err2 error
			if err1 == nil {
				abc, err2 = sourceaddrs.ResolveRelativeSource(ab, b2)
			}
			bc, _ := sourceaddrs.ResolveRelativeSource(b1, b2)
			abc2, err3 := sourceaddrs.ResolveRelativeSource(a, bc)
			rep.Case("compose "+bs+" "+r1+" "+r2, true, nil)
			rep.Count("outcome:compose")
			// Stepwise resolution fails as soon as an intermediate result escapes; the one-shot join may
			// pass through. Where both succeed they must agree, and a stepwise success implies one-shot success.
			if err1 == nil && err2 == nil {
				if err3 != nil || abc != abc2 {
					rep.AddOracle(OracleFailure{Property: "C11", Lane: "resolve", What: "successive resolutions do not compose", Input: []string{bs, r1, r2}})
				}
			}
			}
		}
		// registry sub-path joining (FinalSourceAddr)
		// sub-paths may hold characters a LOCAL address may not (':' and '\\'): the join must not go
		// through the local-address parser (seed C11-e)
		joinSubs := append(append([]string{}, subs...), "mods/v1:2", "a\\b/c", "x:y", "..data/v2", ".hidden")
		join := func(regStr, realStr, s1, s2 string) {
			{
				reg, e1 := sourceaddrs.ParseRegistrySource(regStr)
				real, e2 := sourceaddrs.ParseRemoteSource(realStr)
				if quiet {
					if e1 != nil || e2 != nil {
						return
					}
					s1, s2 = reg.SubPath(), real.SubPath()
				}
				got := reg.FinalSourceAddr(real)
				if v, verr := versions.ParseVersion("1.2.3"); verr == nil {
					if got2 := reg.Versioned(v).FinalSourceAddr(real); got2 != got {
						rep.AddOracle(OracleFailure{Property: "C11", Lane: "resolve", What: "RegistrySourceFinal.FinalSourceAddr differs from RegistrySource.FinalSourceAddr", Input: []string{regStr, realStr}})
					}
				}
				want := strings.Trim(s2+"/"+s1, "/")
				if got.SubPath() != want || got.Package() != real.Package() {
					rep.AddOracle(OracleFailure{Property: "C11", Lane: "resolve", What: "registry sub-path join differs from concatenation", Input: []string{regStr, realStr}})
				}
				line := "addr finalsub " + X(s1) + " " + X(s2)
				reqs = append(reqs, line)
				impl = append(impl, X(got.SubPath()))
				human = append(human, map[string]interface{}{"registry": regStr, "real": realStr})
				rep.Case(line, s1 != "" && s2 != "", nil)
				rep.Count("outcome:registry-join")
			}
		}
		// ---- exact replay (-case): the recorded pair / triple goes first through the same checks ----
		{
			var arr []string
			var m struct {
				Base     *string `json:"base"`
				Rel      *string `json:"rel"`
				Final    *bool   `json:"final"`
				Abs      *string `json:"abs"`
				Registry *string `json:"registry"`
				Real     *string `json:"real"`
				BaseHex  *string `json:"base_hex"`
				RelHex   *string `json:"rel_hex"`
			}
			isRel := func(x string) bool { _, err := sourceaddrs.ParseLocalSource(x); return err == nil }
			ran := true
			s0 := len(reqs)
			ev0 := rep.Evaluations // (an oracle-only pair is evaluated without a model request)
			quiet = true
			if loadReplayInput(cfg, "resolve", &arr) && len(arr) >= 2 {
				rep.BeginReplay()
				switch {
				case len(arr) == 3 && strings.HasPrefix(arr[2], "final="):
					check(arr[0], arr[1], arr[2] == "final=true")
				case len(arr) == 3:
					compose(arr[0], arr[1], arr[2])
				case isRel(arr[1]):
					// an older record without the route: both routes
					check(arr[0], arr[1], false)
					check(arr[0], arr[1], true)
				default:
					checkAbs(arr[0], arr[1])
					join(arr[0], arr[1], "", "")
				}
			} else if loadReplayInput(cfg, "resolve", &m) && (m.Base != nil || m.Registry != nil || m.BaseHex != nil) {
				rep.BeginReplay()
				// the exact bytes of strings that are not valid UTF-8 (the readable rendering is quoted)
				if m.BaseHex != nil && m.RelHex != nil {
					if bs, ok := UnX(*m.BaseHex); ok {
						if rl, ok := UnX(*m.RelHex); ok {
							m.Base, m.Rel = &bs, &rl
						}
					}
				}
				switch {
				case m.Base != nil && m.Rel != nil:
					check(*m.Base, *m.Rel, m.Final != nil && *m.Final)
				case m.Base != nil && m.Abs != nil:
					checkAbs(*m.Base, *m.Abs)
				case m.Registry != nil && m.Real != nil:
					join(*m.Registry, *m.Real, "", "")
				}
			} else {
				ran = false
				replayMissing(cfg, rep, "resolve")
			}
			quiet = false
			if ran {
				rep.EndReplay(reqs[s0:]...)
				if len(reqs) == s0 && rep.Evaluations == ev0 {
					rep.Replayed.Note = "the recorded strings are not accepted by the parsers on this tree: nothing to resolve"
				}
			}
		}
		for _, b := range bases {
			for _, rel := range rels {
				check(b, rel, false)
				check(b, rel, true)
			}
		}
		// oracle only: bases of every non-local kind whose sub-path has a segment that is not valid UTF-8
		// (a Latin-1 encoded name, a lone 0xff, a truncated two-byte sequence, an overlong encoding of '/'),
		// at depth 1..3, through both parsers and both resolvers
		for _, bad := range []string{"caf\xe9", "mod\xff", "\xc3", "\xc0\xaf"} {
			for _, sub := range []string{bad, "a/" + bad, bad + "/b", "a/" + bad + "/c2"} {
				for _, b := range []string{"git::https://example.com/foo.git//" + sub, "https://example.com/foo.tar.gz//" + sub + "?x=y", "example.com/foo/bar/baz//" + sub, "foo/bar/baz//" + sub} {
					for _, rel := range []string{"./", "./child", "../sibling", "../", "./a/b", "../../x", "../../../x", "./.hidden/y", "../../../../.."} {
						check(b, rel, false)
						check(b, rel, true)
					}
				}
			}
		}
		for _, b := range finalBases {
			for _, rel := range rels {
				check(b, rel, true)
			}
		}
		// absolute second argument is returned unchanged
		for _, b := range bases {
			for _, abs := range bases {
				if strings.HasPrefix(abs, ".") {
					continue
				}
				checkAbs(b, abs)
			}
		}
		ntrip := cfg.N
		for i := 0; i < ntrip; i++ {
			bs := bases[r.Intn(len(bases))]
			if strings.HasPrefix(bs, ".") {
				continue
			}
			r1 := rels[r.Intn(len(rels))]
			r2 := rels[r.Intn(len(rels))]
			compose(bs, r1, r2)
		}
		for _, s1 := range joinSubs {
			for _, s2 := range joinSubs {
				regStr := "example.com/foo/bar/baz"
				if s1 != "" {
					regStr += "//" + s1
				}
				realStr := "git::https://example.com/foo.git"
				if s2 != "" {
					realStr += "//" + s2
				}
				join(regStr, realStr, s1, s2)
			}
		}
		rep.Exhaustive = true
		rep.Compare(cfg.Driver, reqs, impl, human)
	}
}
