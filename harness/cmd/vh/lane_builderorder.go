package main

import (
	"context"
	"fmt"
	"os"
	"path/filepath"
	"sort"
	"strings"
	"sync"

	"github.com/apparentlymart/go-versions/versions"
	"github.com/hashicorp/go-slug/sourcebundle"
)

// builder-order lane (C13): the same world built with every permutation of the Add calls
// (exhaustive up to 4 calls, sampled beyond) and with the Add calls issued concurrently on one
// builder; manifest bytes, ChecksumV1 and the directory listing of the target must not depend on
// the order or the interleaving. Every permutation is also compared with the model.

type bundleFingerprint struct {
	manifest string
	checksum string
	listing  string
	// lookups: the answers of the bundle's lookups for everything the world mentions, local paths relative
	// to the target directory
	lookups string
}

// lookupAnswers: what the bundle answers for every registry package and listed version of the world
// (location for two caller sub-paths, recorded source address, deprecation note, the version list) and for
// every remote package, local paths taken relative to target. A function of the bundle's content only.
func lookupAnswers(b *sourcebundle.Bundle, target string, w *BWorld) string {
	if b == nil {
		return ""
	}
	rel := func(lp string, err error) string {
		if err != nil {
			return "-"
		}
		r, rerr := filepath.Rel(target, lp)
		if rerr != nil {
			return lp
		}
		return r
	}
	var out []string
	for _, rg := range w.Regs {
		pkg := mustRegistry(rg.Addr, "").Package()
		var listed []string
		for _, v := range b.RegistryPackageVersions(pkg) {
			listed = append(listed, v.String())
		}
		sort.Strings(listed)
		out = append(out, fmt.Sprintf("RegistryPackageVersions(%s) = [%s]", rg.Addr, strings.Join(listed, " ")))
		for _, bv := range rg.Versions {
			v := versions.MustParseVersion(bv.Ver)
			for _, sub := range []string{"", "k"} {
				lp, err := b.LocalPathForRegistrySource(mustRegistry(rg.Addr, sub), v)
				out = append(out, fmt.Sprintf("LocalPathForRegistrySource(%s, %s) = %s", mustRegistry(rg.Addr, sub), bv.Ver, rel(lp, err)))
			}
			if src, ok := b.RegistryPackageSourceAddr(pkg, v); ok {
				out = append(out, fmt.Sprintf("RegistryPackageSourceAddr(%s, %s) = %s", rg.Addr, bv.Ver, src))
			} else {
				out = append(out, fmt.Sprintf("RegistryPackageSourceAddr(%s, %s) = -", rg.Addr, bv.Ver))
			}
			if d := b.RegistryPackageVersionDeprecation(pkg, v); d != nil {
				out = append(out, fmt.Sprintf("RegistryPackageVersionDeprecation(%s, %s) = (%q, %q)", rg.Addr, bv.Ver, d.Reason, d.Link))
			} else {
				out = append(out, fmt.Sprintf("RegistryPackageVersionDeprecation(%s, %s) = -", rg.Addr, bv.Ver))
			}
		}
	}
	for _, p := range w.Pkgs {
		lp, err := b.LocalPathForRemoteSource(w.remote(p.Addr, "m"))
		out = append(out, fmt.Sprintf("LocalPathForRemoteSource(%s) = %s", w.remote(p.Addr, "m"), rel(lp, err)))
	}
	return strings.Join(out, "\n")
}

// firstLookupDiff: the first lookup two renderings of lookupAnswers answer differently
func firstLookupDiff(a, b string) string {
	al, bl := strings.Split(a, "\n"), strings.Split(b, "\n")
	for i := range al {
		if i >= len(bl) {
			return al[i] + " / (missing)"
		}
		if al[i] != bl[i] {
			return al[i] + " / " + bl[i]
		}
	}
	return ""
}

func fingerprint(target string, b *sourcebundle.Bundle, w *BWorld) bundleFingerprint {
	var fp bundleFingerprint
	fp.lookups = lookupAnswers(b, target, w)
	m, _ := os.ReadFile(filepath.Join(target, "terraform-sources.json"))
	fp.manifest = string(m)
	if b != nil {
		fp.checksum, _ = b.ChecksumV1()
	}
	var names []string
	filepath.Walk(target, func(p string, info os.FileInfo, err error) error {
		if err == nil {
			rel, _ := filepath.Rel(target, p)
			names = append(names, rel)
		}
		return nil
	})
	sort.Strings(names)
	fp.listing = strings.Join(names, "\n")
	return fp
}

func permutations(n int, limit int, r *Rng) [][]int {
	var out [][]int
	if n <= 4 {
		var rec func(cur []int, used []bool)
		rec = func(cur []int, used []bool) {
			if len(cur) == n {
				out = append(out, append([]int{}, cur...))
				return
			}
			for i := 0; i < n; i++ {
				if !used[i] {
					used[i] = true
					rec(append(cur, i), used)
					used[i] = false
				}
			}
		}
		rec(nil, make([]bool, n))
		return out
	}
	for k := 0; k < limit; k++ {
		p := make([]int, n)
		for i := range p {
			p[i] = i
		}
		for i := n - 1; i > 0; i-- {
			j := r.Intn(i + 1)
			p[i], p[j] = p[j], p[i]
		}
		out = append(out, p)
	}
	return out
}

// concurrent build: all Add calls at once on one builder
func runConcurrent(w *BWorld, ops []BOp, target string, env *bEnv) (*sourcebundle.Bundle, bool, error) {
	env.yield = true
	b, err := sourcebundle.NewBuilder(target, env, env)
	if err != nil {
		return nil, false, err
	}
	ctx := env.tracer().OnContext(context.Background())
	var wg sync.WaitGroup
	var mu sync.Mutex
	anyErr := false
	for _, op := range ops {
		wg.Add(1)
		go func(op BOp) {
			defer wg.Done()
			defer func() {
				if x := recover(); x != nil {
					mu.Lock()
					anyErr = true
					mu.Unlock()
				}
			}()
			var ds sourcebundle.Diagnostics
			switch op.Kind {
			case "ar":
				ds = b.AddRemoteSource(ctx, w.remoteAs(op.Pkg, op.Sub, op.Canon), env.finders[op.Finder])
			case "ag":
				ds = b.AddRegistrySource(ctx, mustRegistry(op.Pkg, op.Sub), allowedSet(op.Allowed), env.finders[op.Finder])
			case "af":
				ds = b.AddFinalRegistrySource(ctx, finalOf(op), env.finders[op.Finder])
			}
			if ds.HasErrors() {
				mu.Lock()
				anyErr = true
				mu.Unlock()
			}
		}(op)
	}
	wg.Wait()
	if anyErr {
		return nil, true, nil
	}
	bundle, err := b.Close()
	return bundle, false, err
}

func init() {
	lanes["builder-order"] = func(cfg *Config, rep *Report) {
		rep.Rule = "error-free scripted worlds with 2..5 Add calls: every permutation of the calls (exhaustive up to 4, 12 samples beyond) and one concurrent run (all Add calls at once on one builder, yielding callbacks); fingerprint = manifest bytes + ChecksumV1 + recursive directory listing + the answers of all registry / remote lookups relative to the target; the first build's directory is opened five more times and every opening must give the same lookup answers; a fixed corpus of worlds in which two versions differing in build metadata only are both resolved, one package version is requested with several sub-paths, versions with upper-case identifiers are pinned from text, and a package is added in two spellings of its URL; the first build's manifest has no two rows with the same source and fetches every package once; non-trivial = at least two distinct Add calls; distinct by (world, permutation)"
		r := NewRng(cfg.Seed)
		var reqs, impl []string
		var human []interface{}
		done := 0
		// runWorld takes one world through every permutation, the odd target directory and the concurrent
		// run; false = the world was not usable (a build failed)
		runWorld := func(w *BWorld, ops []BOp, pr *Rng) bool {
			c := &bCase{World: w, Ops: ops}
			perms := permutations(len(ops), 12, pr)
			var base bundleFingerprint
			ok := true
			for pi, perm := range perms {
				pops := make([]BOp, len(ops))
				for i, k := range perm {
					pops[i] = ops[k]
				}
				target := filepath.Join(cfg.Work, fmt.Sprintf("o%05d-%d", done, pi))
				os.MkdirAll(target, 0755)
				env := newEnv(w)
				run := runBuild(w, pops, target, env)
				if run.timeout || hasErrorDiag(run.results) || run.bundle == nil {
					os.RemoveAll(target)
					ok = false
					break
				}
				fp := fingerprint(target, run.bundle, w)
				if pi == 0 {
					// every package is fetched once, in whatever spellings its address reaches the builder (C14)
					for _, p := range checkTrace(env.log, true) {
						if strings.HasSuffix(p, " times") {
							rep.AddOracle(OracleFailure{Property: "C14", Lane: "builder-order", What: p, Input: c})
						}
					}
				}
				reqs = append(reqs, "builder "+w.Encode()+" "+encOps(w, pops))
				impl = append(impl, run.canon(w))
				human = append(human, map[string]interface{}{"world": w, "ops": pops})
				rep.Case(fmt.Sprintf("%p|%v", c, perm), true, map[string]interface{}{"ops": pops, "perm": perm})
				if pi == 0 {
					base = fp
					// no two manifest rows with the same source (seed C13-h: one address, two identities)
					for _, d := range manifestDuplicates(target) {
						rep.AddOracle(OracleFailure{Property: "C13", Lane: "builder-order", What: d, Input: c, ReqIdx: len(reqs)})
					}
					// the same directory opened five more times: every opening gives the same lookup answers
					// as the bundle Close returned (seed C13-g: the winner among entries sharing a table key
					// decided by map iteration order)
					for k := 0; k < 5; k++ {
						bk, err := sourcebundle.OpenDir(target)
						if err != nil {
							rep.AddOracle(OracleFailure{Property: "C13", Lane: "builder-order", What: fmt.Sprintf("the finished bundle cannot be opened again: %v", err), Input: map[string]interface{}{"world": w, "ops": ops, "perm": perm}, ReqIdx: len(reqs)})
							break
						}
						if la := lookupAnswers(bk, target, w); la != fp.lookups {
							rep.AddOracle(OracleFailure{Property: "C13", Lane: "builder-order", What: fmt.Sprintf("lookup answers differ between two openings of the same finished bundle directory (the bundle returned by Close / OpenDir call %d): %s", k+1, firstLookupDiff(fp.lookups, la)), Input: map[string]interface{}{"world": w, "ops": ops, "perm": perm}, ReqIdx: len(reqs)})
							break
						}
					}
					rep.Count("repeated-opendir")
				} else if fp != base {
					what := "manifest bytes"
					if fp.manifest == base.manifest {
						what = "checksum"
						if fp.checksum == base.checksum {
							what = "directory listing"
							if fp.listing == base.listing {
								what = "lookup answers (" + firstLookupDiff(base.lookups, fp.lookups) + ")"
							}
						}
					}
					rep.AddOracle(OracleFailure{Property: "C13", Lane: "builder-order", What: fmt.Sprintf("%s differ between Add orders %v and %v", what, perms[0], perm), Input: map[string]interface{}{"world": w, "ops": ops, "perm": perm}, ReqIdx: len(reqs)})
				}
				os.RemoveAll(target)
			}
			if !ok {
				return false
			}
			done++
			rep.Count("worlds")
			rep.Count(fmt.Sprintf("ops:%d", len(ops)))
			// the same calls into a target directory whose own path has components the ignore rules know
			// (.terraform, .git, a name a package rule mentions): the bundle must not depend on where it
			// is built (seed C13-e: rules matched against absolute paths)
			{
				odd := filepath.Join(cfg.Work, fmt.Sprintf("op%05d", done), ".terraform", ".git", "logs", "bundle")
				os.MkdirAll(odd, 0755)
				envO := newEnv(w)
				runO := runBuild(w, ops, odd, envO)
				if runO.timeout || hasErrorDiag(runO.results) || runO.bundle == nil {
					rep.AddOracle(OracleFailure{Property: "C13", Lane: "builder-order", What: "a build that succeeds elsewhere fails in a target directory below .terraform/.git/logs", Input: c})
				} else if fp := fingerprint(odd, runO.bundle, w); fp != base {
					rep.AddOracle(OracleFailure{Property: "C13", Lane: "builder-order", What: "the bundle differs when it is built in a target directory below .terraform/.git/logs", Input: c})
				}
				rep.Count("odd-target-runs")
				os.RemoveAll(filepath.Join(cfg.Work, fmt.Sprintf("op%05d", done)))
			}
			// concurrent Add calls
			target := filepath.Join(cfg.Work, fmt.Sprintf("oc%05d", done))
			os.MkdirAll(target, 0755)
			env := newEnv(w)
			b, hadErr, err := runConcurrent(w, ops, target, env)
			if hadErr || err != nil || b == nil {
				rep.AddOracle(OracleFailure{Property: "C13", Lane: "builder-order", What: fmt.Sprintf("concurrent Add calls fail on a world whose sequential builds succeed (err=%v)", err), Input: c})
			} else {
				if fp := fingerprint(target, b, w); fp != base {
					rep.AddOracle(OracleFailure{Property: "C13", Lane: "builder-order", What: "bundle built by concurrent Add calls differs from the sequential one", Input: c})
				}
				for k, n := range env.analysed {
					if n != 1 {
						rep.AddOracle(OracleFailure{Property: "C14", Lane: "builder-order", What: fmt.Sprintf("under concurrent Add calls %s was analysed %d times", k, n), Input: c})
					}
				}
				// every package is fetched once also when the Add calls overlap (seed C14-e: the lock
				// released while a download is in flight)
				fetches := map[string]int{}
				env.mu.Lock()
				for _, ev := range env.log {
					if strings.HasPrefix(ev, "fc:") {
						fetches[ev]++
					}
				}
				env.mu.Unlock()
				for k, n := range fetches {
					if n != 1 {
						a, _ := UnX(strings.TrimPrefix(k, "fc:"))
						rep.AddOracle(OracleFailure{Property: "C14", Lane: "builder-order", What: fmt.Sprintf("under concurrent Add calls package %s was fetched %d times", a, n), Input: c})
					}
				}
				rep.Count("concurrent-runs")
			}
			os.RemoveAll(target)
			return true
		}
		// exact replay (-case): the recorded world and Add calls (an oracle failure records them in the
		// original order, a difference in the permuted order it was found in: every order is run either
		// way) go first
		if rc := loadReplayedBCase(cfg, rep, "builder-order"); rc != nil {
			s0 := len(reqs)
			rep.BeginReplay()
			if !runWorld(rc.World, rc.Ops, NewRng(cfg.Seed^0x5eed)) {
				rep.Replayed.Note = "a sequential build of the recorded world fails on this tree (the lane only judges worlds whose builds succeed)"
			}
			rep.EndReplay(reqs[s0:]...)
			done = 0
		}
		// the fixed corpus (worlds in which two versions differing in build metadata only are both resolved)
		// runs with every seed, in addition to the generated worlds
		nCorpus := 0
		for _, c := range builderCorpus() {
			if runWorld(c.World, c.Ops, NewRng(cfg.Seed^0xc0)) {
				nCorpus++
				rep.Count("corpus-worlds")
			}
		}
		// (the three corpus worlds of seeds C11-h / C13-h / C17-h take the place of three generated worlds)
		extra := nCorpus
		if extra > 3 {
			extra = 3
		}
		for tries := 0; done < cfg.N+extra && tries < cfg.N*20; tries++ {
			w, ops := genBWorld(r, false)
			if len(ops) < 2 {
				continue
			}
			runWorld(w, ops, r)
		}
		rep.Compare(cfg.Driver, reqs, impl, human)
	}
}
