package main

import (
	"context"
	"fmt"
	"net/url"
	"os"
	"path/filepath"
	"sort"
	"strings"
	"sync"
	"syscall"
	"time"

	"github.com/hashicorp/go-slug/sourceaddrs"
	"github.com/hashicorp/go-slug/sourcebundle"
)

// sanitise lane (C10, C03 bundle part): one fetched package tree per build (links relative and
// absolute, in-package / to a sibling package / to the manifest name / out of the bundle, chains,
// through ignored directories; fifos; rule files), against the Lean model (Sanitise.lean) and
// the oracle that walks the finished package directory with physical link resolution.

type treeFetcher struct {
	nodes    []PNode
	workDir  string
	snapshot string // fsdump of the arena taken after the fetch (the model's input)
	arena    string
	noSnap   bool
}

func (f *treeFetcher) FetchSourcePackage(ctx context.Context, sourceType string, u *url.URL, targetDir string) (sourcebundle.FetchSourcePackageResponse, error) {
	f.workDir = targetDir
	for _, n := range f.nodes {
		p := filepath.Join(targetDir, n.Path)
		switch n.Kind {
		case "d":
			os.MkdirAll(p, 0755)
		case "f":
			os.MkdirAll(filepath.Dir(p), 0755)
			os.WriteFile(p, []byte(nodeData(n)), os.FileMode(n.Perm))
		case "l":
			os.MkdirAll(filepath.Dir(p), 0755)
			t := strings.Replace(n.Data, "@WORK@", targetDir, 1)
			t = strings.Replace(t, "@WORKBASE@", filepath.Base(targetDir), 1)
			t = strings.Replace(t, "@ARENA@", f.arena, 1)
			os.Symlink(t, p)
		case "s":
			os.MkdirAll(filepath.Dir(p), 0755)
			syscall.Mkfifo(p, 0644)
		}
	}
	if !f.noSnap {
		f.snapshot = snapshotNS(f.arena)
	}
	return sourcebundle.FetchSourcePackageResponse{}, nil
}

type noRegistry struct{ bEnv }

type nullFinder struct{}

func (nullFinder) FindDependencies(fsys interface{ Open(string) (interface{}, error) }, sub string, deps *sourcebundle.Dependencies) sourcebundle.Diagnostics {
	return nil
}

var sNames = []string{"a", "b", "d", "e", "main.tf", ".git", ".terraform", "modules", "logs", "x y", "é", "keep", "..data", "...", ".hidden",
	// a backslash is an ordinary file-name character (seed C03-g): each of these is one path segment
	`logs\x.log`, `d\keep`, `sub\id.pem`, `\a`,
	// names that a starred rule below covers only with its '*' standing for nothing (seed C10-h)
	"terraform.tfstate", ".auto.tfvars", "cache", "scratch"}
var sRuleFiles = []string{"", "", "logs/\n", "*.log\n", "d/\n!d/keep\n", "a\n", "d\n", "/e\n", "d/*\n", "!.terraform/\n", "logs/\nb\n", "**/keep\n",
	// a negation followed by a plain exclusion that re-excludes part of it (seed C10-e: last match wins)
	"*.log\n!x.log\nlogs/*.log\n", "d/\n!d/keep\nd/ke*\n", "a\n!a\na\n",
	// verdicts that depend on where a segment ends, for names with a backslash (the patterns have none)
	"/*.pem\nlogs/\n", "/?a\nd/*\n",
	// a '*' that has to match zero characters (seed C10-h: '[^/]+' emitted for a single '*')
	"terraform.tfstate*\n", "*.auto.tfvars\n", "cache*/\n", "*/scratch*\nscratch*\n", "a*\n!a?*\n", "*keep*\n",
	// a line repeated after a rule of the other polarity (seed C03-h: repeats dropped, the first kept)
	"!a\na\n!a\n", "*.log\n!x.log\n*.log\n", "!main.tf\n*.tf\n!main.tf\n", "keep\n!d/keep\nkeep\n"}

func genFetched(r *Rng) []PNode {
	var nodes []PNode
	dirs := []string{""}
	used := map[string]bool{}
	n := 1 + r.Intn(9)
	for i := 0; i < n; i++ {
		dir := dirs[r.Intn(len(dirs))]
		name := r.Pick(sNames)
		if r.Chance(10) {
			name = r.Pick([]string{"x.log", "y.log"})
		}
		p := strings.TrimPrefix(dir+"/"+name, "/")
		if used[p] || strings.Count(p, "/") > 3 {
			continue
		}
		used[p] = true
		depth := strings.Count(p, "/")
		ups := strings.Repeat("../", depth)
		switch x := r.Intn(100); {
		case x < 42:
			nodes = append(nodes, PNode{Path: p, Kind: "f", Perm: uint32([]int{0644, 0600, 0755}[r.Intn(3)]), Data: r.Pick([]string{"", "x", "content-" + name})})
		case x < 67:
			nodes = append(nodes, PNode{Path: p, Kind: "d", Perm: 0755})
			dirs = append(dirs, p)
		case x < 96:
			targets := []string{"a", "b", "main.tf", ups + "a", ups + "main.tf", "nonexist", ups + "d", "d", ".", ups + "../sibling-pkg/file", ups + "../terraform-sources.json",
				ups + "../../outside.txt", "@WORK@/a", "@WORK@/main.tf", "@ARENA@/outside.txt", ups + "logs/x.log", "logs/x.log", ups + "d/keep", "e/../a", ups + "..",
				// out of the package and back in through the temporary directory's own name (seed C10-d)
				ups + "../@WORKBASE@/a", ups + "../@WORKBASE@/main.tf"}
			nodes = append(nodes, PNode{Path: p, Kind: "l", Data: r.Pick(targets)})
		default:
			nodes = append(nodes, PNode{Path: p, Kind: "s"})
		}
	}
	if r.Chance(55) {
		rules := r.Pick(sRuleFiles)
		if r.Chance(30) {
			// rule lines made from a name of this tree: a '*' that has to match nothing, or a line repeated
			// after a rule of the other polarity
			var cands []PNode
			for _, nd := range nodes {
				if (nd.Kind == "f" || nd.Kind == "d") && safeRuleName(nd.Path) {
					cands = append(cands, nd)
				}
			}
			if len(cands) > 0 {
				nd := cands[r.Intn(len(cands))]
				switch {
				case nd.Kind == "d":
					rules = emptyStarRuleFor(r, nd.Path) + "/\n"
				case r.Bool():
					rules = emptyStarRuleFor(r, nd.Path) + "\n"
				default:
					rules = repeatedRuleFor(r, nd.Path)
				}
			}
		}
		nodes = append(nodes, PNode{Path: ".terraformignore", Kind: "f", Perm: 0644, Data: rules})
	}
	return nodes
}

type simpleFinder struct{}

func init() {
	lanes["sanitise"] = func(cfg *Config, rep *Report) {
		rep.Rule = "one fetched package tree per build: 1..9 nodes (files, directories, fifos, links over 22 target shapes: in-package relative and absolute-into-the-work-directory, dangling, to a directory, to a sibling package, to the manifest name, out of the bundle, through ignored directories, '..' detours) plus one of 27 rule files (incl. a '*' that has to match zero characters, a line repeated after a rule of the other polarity), 30% of the rule files made from a name of the tree in one of these two shapes; names incl. backslashes (ordinary characters); corpus trees for both shapes; corpus trees with backslash names under anchored / directory / wildcard rules, and with .git / .terraform content at two depths next to a rule file of zero bytes, of one newline, and none; two corpus trees with generated rule files (about 1 MiB of short lines with the rules that matter at the end; a 70 KiB comment line) judged by the oracle only; non-trivial = has a link, a fifo or a rule file; distinct by tree"
		r := NewRng(cfg.Seed)
		work, err := filepath.EvalSymlinks(cfg.Work)
		if err != nil {
			rep.Broken = append(rep.Broken, "work dir: "+err.Error())
			return
		}
		syscall.Umask(022)
		n := cfg.N
		reqs := make([]string, n)
		impl := make([]string, n)
		human := make([]interface{}, n)
		trees := make([][]PNode, n)
		corpus := [][]PNode{
			// a kept link pointing at a file the rules remove: validated before the removal, must be caught by the hash
			{{Path: "a", Kind: "l", Data: "logs/x.log"}, {Path: "logs", Kind: "d", Perm: 0755}, {Path: "logs/x.log", Kind: "f", Perm: 0644, Data: "x"}, {Path: ".terraformignore", Kind: "f", Perm: 0644, Data: "logs/\n"}},
			{{Path: "a-link", Kind: "l", Data: "sub/z.log"}, {Path: "sub", Kind: "d", Perm: 0755}, {Path: "sub/z.log", Kind: "f", Perm: 0644, Data: "x"}, {Path: "keep", Kind: "f", Perm: 0644, Data: "k"}, {Path: ".terraformignore", Kind: "f", Perm: 0644, Data: "*.log\n"}},
			// an ignored file sorting before a link that leaves the package / a fifo
			{{Path: "a.log", Kind: "f", Perm: 0644, Data: "x"}, {Path: "b", Kind: "l", Data: "../../outside.txt"}, {Path: ".terraformignore", Kind: "f", Perm: 0644, Data: "*.log\n"}},
			{{Path: "a.log", Kind: "f", Perm: 0644, Data: "x"}, {Path: "pipe", Kind: "s"}, {Path: ".terraformignore", Kind: "f", Perm: 0644, Data: "*.log\n"}},
			{{Path: "a", Kind: "f", Perm: 0644, Data: "x"}, {Path: "d", Kind: "l", Data: "@WORK@/a"}},
			{{Path: "a", Kind: "f", Perm: 0644, Data: "x"}, {Path: "d", Kind: "d", Perm: 0755}, {Path: "d/l", Kind: "l", Data: "../../@WORKBASE@/a"}},
			{{Path: "main.tf", Kind: "f", Perm: 0644, Data: "m"}, {Path: "l", Kind: "l", Data: "../@WORKBASE@/main.tf"}},
			{{Path: "a", Kind: "f", Perm: 0644, Data: "x"}, {Path: "z", Kind: "l", Data: "."}, {Path: "l", Kind: "l", Data: "z/../@WORKBASE@/a"}},
			{{Path: "a", Kind: "f", Perm: 0644, Data: "x"}, {Path: "d", Kind: "d", Perm: 0755}, {Path: "d/l", Kind: "l", Data: "../a"}},
			{{Path: "d", Kind: "d", Perm: 0755}, {Path: "d/keep", Kind: "f", Perm: 0644, Data: "k"}, {Path: "d/x", Kind: "f", Perm: 0644, Data: "x"}, {Path: ".terraformignore", Kind: "f", Perm: 0644, Data: "d/\n!d/keep\n"}},
			// names with a backslash next to rules whose verdict depends on segment boundaries (seed C03-g):
			// the top-level file `sub\id.pem` is covered by '/*.pem', `logs\notes.txt` is not covered by 'logs/'
			backslashNamesTree("# keys at the top level, the log directory\n/*.pem\nlogs/\n"),
			backslashNamesTree("/su?/*.pem\n?lead\ntrail*/x*\n"),
			// the built-in exclusions apply whatever the rule file holds, also one of zero bytes (seed C10-g:
			// an empty rule set for an empty file), of one newline, or none: .git and .terraform content is
			// removed at any depth. (.terraform/modules goes with .terraform: finding F9, in a tree of its own.)
			builtinExclusionsTree(true, "", false), builtinExclusionsTree(true, "\n", false), builtinExclusionsTree(false, "", false),
			builtinExclusionsTree(true, "", true),
			// a '*' that has to match zero characters next to names where it matches some (seed C10-h)
			emptyStarTree("terraform.tfstate*\n*.auto.tfvars\ncache*/\nmodules/*/scratch*\n"), emptyStarTree("/terraform.tfstate*\n/*.auto.tfvars\n!prod*.auto.tfvars\n**/scratch*\n"),
			// a line repeated after a rule of the other polarity: the last occurrence decides (seed C03-h)
			repeatedLineTree("*.pem\n!certs/public.pem\n*.pem\n"), repeatedLineTree("!keep.log\n*.log\n!keep.log\n"), repeatedLineTree("*.pem\n*.log\n!certs/public.pem\n!keep.log\n  *.pem\n*.log\n"),
			// oracle only (generated rule files are not sent to the model): a rule file of a bit more than
			// 1 MiB of short valid lines with the exclusions that matter at its end (seed C10-f: the rule file
			// read through a 1 MiB LimitReader) ...
			bigRuleFileTree("rule-lines", 1<<20+4096),
			// ... and one with a comment line beyond bufio.Scanner's 64 KiB token limit between two
			// exclusions: the unchanged code refuses the package ("invalid .terraformignore file: ... token
			// too long"); were it accepted, everything the whole file excludes would have to be gone
			bigRuleFileTree("long-line", 70<<10),
		}
		for i := range trees {
			if i < len(corpus) {
				trees[i] = corpus[i]
				continue
			}
			trees[i] = genFetched(r)
		}
		// exact replay (-case): the recorded tree ({"tree": nodes}, or the bare node list) takes an extra
		// last slot and is run first, alone
		replayIdx := -1
		{
			var wrapped struct {
				Tree []PNode `json:"tree"`
			}
			var rt []PNode
			if loadReplayInput(cfg, "sanitise", &wrapped) && len(wrapped.Tree) > 0 {
				rt = wrapped.Tree
			} else if !loadReplayInput(cfg, "sanitise", &rt) {
				rt = nil
			}
			if len(rt) == 0 {
				replayMissing(cfg, rep, "sanitise")
			} else if why := unsafePNodes(rt, nil); why != "" {
				rep.ReplayNote("refused: " + why)
			} else {
				replayIdx = n
				trees = append(trees, rt)
				reqs = append(reqs, "")
				impl = append(impl, "")
				human = append(human, nil)
			}
		}
		var wg sync.WaitGroup
		sem := make(chan struct{}, 16)
		runTree := func(i int) {
				nodes := trees[i]
				arena := filepath.Join(work, fmt.Sprintf("z%06d", i))
				target := filepath.Join(arena, "bundle")
				os.MkdirAll(target, 0755)
				os.MkdirAll(filepath.Join(target, "sibling-pkg"), 0755)
				os.WriteFile(filepath.Join(target, "sibling-pkg", "file"), []byte("sibling"), 0644)
				os.WriteFile(filepath.Join(arena, "outside.txt"), []byte("secret"), 0600)
				defer func() { chmodAll(arena); os.RemoveAll(arena) }()
				oracleOnly := false
				for _, nd := range nodes {
					if nd.FillKind != "" {
						oracleOnly = true
					}
				}
				f := &treeFetcher{nodes: nodes, arena: arena, noSnap: oracleOnly}
				env := newEnv(&BWorld{})
				b, err := sourcebundle.NewBuilder(target, f, env)
				if err != nil {
					return
				}
				pkg, _ := sourceaddrs.ParseRemotePackage("git::https://example.com/pkg.git")
				done := make(chan sourcebundle.Diagnostics, 1)
				go func() {
					defer func() {
						if x := recover(); x != nil {
							done <- nil
						}
					}()
					done <- b.AddRemoteSource(context.Background(), pkg.SourceAddr(""), env.finders[0])
				}()
				var diags sourcebundle.Diagnostics
				select {
				case diags = <-done:
				case <-time.After(20 * time.Second):
					rep.AddOracle(OracleFailure{Property: "C19", Lane: "sanitise", What: "package preparation did not return", Input: map[string]interface{}{"tree": nodes}})
					return
				}
				class := "ok"
				if diags.HasErrors() {
					class = "fail"
				}
				after := ""
				if !oracleOnly {
					after = snapshotNS(arena)
				}
				// final directory name: the only new directory of the target besides sibling-pkg and temp dirs
				final := filepath.Join(target, "unknown-final")
				ents, _ := os.ReadDir(target)
				var tmpLeft []string
				for _, e := range ents {
					if strings.HasPrefix(e.Name(), ".tmp-") {
						tmpLeft = append(tmpLeft, e.Name())
					} else if e.Name() != "sibling-pkg" && e.IsDir() {
						final = filepath.Join(target, e.Name())
					}
				}
				in := map[string]interface{}{"tree": nodes}
				nt := false
				for _, nd := range nodes {
					if nd.Kind == "l" || nd.Kind == "s" || nd.Path == ".terraformignore" {
						nt = true
					}
				}
				rep.Case(fmt.Sprintf("%v", nodes), nt, map[string]interface{}{"tree": nodes, "result": class})
				rep.Count("result:" + class)
				if oracleOnly {
					rep.Count("oracle-only:" + class)
				} else if f.workDir != "" {
					reqs[i] = fmt.Sprintf("sanitise %s %s %s", X(f.workDir), X(final), zeroMtimes(f.snapshot))
					impl[i] = class + " " + zeroMtimes(after)
					human[i] = in
				}
				fail := func(prop, what, sig string) {
					rep.AddOracle(OracleFailure{Property: prop, Lane: "sanitise", What: what, Input: in, Signature: sig, ReqIdx: i + 1})
				}
				// nothing outside the target directory is touched
				if b, err := os.ReadFile(filepath.Join(arena, "outside.txt")); err != nil || string(b) != "secret" {
					fail("C10", "a file outside the target directory was changed", "")
				}
				if class != "ok" {
					return
				}
				if len(tmpLeft) > 0 {
					fail("C10", "temporary directory left in a successfully built bundle: "+strings.Join(tmpLeft, ","), "")
				}
				// ---- walk of the package directory with physical resolution ----
				orules := oParse(ruleFileOf(nodes))
				pkgReal, _ := filepath.EvalSymlinks(final)
				filepath.Walk(final, func(p string, info os.FileInfo, err error) error {
					if err != nil {
						return nil
					}
					rel, _ := filepath.Rel(final, p)
					if rel == "." {
						return nil
					}
					switch {
					case info.Mode()&os.ModeSymlink != 0:
						real, err := filepath.EvalSymlinks(p)
						sig := ""
						t, _ := os.Readlink(p)
						if strings.HasPrefix(t, f.workDir) {
							sig = "bundle.absolute-link-into-workdir"
						}
						// a chain that passes through such a link dangles as well
						for _, nd := range nodes {
							if nd.Kind == "l" && strings.HasPrefix(nd.Data, "@WORK@") && err != nil {
								sig = "bundle.absolute-link-into-workdir"
							}
						}
						if err != nil {
							fail("C10", fmt.Sprintf("link %s -> %q in the finished package does not resolve", rel, strings.Replace(t, f.workDir, "<workdir>", 1)), sig)
						} else if !within(pkgReal, real) {
							fail("C10", fmt.Sprintf("link %s resolves to %s, outside its package directory", rel, real), sig)
						} else if fi, err := os.Stat(real); err != nil || !(fi.Mode().IsRegular() || fi.IsDir()) {
							fail("C10", fmt.Sprintf("link %s resolves to something that is neither a regular file nor a directory", rel), sig)
						}
					case info.IsDir(), info.Mode().IsRegular():
					default:
						fail("C10", "special file left in the finished package: "+rel, "")
					}
					// everything the rules exclude has been removed
					if !info.IsDir() && oExcluded(orules, rel) {
						fail("C10", rel+" is excluded by the package's ignore rules but is still in the bundle", "")
					}
					return nil
				})
				// C03 (bundle part): a file whose own path is not excluded is still there
				for _, nd := range nodes {
					if nd.Kind != "f" {
						continue
					}
					if !oExcluded(orules, nd.Path) {
						if _, err := os.Lstat(filepath.Join(final, nd.Path)); err != nil {
							fail("C03", nd.Path+" is not excluded by the rules but was removed from the bundle package", bundlePruneSignature(orules, nd.Path))
						}
					}
				}
				// the same tree once more under a mirror address (the two packages coalesce into one
				// directory): still no temporary directory afterwards (seed C10-c)
				f.noSnap = true
				mirror, _ := sourceaddrs.ParseRemotePackage("git::https://mirror.example.com/pkg.git")
				done2 := make(chan sourcebundle.Diagnostics, 1)
				go func() {
					defer func() {
						if x := recover(); x != nil {
							done2 <- nil
						}
					}()
					done2 <- b.AddRemoteSource(context.Background(), mirror.SourceAddr(""), env.finders[0])
				}()
				select {
				case d2 := <-done2:
					if !d2.HasErrors() {
						rep.Count("mirror:ok")
						ents, _ := os.ReadDir(target)
						for _, e := range ents {
							if strings.HasPrefix(e.Name(), ".tmp-") {
								fail("C10", "temporary directory left after a second, identical package was added under another address: "+e.Name(), "")
							}
						}
					} else {
						rep.Count("mirror:fail")
					}
				case <-time.After(20 * time.Second):
				}
		}
		if replayIdx >= 0 {
			rep.BeginReplay()
			runTree(replayIdx)
			rep.EndReplay(reqs[replayIdx])
		}
		for i := 0; i < n; i++ {
			wg.Add(1)
			sem <- struct{}{}
			go func(i int) {
				defer wg.Done()
				defer func() { <-sem }()
				runTree(i)
			}(i)
		}
		wg.Wait()
		var rq, im []string
		var hu []interface{}
		remap := map[int]int{}
		for i := range reqs {
			if reqs[i] != "" {
				remap[i+1] = len(rq) + 1
				rq = append(rq, reqs[i])
				im = append(im, impl[i])
				hu = append(hu, human[i])
			}
		}
		for k := range rep.OracleFailures {
			rep.OracleFailures[k].ReqIdx = remap[rep.OracleFailures[k].ReqIdx]
		}
		model, err := RunDriver(cfg.Driver, rq)
		if err != nil {
			rep.Broken = append(rep.Broken, "driver: "+err.Error())
			return
		}
		for i := range rq {
			// canonical order of the dump items on both sides
			cls, dump, _ := strings.Cut(model[i], " ")
			m := cls + " " + zeroMtimes(dump)
			for k := range rep.OracleFailures {
				if rep.OracleFailures[k].ReqIdx == i+1 {
					rep.OracleFailures[k].ModelAgrees = m == im[i]
				}
			}
			if m != im[i] {
				rep.AddDiff(Diff{Lane: "sanitise", Req: rq[i][:60], Human: hu[i], Impl: im[i], Model: m})
			}
		}
	}
}

func backslashNamesTree(rules string) []PNode {
	return []PNode{
		{Path: "main.tf", Kind: "f", Perm: 0644, Data: "m"},
		{Path: "id.pem", Kind: "f", Perm: 0600, Data: "top-level key"},
		{Path: "sub", Kind: "d", Perm: 0755},
		{Path: "sub/id.pem", Kind: "f", Perm: 0600, Data: "kept: not at the top level"},
		{Path: "sub/main.tf", Kind: "f", Perm: 0644, Data: "s"},
		{Path: "sub/win\\style.tf", Kind: "f", Perm: 0644, Data: "w"},
		{Path: "logs", Kind: "d", Perm: 0755},
		{Path: "logs/app.log", Kind: "f", Perm: 0644, Data: "log"},
		{Path: "logs.txt", Kind: "f", Perm: 0644, Data: "l"},
		{Path: "sub\\id.pem", Kind: "f", Perm: 0600, Data: "top-level key with a backslash in its name"},
		{Path: "logs\\notes.txt", Kind: "f", Perm: 0644, Data: "kept: not below logs/"},
		{Path: "\\lead", Kind: "f", Perm: 0644, Data: "leading"},
		{Path: "trail\\", Kind: "d", Perm: 0755},
		{Path: "trail\\/x\\y\\z", Kind: "f", Perm: 0644, Data: "xyz"},
		{Path: "to-key", Kind: "l", Data: "sub/id.pem"},
		{Path: ".terraformignore", Kind: "f", Perm: 0644, Data: rules},
	}
}

func emptyStarTree(rules string) []PNode {
	return []PNode{
		{Path: "main.tf", Kind: "f", Perm: 0644, Data: "m"},
		{Path: "terraform.tfstate", Kind: "f", Perm: 0600, Data: "state"},
		{Path: "terraform.tfstate.backup", Kind: "f", Perm: 0600, Data: "older state"},
		{Path: ".auto.tfvars", Kind: "f", Perm: 0600, Data: "password"},
		{Path: "prod.auto.tfvars", Kind: "f", Perm: 0600, Data: "prod password"},
		{Path: "cache", Kind: "d", Perm: 0755},
		{Path: "cache/blob", Kind: "f", Perm: 0644, Data: "blob"},
		{Path: "cache-old", Kind: "d", Perm: 0755},
		{Path: "cache-old/blob", Kind: "f", Perm: 0644, Data: "old blob"},
		{Path: "modules", Kind: "d", Perm: 0755},
		{Path: "modules/a", Kind: "d", Perm: 0755},
		{Path: "modules/a/a.tf", Kind: "f", Perm: 0644, Data: "a"},
		{Path: "modules/a/scratch", Kind: "f", Perm: 0644, Data: "s"},
		{Path: "modules/a/scratch.txt", Kind: "f", Perm: 0644, Data: "s.txt"},
		{Path: "to-main", Kind: "l", Data: "main.tf"},
		{Path: ".terraformignore", Kind: "f", Perm: 0644, Data: rules},
	}
}

func repeatedLineTree(rules string) []PNode {
	return []PNode{
		{Path: "main.tf", Kind: "f", Perm: 0644, Data: "m"},
		{Path: "certs", Kind: "d", Perm: 0755},
		{Path: "certs/public.pem", Kind: "f", Perm: 0644, Data: "public"},
		{Path: "certs/private.pem", Kind: "f", Perm: 0600, Data: "private"},
		{Path: "keep.log", Kind: "f", Perm: 0644, Data: "kept"},
		{Path: "x.log", Kind: "f", Perm: 0644, Data: "x"},
		{Path: "to-main", Kind: "l", Data: "main.tf"},
		{Path: ".terraformignore", Kind: "f", Perm: 0644, Data: rules},
	}
}

func builtinExclusionsTree(withRuleFile bool, rules string, withTerraformModules bool) []PNode {
	nodes := []PNode{
		{Path: "main.tf", Kind: "f", Perm: 0644, Data: "m"},
		{Path: ".git", Kind: "d", Perm: 0755},
		{Path: ".git/HEAD", Kind: "f", Perm: 0644, Data: "ref: refs/heads/main"},
		{Path: ".git/objects", Kind: "d", Perm: 0755},
		{Path: ".git/objects/ab", Kind: "f", Perm: 0644, Data: "blob"},
		{Path: ".terraform", Kind: "d", Perm: 0755},
		{Path: ".terraform/terraform.tfstate", Kind: "f", Perm: 0600, Data: "state"},
		{Path: ".terraform/providers", Kind: "d", Perm: 0755},
		{Path: ".terraform/providers/x", Kind: "f", Perm: 0755, Data: "provider"},
		{Path: "modules", Kind: "d", Perm: 0755},
		{Path: "modules/child", Kind: "d", Perm: 0755},
		{Path: "modules/child/main.tf", Kind: "f", Perm: 0644, Data: "c"},
		{Path: "modules/child/.git", Kind: "d", Perm: 0755},
		{Path: "modules/child/.git/HEAD", Kind: "f", Perm: 0644, Data: "ref"},
		{Path: "modules/child/.terraform", Kind: "d", Perm: 0755},
		{Path: "modules/child/.terraform/lock.json", Kind: "f", Perm: 0644, Data: "{}"},
	}
	if withTerraformModules {
		nodes = append(nodes, PNode{Path: ".terraform/modules", Kind: "d", Perm: 0755}, PNode{Path: ".terraform/modules/m", Kind: "d", Perm: 0755},
			PNode{Path: ".terraform/modules/m/main.tf", Kind: "f", Perm: 0644, Data: "not excluded on its own path"})
	}
	if withRuleFile {
		nodes = append(nodes, PNode{Path: ".terraformignore", Kind: "f", Perm: 0644, Data: rules})
	}
	return nodes
}

// bundlePruneSignature: the file is gone because the builder removed a directory above it on
// "Excluded" alone (tested as "dir" and as "dir/"), although the file's own path is not excluded (F9).
func bundlePruneSignature(rules []oRule, rel string) string {
	segs := strings.Split(rel, "/")
	for i := 1; i < len(segs); i++ {
		d := strings.Join(segs[:i], "/")
		if oExcluded(rules, d) || oExcluded(rules, d+"/") {
			return "bundle.reinclude-below-excluded-dir"
		}
	}
	return ""
}

func bigRuleFileTree(fillKind string, fillBytes int) []PNode {
	return []PNode{
		{Path: "main.tf", Kind: "f", Perm: 0644, Data: "m"},
		{Path: "old.bak", Kind: "f", Perm: 0644, Data: "b"},
		{Path: "secret.auto.tfvars", Kind: "f", Perm: 0600, Data: "password"},
		{Path: "private", Kind: "d", Perm: 0755},
		{Path: "private/key.pem", Kind: "f", Perm: 0600, Data: "key"},
		{Path: "modules", Kind: "d", Perm: 0755},
		{Path: "modules/child.tf", Kind: "f", Perm: 0644, Data: "c"},
		{Path: "to-main", Kind: "l", Data: "main.tf"},
		{Path: ".terraformignore", Kind: "f", Perm: 0644, FillKind: fillKind, FillBytes: fillBytes, Data: "*.bak\n@FILL@\nsecret.auto.tfvars\nprivate/\n"},
	}
}

func ruleFileOf(nodes []PNode) string {
	for _, n := range nodes {
		if n.Path == ".terraformignore" && n.Kind == "f" {
			return nodeData(n)
		}
	}
	return ""
}

// zeroMtimes rewrites an fsdump so that all modification times are 0 (removals and renames touch
// directory times, which this lane does not compare)
func zeroMtimes(dump string) string {
	items := strings.Split(dump, ",")
	for i, it := range items {
		f := strings.Split(it, ":")
		if len(f) == 5 {
			f[3] = "0"
			items[i] = strings.Join(f, ":")
		}
	}
	sort.Strings(items)
	return strings.Join(items, ",")
}
