package main

import (
	"fmt"
	"strings"

	"github.com/hashicorp/go-slug/internal/ignorefiles"
)

// ignore lane (C03, C16, C19): ParseIgnoreFileContent + Excludes against the Lean model
// (readRules / compileRx / matchT / excludes) and against an independent segment-wise matcher.

// ---- independent implementation of the documented rule language (oracle) ----

func oSegMatch(pat, s []rune) bool {
	if len(pat) == 0 {
		return len(s) == 0
	}
	switch pat[0] {
	case '*':
		for i := 0; i <= len(s); i++ {
			if oSegMatch(pat[1:], s[i:]) {
				return true
			}
		}
		return false
	case '?':
		return len(s) > 0 && oSegMatch(pat[1:], s[1:])
	default:
		return len(s) > 0 && s[0] == pat[0] && oSegMatch(pat[1:], s[1:])
	}
}

func oGlob(pats, segs []string) bool {
	if len(pats) == 0 {
		return len(segs) == 0
	}
	if pats[0] == "**" {
		if len(pats) == 1 {
			return len(segs) >= 1
		}
		// any number (including zero) of whole leading segments
		for i := 0; i < len(segs); i++ {
			if oGlob(pats[1:], segs[i:]) {
				return true
			}
		}
		return false
	}
	if len(segs) == 0 {
		return false
	}
	if !oSegMatch([]rune(pats[0]), []rune(segs[0])) {
		return false
	}
	if len(pats) == 1 {
		return len(segs) == 1
	}
	if len(segs) == 1 {
		return false
	}
	return oGlob(pats[1:], segs[1:])
}

type oRule struct {
	pats    []string
	negated bool
}

func isSpaceRune(r rune) bool {
	switch r {
	case '\t', '\n', '\v', '\f', '\r', ' ', 0x85, 0xA0, 0x1680, 0x2028, 0x2029, 0x202f, 0x205f, 0x3000:
		return true
	}
	return r >= 0x2000 && r <= 0x200a
}

func oParse(content string) []oRule {
	rules := []oRule{
		{pats: []string{"**", ".terraform", "**"}},
		{pats: []string{"**", ".terraform", "modules", "**"}, negated: true},
		{pats: []string{"**", ".git", "**"}},
	}
	for _, line := range strings.Split(content, "\n") {
		line = strings.TrimSuffix(line, "\r")
		p := strings.TrimFunc(line, isSpaceRune)
		if p == "" || p[0] == '#' {
			continue
		}
		neg := false
		if p[0] == '!' {
			neg = true
			p = p[1:]
			if p == "" {
				continue
			}
		}
		if strings.HasSuffix(p, "/") {
			p += "**"
		}
		if strings.HasPrefix(p, "/") {
			p = p[1:]
		} else {
			p = "**/" + p
		}
		rules = append(rules, oRule{pats: strings.Split(p, "/"), negated: neg})
	}
	return rules
}

func oExcluded(rules []oRule, path string) bool {
	segs := strings.Split(path, "/")
	ex := false
	for _, r := range rules {
		if oGlob(r.pats, segs) {
			ex = !r.negated
		}
	}
	return ex
}

// ---- generators ----

var patAtoms = []string{"foo", "bar", "a", "b", ".git", ".terraform", "modules", "*.tf", "f?o", "*", "**", "a+b", "x(1)", "c$", "é", "fo o", "b*r", "?", "^a", "a|b", "{a}", "ba.", "*a*"}
var pathSegsIgn = []string{"foo", "bar", "a", "b", ".git", ".terraform", "modules", "x.tf", "fao", "a+b", "aab", "x(1)", "c$", "é", "fo o", "a\nb", "^a", "a|b", "{a}", "bar.", "baz", "bax"}

// lines that are (nearly) nothing but syntax: every normalisation step of readRules sees an
// empty or one-character remainder on one of them (seed C19-b: a lone "/")
var degenerateRuleLines = []string{"   ", "\t", "!", "! ", " # x", "#c", " ", "/", "!/", " / ", "//", "!//", "///", "/ ", "*", "!*", "**", "!**", "/*", "/**", "*/", "**/", "!!", "!#", "! /", "!/ ", "/!", "?", "/?"}

func genPattern(r *Rng) string {
	n := 1 + r.Intn(3)
	if r.Chance(10) {
		n = 4
	}
	parts := make([]string, n)
	for i := range parts {
		parts[i] = r.Pick(patAtoms)
	}
	p := strings.Join(parts, "/")
	if r.Chance(25) {
		p = "/" + p
	}
	if r.Chance(25) {
		p += "/"
	}
	if r.Chance(25) {
		p = "!" + p
	}
	return p
}

func genRuleFile(r *Rng) string {
	n := r.Intn(5)
	var lines []string
	for i := 0; i < n; i++ {
		switch {
		case r.Chance(8):
			lines = append(lines, "")
		case r.Chance(5):
			lines = append(lines, r.Pick([]string{"   ", "\t", "!", "! ", " # x", "#c", " "}))
		case r.Chance(6):
			lines = append(lines, "  "+genPattern(r)+" ")
		default:
			lines = append(lines, genPattern(r))
		}
	}
	sep := "\n"
	if r.Chance(10) {
		sep = "\r\n"
	}
	s := strings.Join(lines, sep)
	if n > 0 && r.Chance(70) {
		s += sep
	}
	return s
}

func genIgnPath(r *Rng) string {
	n := 1 + r.Intn(5)
	segs := make([]string, n)
	for i := range segs {
		segs[i] = r.Pick(pathSegsIgn)
	}
	p := strings.Join(segs, "/")
	if r.Chance(25) {
		p += "/"
	}
	return p
}

func excludesSafe(rs *ignorefiles.Ruleset, p string) (res ignorefiles.ExcludesResult, err error, panicked interface{}) {
	defer func() {
		if x := recover(); x != nil {
			panicked = x
		}
	}()
	res, err = rs.Excludes(p)
	return
}

func parseSafe(content string) (rs *ignorefiles.Ruleset, err error, panicked interface{}) {
	defer func() {
		if x := recover(); x != nil {
			panicked = x
		}
	}()
	rs, err = ignorefiles.ParseIgnoreFileContent(strings.NewReader(content))
	return
}

func init() {
	lanes["ignore"] = func(cfg *Config, rep *Report) {
		rep.Rule = "rule files of 0..4 lines from a pattern grammar (23 atoms incl. *, ?, **, regexp metacharacters, non-ASCII, spaces) x anchoring x trailing slash x negation, with comments, blank, whitespace-only and '!' lines, CRLF; each against 12 paths of depth 1..5 over 22 segments (incl. newline, metacharacters), optional trailing slash; non-trivial = rule file has a negation, a '**', or a metacharacter atom; distinct by (rule file, paths)"
		r := NewRng(cfg.Seed)
		var reqs, impl []string
		var human []interface{}
		// fixed default-list probe paths (C16: history independence of the shared default rules)
		probePaths := []string{".git/", ".git/config", ".terraform/", ".terraform/modules/", ".terraform/modules/x", "a/.terraform/y", "main.tf", "a/.git/"}
		baseline := make([]ignorefiles.ExcludesResult, len(probePaths))
		for i, p := range probePaths {
			baseline[i], _ = ignorefiles.DefaultRuleset.Excludes(p)
		}
		runOne := func(content string, paths []string, exotic bool) {
			rs, err, pan := parseSafe(content)
			line := "ignore " + X(content)
			for _, p := range paths {
				line += " " + X(p)
			}
			nt := strings.Contains(content, "!") || strings.Contains(content, "**") || strings.ContainsAny(content, "+()$|^{}")
			np := len(paths)
			if np > 3 {
				np = 3
			}
			sample := map[string]interface{}{"rulefile": content, "paths": paths[:np]}
			// what a difference records: the rule file with every path of the request (enough to replay it)
			full := map[string]interface{}{"rulefile": content, "paths": paths}
			rep.Case(line, nt, sample)
			if pan != nil {
				rep.Count("outcome:parse-panic")
				rep.AddOracle(OracleFailure{Property: "C19", Lane: "ignore", What: fmt.Sprintf("ParseIgnoreFileContent panics: %v", pan), Input: map[string]string{"rulefile": content}})
				reqs = append(reqs, line)
				impl = append(impl, "panic")
				human = append(human, full)
				return
			}
			if err != nil {
				rep.Count("outcome:parse-error")
				return
			}
			rep.Count("outcome:parsed")
			var outs []string
			orules := oParse(content)
			for _, p := range paths {
				res, _, pan := excludesSafe(rs, p)
				if pan != nil {
					rep.AddOracle(OracleFailure{Property: "C19", Lane: "ignore", What: fmt.Sprintf("Excludes panics: %v", pan), Input: map[string]string{"rulefile": content, "path": p}})
					outs = append(outs, "panic")
					continue
				}
				if inc, ierr := rs.Includes(p); ierr == nil && inc == res.Excluded {
					rep.AddOracle(OracleFailure{Property: "C03", Lane: "ignore", What: fmt.Sprintf("Includes=%v and Excludes.Excluded=%v for the same path", inc, res.Excluded), Input: map[string]string{"rulefile": content, "path": p}})
				}
				o := "f"
				if res.Excluded {
					o = "t"
				}
				if res.Dominating {
					o += "t"
				} else {
					o += "f"
				}
				outs = append(outs, o)
				if want := oExcluded(orules, p); !exotic && want != res.Excluded {
					rep.AddOracle(OracleFailure{Property: "C03", Lane: "ignore", What: fmt.Sprintf("Excludes=%v but the segment-wise rule language says %v", res.Excluded, want), Input: map[string]string{"rulefile": content, "path": p}})
				}
				if res.Excluded {
					rep.Count("verdict:excluded")
				} else {
					rep.Count("verdict:included")
				}
			}
			if !exotic {
				reqs = append(reqs, line)
				impl = append(impl, strings.Join(outs, " "))
				human = append(human, full)
			} else {
				rep.Count("outcome:exotic-pattern")
			}
			// C16: the shared default rules are unaffected by parsing
			for k, p := range probePaths {
				now, _ := ignorefiles.DefaultRuleset.Excludes(p)
				if now != baseline[k] {
					rep.AddOracle(OracleFailure{Property: "C16", Lane: "ignore", What: fmt.Sprintf("DefaultRuleset.Excludes(%q) changed from %v to %v after parsing a rule file", p, baseline[k], now), Input: map[string]string{"rulefile": content}})
					baseline[k] = now
				}
			}
		}
		// exact replay (-case): the recorded rule file with its path ("path") or paths ("paths"; the
		// built-in probe paths if the record names none) goes first
		{
			var rin struct {
				Rulefile *string  `json:"rulefile"`
				Path     *string  `json:"path"`
				Paths    []string `json:"paths"`
			}
			if loadReplayInput(cfg, "ignore", &rin) && rin.Rulefile != nil {
				var paths []string
				if rin.Path != nil {
					paths = append(paths, *rin.Path)
				}
				paths = append(paths, rin.Paths...)
				if len(paths) == 0 {
					paths = append(paths, probePaths...)
				}
				s0 := len(reqs)
				rep.BeginReplay()
				// patterns with brackets or backslashes are outside the modelled fragment (as in the generator)
				runOne(*rin.Rulefile, paths, strings.ContainsAny(*rin.Rulefile, "[]\\"))
				rep.EndReplay(reqs[s0:]...)
			} else {
				replayMissing(cfg, rep, "ignore")
			}
		}
		for i := 0; i < cfg.N; i++ {
			content := genRuleFile(r)
			if i < 2*len(degenerateRuleLines) {
				content = degenerateRuleLines[i/2]
				if i%2 == 1 {
					content = "foo\n" + content + "\n!bar/\n"
				}
			}
			paths := make([]string, 12)
			for j := range paths {
				paths[j] = genIgnPath(r)
			}
			exotic := false
			if i >= 2*len(degenerateRuleLines) && r.Chance(5) {
				// patterns outside the modelled fragment (brackets, backslashes, an unbalanced bracket that
				// makes the regular expression invalid): judged for robustness only, not sent to the model
				exotic = true
				content = r.Pick([]string{"[ab]\n", "a[\n", "a]\n", "\\*\n", "foo\\\n", "\\\n", "[\n", "a\\b/c\n", "*.[ch]\n!x\\\n", "[!a]\n", "[^a]*\n", "{a,b}[\n"}) + content
			}
			runOne(content, paths, exotic)
		}
		// the model answers "unsupported" for rule files outside its fragment; those cases are judged by
		// the oracle only (the generator produces none, so any such answer is reported as a difference)
		rep.Compare(cfg.Driver, reqs, impl, human)
	}
}
