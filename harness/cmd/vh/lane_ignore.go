package main

import (
	"fmt"
	"strings"

	"github.com/hashicorp/go-slug/internal/ignorefiles"
)

// ignore lane (C03, C16, C19): ParseIgnoreFileContent + Excludes against the Lean model
// (readRules / compileRx / matchT / excludes) and against an independent segment-wise matcher.

// ---- independent implementation of the documented rule language (oracle) ----

func oSegMatch(pat, s []rune) bool {
	if len(pat) == 0 {
		return len(s) == 0
	}
	switch pat[0] {
	case '*':
		for i := 0; i <= len(s); i++ {
			if oSegMatch(pat[1:], s[i:]) {
				return true
			}
		}
		return false
	case '?':
		return len(s) > 0 && oSegMatch(pat[1:], s[1:])
	default:
		return len(s) > 0 && s[0] == pat[0] && oSegMatch(pat[1:], s[1:])
	}
}

func oGlob(pats, segs []string) bool {
	if len(pats) == 0 {
		return len(segs) == 0
	}
	if pats[0] == "**" {
		if len(pats) == 1 {
			return len(segs) >= 1
		}
		// any number (including zero) of whole leading segments
		for i := 0; i < len(segs); i++ {
			if oGlob(pats[1:], segs[i:]) {
				return true
			}
		}
		return false
	}
	if len(segs) == 0 {
		return false
	}
	if !oSegMatch([]rune(pats[0]), []rune(segs[0])) {
		return false
	}
	if len(pats) == 1 {
		return len(segs) == 1
	}
	if len(segs) == 1 {
		return false
	}
	return oGlob(pats[1:], segs[1:])
}

type oRule struct {
	pats    []string
	negated bool
}

func isSpaceRune(r rune) bool {
	switch r {
	case '\t', '\n', '\v', '\f', '\r', ' ', 0x85, 0xA0, 0x1680, 0x2028, 0x2029, 0x202f, 0x205f, 0x3000:
		return true
	}
	return r >= 0x2000 && r <= 0x200a
}

func oParse(content string) []oRule {
	rules := []oRule{
		{pats: []string{"**", ".terraform", "**"}},
		{pats: []string{"**", ".terraform", "modules", "**"}, negated: true},
		{pats: []string{"**", ".git", "**"}},
	}
	for _, line := range strings.Split(content, "\n") {
		line = strings.TrimSuffix(line, "\r")
		p := strings.TrimFunc(line, isSpaceRune)
		if p == "" || p[0] == '#' {
			continue
		}
		neg := false
		if p[0] == '!' {
			neg = true
			p = p[1:]
			if p == "" {
				continue
			}
		}
		if strings.HasSuffix(p, "/") {
			p += "**"
		}
		if strings.HasPrefix(p, "/") {
			p = p[1:]
		} else {
			p = "**/" + p
		}
		rules = append(rules, oRule{pats: strings.Split(p, "/"), negated: neg})
	}
	return rules
}

func oExcluded(rules []oRule, path string) bool {
	segs := strings.Split(path, "/")
	ex := false
	for _, r := range rules {
		if oGlob(r.pats, segs) {
			ex = !r.negated
		}
	}
	return ex
}

// ---- generators ----

var patAtoms = []string{"foo", "bar", "a", "b", ".git", ".terraform", "modules", "*.tf", "f?o", "*", "**", "a+b", "x(1)", "c$", "é", "fo o", "b*r", "?", "^a", "a|b", "{a}", "ba.", "*a*",
	// a '*' that has to stand for the EMPTY run of characters (seed C10-h: '[^/]+' emitted for it): each
	// has a path segment below that is the atom with its '*' removed
	"terraform.tfstate*", "*.auto.tfvars", "cache*", "foo*", "*bar", "mod*ules"}
var pathSegsIgn = []string{"foo", "bar", "a", "b", ".git", ".terraform", "modules", "x.tf", "fao", "a+b", "aab", "x(1)", "c$", "é", "fo o", "a\nb", "^a", "a|b", "{a}", "bar.", "baz", "bax",
	// what a pattern atom with a '*' matches when the '*' stands for nothing, and for something
	"terraform.tfstate", "terraform.tfstate.backup", ".auto.tfvars", "prod.auto.tfvars", "cache", "cache-old", ".tf", "br",
	// a backslash in a PATH is an ordinary character of its segment (seed C03-g: turned into '/' before
	// matching): inner, leading, trailing, several, next to what '*' and '?' have to cover
	`foo\bar`, `a\b`, `\a`, `foo\`, `a\b\x.tf`, `.git\foo`}

// rule files whose verdict depends on where a segment ends (anchoring, a directory rule, '*' and '?'
// confined to one segment), each against paths with and without a backslash; patterns have none (a
// backslash in a PATTERN is outside the modelled fragment), so these go to the model as well
var backslashPathRules = []string{"/*.pem\nlogs/\n", "/sub/*.pem\n!logs\n", "sub?id.pem\nlogs*\n", "/*/id.pem\n", "logs/\n!logs/notes.txt\n", "?lead\n/trail*/x*\n", "**/notes.txt\n!/logs/**\n"}
var backslashPaths = []string{`sub\id.pem`, "sub/id.pem", "id.pem", `logs\notes.txt`, "logs/notes.txt", "logs/", `logs\`, `logs\/`, `\lead`, `x/\lead`, `trail\/x\y\z`, `sub/win\style.tf`, `sub\sub\id.pem`, `sub\sub/id.pem`, `.git\config`, `.terraform\modules\x`}

// rule files in which a line is REPEATED with a rule of the opposite polarity between the two occurrences
// (shape A, B, A), each with paths that match both A and B: under last-match-wins the position of the
// LAST occurrence decides (seed C03-h: repeated lines dropped, the first occurrence kept)
var repeatedLineRules = []struct {
	rules string
	paths []string
}{
	{"*.pem\n!certs/public.pem\n*.pem\n", []string{"certs/public.pem", "certs/private.pem", "a.pem", "certs/", "main.tf"}},
	{"!certs/public.pem\ncerts/\n!certs/public.pem\n", []string{"certs/public.pem", "certs/private.pem", "certs/", "certs", "x/certs/public.pem"}},
	{"foo\n!foo\nfoo\n", []string{"foo", "a/foo", "foo/", "foo/bar", "bar"}},
	{"!foo\nfoo\n!foo\n", []string{"foo", "a/foo", "foo/", "foo/bar", "bar"}},
	{"/a\n  !a  \n/a\n!b\n", []string{"a", "b/a", "a/", "b"}},
	{"logs/\n# keep the audit log\n!logs/audit.log\n\nlogs/\n", []string{"logs/audit.log", "logs/app.log", "logs/", "x/logs/audit.log"}},
	{"*.tf\n!x.tf\n!main.tf\n*.tf\n!x.tf\n", []string{"x.tf", "main.tf", "a/x.tf", "a/main.tf", "y.tf"}},
	{"**/b\n!a/b\n**/b\r\n", []string{"a/b", "b", "x/a/b", "a/b/"}},
	{"!.terraform/\n.terraform/\n!.terraform/\n", []string{".terraform/x", ".terraform/", "a/.terraform/x", ".terraform/modules/m"}},
	{".git/\n!.git/\n.git/\n", []string{".git/config", ".git/", "a/.git/HEAD"}},
}

// rules with one '*' against names for which the '*' has to match ZERO characters, next to names for
// which it matches some (seed C10-h)
var emptyStarRules = []struct {
	rules string
	paths []string
}{
	{"terraform.tfstate*\n", []string{"terraform.tfstate", "terraform.tfstate.backup", "a/terraform.tfstate", "terraform.tfstat", "terraform.tfstate/"}},
	{"*.auto.tfvars\n", []string{".auto.tfvars", "prod.auto.tfvars", "env/.auto.tfvars", "auto.tfvars"}},
	{"cache*/\n", []string{"cache/blob", "cache-old/blob", "cache/", "cache", "a/cache/x"}},
	{"modules/*/scratch*\n", []string{"modules/a/scratch", "modules/a/scratch.txt", "modules/scratch", "modules/a/b/scratch"}},
	{"/*a*\n!/b*\n", []string{"a", "ba", "ab", "b", "x/a"}},
	{"a*b*c\n", []string{"abc", "axbc", "abxc", "axbxc", "ab/c"}},
	{"*\n!*.tf*\n", []string{"x.tf", ".tf", "x.tfvars", "x", "a/.tf"}},
	{"foo*/**/*bar\n", []string{"foo/bar", "foo/x/bar", "foo1/x/2bar", "foo/x/y/bar", "foobar"}},
}

// pathForPattern builds a path that the pattern (one rule line, '!' and surrounding blanks allowed) is meant
// to cover: every atom becomes a segment in which '?' stands for one character and '*' for no character
// at all or for one; '**' becomes zero to two segments; a directory rule gets something below it.
func pathForPattern(r *Rng, pat string) string {
	pat = strings.TrimFunc(pat, isSpaceRune)
	pat = strings.TrimPrefix(pat, "!")
	anchored := strings.HasPrefix(pat, "/")
	dirRule := strings.HasSuffix(pat, "/")
	var segs []string
	for _, a := range strings.Split(strings.Trim(pat, "/"), "/") {
		if a == "**" {
			for k := r.Intn(3); k > 0; k-- {
				segs = append(segs, r.Pick([]string{"a", "b", "foo", "d"}))
			}
			continue
		}
		var b strings.Builder
		for _, ch := range a {
			switch ch {
			case '*':
				if r.Bool() {
					b.WriteString(r.Pick([]string{"x", "a", "-old", "é"}))
				}
			case '?':
				b.WriteString(r.Pick([]string{"a", "o", "é"}))
			default:
				b.WriteRune(ch)
			}
		}
		if b.Len() == 0 {
			b.WriteString("x")
		}
		segs = append(segs, b.String())
	}
	if len(segs) == 0 {
		segs = []string{"a"}
	}
	if !anchored && r.Chance(40) {
		segs = append([]string{r.Pick([]string{"a", "modules", "d"})}, segs...)
	}
	p := strings.Join(segs, "/")
	switch {
	case dirRule && r.Chance(70):
		p += "/" + r.Pick([]string{"x", "a/b", "main.tf"})
	case dirRule || r.Chance(15):
		p += "/"
	}
	return p
}

// flipRule: the same pattern with the other polarity
func flipRule(line string) string {
	t := strings.TrimFunc(line, isSpaceRune)
	if strings.HasPrefix(t, "!") {
		return t[1:]
	}
	return "!" + t
}

// genRepeatedRuleFile: a generated rule file in which one line A occurs twice with a rule B of the opposite
// polarity in between (B: A's own pattern, or the literal path the case is probed with), other lines
// around; and paths that A covers.
func genRepeatedRuleFile(r *Rng) (string, []string) {
	a := genPattern(r)
	for strings.Trim(a, "!/") == "" {
		a = genPattern(r)
	}
	probe := []string{pathForPattern(r, a), pathForPattern(r, a), pathForPattern(r, a)}
	b := flipRule(a)
	if r.Chance(50) {
		lit := strings.TrimSuffix(probe[0], "/")
		if r.Chance(50) {
			lit = "/" + lit
		}
		b = lit
		if !strings.HasPrefix(a, "!") {
			b = "!" + lit
		}
	}
	var lines []string
	for k := r.Intn(2); k > 0; k-- {
		lines = append(lines, genPattern(r))
	}
	lines = append(lines, a)
	if r.Chance(25) {
		lines = append(lines, r.Pick([]string{"", "# between", genPattern(r)}))
	}
	lines = append(lines, b)
	if r.Chance(25) {
		lines = append(lines, r.Pick([]string{"", "  ", genPattern(r)}))
	}
	if r.Chance(15) {
		lines = append(lines, "  "+a+" ") // the repeat differs in surrounding blanks only
	} else {
		lines = append(lines, a)
	}
	if r.Chance(20) {
		lines = append(lines, genPattern(r))
	}
	sep := "\n"
	if r.Chance(10) {
		sep = "\r\n"
	}
	s := strings.Join(lines, sep)
	if r.Chance(70) {
		s += sep
	}
	return s, probe
}

// ---- rule lines made from the names of a generated tree (pack and sanitise lanes) ----

// safeRuleName: the relative path can be written into a rule line as it is (no pattern syntax, no
// backslash, no control or edge blank that line reading would cut, not a comment or negation mark)
func safeRuleName(rel string) bool {
	if rel == "" || strings.ContainsAny(rel, "\\[]*?") || rel[0] == '!' || rel[0] == '#' {
		return false
	}
	rs := []rune(rel)
	if isSpaceRune(rs[0]) || isSpaceRune(rs[len(rs)-1]) {
		return false
	}
	for _, ch := range rs {
		if ch < 0x20 || (ch >= 0x7f && ch < 0xa0) {
			return false
		}
	}
	return true
}

func splitRel(rel string) (dir, base string) {
	if i := strings.LastIndex(rel, "/"); i >= 0 {
		return rel[:i+1], rel[i+1:]
	}
	return "", rel
}

// emptyStarRuleFor: a rule with one '*' that covers rel only if the '*' matches ZERO characters
// (seed C10-h): the '*' put at a random position of the last name; as a bare name, below its directory,
// or anchored
func emptyStarRuleFor(r *Rng, rel string) string {
	dir, base := splitRel(rel)
	rs := []rune(base)
	k := r.Intn(len(rs) + 1)
	if r.Chance(50) {
		k = len(rs) // 'terraform.tfstate*'
	}
	pat := string(rs[:k]) + "*" + string(rs[k:])
	switch r.Intn(3) {
	case 0:
		return pat
	case 1:
		return "/" + dir + pat
	}
	return dir + pat
}

// repeatedRuleFor: three rule lines A, B, A (B of the other polarity) that all cover rel (seed C03-h)
func repeatedRuleFor(r *Rng, rel string) string {
	_, base := splitRel(rel)
	glob := "*"
	if i := strings.LastIndex(base, "."); i > 0 {
		glob = "*" + base[i:]
	} else if rs := []rune(base); len(rs) > 1 {
		glob = string(rs[:1]) + "*"
	}
	var a, b string
	switch r.Intn(4) {
	case 0:
		a, b = base, "!"+base
	case 1:
		a, b = "!"+base, base
	case 2:
		a, b = glob, "!"+rel
	default:
		a, b = "!/"+rel, glob
	}
	return a + "\n" + b + "\n" + a + "\n"
}

// lines that are (nearly) nothing but syntax: every normalisation step of readRules sees an
// empty or one-character remainder on one of them (seed C19-b: a lone "/")
var degenerateRuleLines = []string{"   ", "\t", "!", "! ", " # x", "#c", " ", "/", "!/", " / ", "//", "!//", "///", "/ ", "*", "!*", "**", "!**", "/*", "/**", "*/", "**/", "!!", "!#", "! /", "!/ ", "/!", "?", "/?"}

func genPattern(r *Rng) string {
	n := 1 + r.Intn(3)
	if r.Chance(10) {
		n = 4
	}
	parts := make([]string, n)
	for i := range parts {
		parts[i] = r.Pick(patAtoms)
	}
	p := strings.Join(parts, "/")
	if r.Chance(25) {
		p = "/" + p
	}
	if r.Chance(25) {
		p += "/"
	}
	if r.Chance(25) {
		p = "!" + p
	}
	return p
}

func genRuleFile(r *Rng) string {
	n := r.Intn(5)
	var lines []string
	for i := 0; i < n; i++ {
		switch {
		case r.Chance(8):
			lines = append(lines, "")
		case r.Chance(5):
			lines = append(lines, r.Pick([]string{"   ", "\t", "!", "! ", " # x", "#c", " "}))
		case r.Chance(6):
			lines = append(lines, "  "+genPattern(r)+" ")
		default:
			lines = append(lines, genPattern(r))
		}
	}
	sep := "\n"
	if r.Chance(10) {
		sep = "\r\n"
	}
	s := strings.Join(lines, sep)
	if n > 0 && r.Chance(70) {
		s += sep
	}
	return s
}

func genIgnPath(r *Rng) string {
	n := 1 + r.Intn(5)
	segs := make([]string, n)
	for i := range segs {
		segs[i] = r.Pick(pathSegsIgn)
	}
	p := strings.Join(segs, "/")
	if r.Chance(25) {
		p += "/"
	}
	return p
}

func excludesSafe(rs *ignorefiles.Ruleset, p string) (res ignorefiles.ExcludesResult, err error, panicked interface{}) {
	defer func() {
		if x := recover(); x != nil {
			panicked = x
		}
	}()
	res, err = rs.Excludes(p)
	return
}

func parseSafe(content string) (rs *ignorefiles.Ruleset, err error, panicked interface{}) {
	defer func() {
		if x := recover(); x != nil {
			panicked = x
		}
	}()
	rs, err = ignorefiles.ParseIgnoreFileContent(strings.NewReader(content))
	return
}

// RuleGen describes a generated rule file: expandFill(Kind, Bytes, Text)
type RuleGen struct {
	Kind  string `json:"kind"`
	Bytes int    `json:"bytes"`
	Text  string `json:"text"`
}

var bigRuleGens = []RuleGen{
	{Kind: "rule-lines", Bytes: 1<<20 + 4096, Text: "*.bak\n@FILL@\nsecret.auto.tfvars\nprivate/\n!private/public.txt\n"},
	straddlingRuleGen(),
	{Kind: "long-line", Bytes: 70 << 10, Text: "*.bak\n@FILL@\nsecret.auto.tfvars\nprivate/\n"},
}

// the last rule begins six bytes before the end of the first MiB
func straddlingRuleGen() RuleGen {
	n := 1<<20 - 400
	l := len(expandFill("rule-lines", n, ""))
	pad := 1<<20 - 6 - l - 2
	return RuleGen{Kind: "rule-lines", Bytes: n, Text: "@FILL@#" + strings.Repeat("p", pad) + "\n/top-only.txt\n"}
}

var bigRulePaths = []string{"secret.auto.tfvars", "private/key.pem", "private/", "private/public.txt", "main.tf", "old.bak", "sub/secret.auto.tfvars", "modules/child.tf", "zzfill-000000.tmp", "top-only.txt", "sub/top-only.txt"}

func init() {
	lanes["ignore"] = func(cfg *Config, rep *Report) {
		rep.Rule = "rule files of 0..4 lines from a pattern grammar (29 atoms incl. *, ?, **, regexp metacharacters, non-ASCII, spaces) x anchoring x trailing slash x negation, with comments, blank, whitespace-only and '!' lines, CRLF; each against 12 paths of depth 1..5 over 36 segments (incl. newline, metacharacters, backslashes: ordinary characters of a path; names that a starred atom covers with its '*' standing for nothing), optional trailing slash; 18% of the rule files probed with paths built from their own lines, 12% with a line repeated after a rule of the other polarity (A, B, A) and paths both cover; ten fixed rule files of that shape and eight with a '*' that has to match zero characters; seven rule files whose verdict depends on segment boundaries against 16 paths with and without backslashes; plus three generated rule files judged by the segment-wise matcher only (two of about 1 MiB of short lines with the rules that matter at the end, one with a 70 KiB comment line); non-trivial = rule file has a negation, a '**', or a metacharacter atom; distinct by (rule file, paths)"
		r := NewRng(cfg.Seed)
		var reqs, impl []string
		var human []interface{}
		// fixed default-list probe paths (C16: history independence of the shared default rules)
		probePaths := []string{".git/", ".git/config", ".terraform/", ".terraform/modules/", ".terraform/modules/x", "a/.terraform/y", "main.tf", "a/.git/"}
		baseline := make([]ignorefiles.ExcludesResult, len(probePaths))
		for i, p := range probePaths {
			baseline[i], _ = ignorefiles.DefaultRuleset.Excludes(p)
		}
		// gen != nil: the rule file is generated from a compact description (megabyte rule files): it is
		// judged by the segment-wise matcher only (the Lean driver's string functions recurse per
		// character) and reports record the description instead of the content
		runOne := func(content string, paths []string, exotic bool, gen *RuleGen) {
			rs, err, pan := parseSafe(content)
			line := "ignore " + X(content)
			if gen != nil {
				line = fmt.Sprintf("ignore-gen %s %d %s", gen.Kind, gen.Bytes, X(gen.Text))
			}
			for _, p := range paths {
				line += " " + X(p)
			}
			ruleIn := func(path string) map[string]interface{} {
				in := map[string]interface{}{"rulefile": content}
				if gen != nil {
					in = map[string]interface{}{"rulefile_gen": gen}
				}
				if path != "" {
					in["path"] = path
				}
				return in
			}
			nt := strings.Contains(content, "!") || strings.Contains(content, "**") || strings.ContainsAny(content, "+()$|^{}")
			np := len(paths)
			if np > 3 {
				np = 3
			}
			sample := ruleIn("")
			sample["paths"] = paths[:np]
			// what a difference records: the rule file with every path of the request (enough to replay it)
			full := ruleIn("")
			full["paths"] = paths
			rep.Case(line, nt, sample)
			if pan != nil {
				rep.Count("outcome:parse-panic")
				rep.AddOracle(OracleFailure{Property: "C19", Lane: "ignore", What: fmt.Sprintf("ParseIgnoreFileContent panics: %v", pan), Input: ruleIn("")})
				if gen == nil {
					reqs = append(reqs, line)
					impl = append(impl, "panic")
					human = append(human, full)
				}
				return
			}
			if err != nil {
				rep.Count("outcome:parse-error")
				if gen != nil {
					rep.Count("outcome:parse-error:" + gen.Kind)
					// a rule file made of valid lines only must parse whatever the length of a line (F46, repaired)
					rep.AddOracle(OracleFailure{Property: "C03", Lane: "ignore", What: "a rule file of valid lines is refused as a whole: " + err.Error(), Input: ruleIn("")})
				}
				return
			}
			rep.Count("outcome:parsed")
			var outs []string
			orules := oParse(content)
			for _, p := range paths {
				res, _, pan := excludesSafe(rs, p)
				if pan != nil {
					rep.AddOracle(OracleFailure{Property: "C19", Lane: "ignore", What: fmt.Sprintf("Excludes panics: %v", pan), Input: ruleIn(p)})
					outs = append(outs, "panic")
					continue
				}
				if inc, ierr := rs.Includes(p); ierr == nil && inc == res.Excluded {
					rep.AddOracle(OracleFailure{Property: "C03", Lane: "ignore", What: fmt.Sprintf("Includes=%v and Excludes.Excluded=%v for the same path", inc, res.Excluded), Input: ruleIn(p)})
				}
				o := "f"
				if res.Excluded {
					o = "t"
				}
				if res.Dominating {
					o += "t"
				} else {
					o += "f"
				}
				outs = append(outs, o)
				if want := oExcluded(orules, p); !exotic && want != res.Excluded {
					rep.AddOracle(OracleFailure{Property: "C03", Lane: "ignore", What: fmt.Sprintf("Excludes=%v but the segment-wise rule language says %v", res.Excluded, want), Input: ruleIn(p)})
				}
				if res.Excluded {
					rep.Count("verdict:excluded")
				} else {
					rep.Count("verdict:included")
				}
			}
			if gen != nil {
				rep.Count("outcome:oracle-only:" + gen.Kind)
			} else if !exotic {
				reqs = append(reqs, line)
				impl = append(impl, strings.Join(outs, " "))
				human = append(human, full)
			} else {
				rep.Count("outcome:exotic-pattern")
			}
			// C16: the shared default rules are unaffected by parsing
			for k, p := range probePaths {
				now, _ := ignorefiles.DefaultRuleset.Excludes(p)
				if now != baseline[k] {
					rep.AddOracle(OracleFailure{Property: "C16", Lane: "ignore", What: fmt.Sprintf("DefaultRuleset.Excludes(%q) changed from %v to %v after parsing a rule file", p, baseline[k], now), Input: ruleIn("")})
					baseline[k] = now
				}
			}
		}
		// exact replay (-case): the recorded rule file with its path ("path") or paths ("paths"; the
		// built-in probe paths if the record names none) goes first
		{
			var rin struct {
				Rulefile    *string  `json:"rulefile"`
				RulefileGen *RuleGen `json:"rulefile_gen"`
				Path        *string  `json:"path"`
				Paths       []string `json:"paths"`
			}
			if loadReplayInput(cfg, "ignore", &rin) && rin.RulefileGen != nil && rin.Rulefile == nil {
				content := expandFill(rin.RulefileGen.Kind, rin.RulefileGen.Bytes, rin.RulefileGen.Text)
				rin.Rulefile = &content
			}
			if rin.Rulefile != nil {
				var paths []string
				if rin.Path != nil {
					paths = append(paths, *rin.Path)
				}
				paths = append(paths, rin.Paths...)
				if len(paths) == 0 {
					paths = append(paths, probePaths...)
				}
				s0 := len(reqs)
				rep.BeginReplay()
				// patterns with brackets or backslashes are outside the modelled fragment (as in the generator)
				runOne(*rin.Rulefile, paths, strings.ContainsAny(*rin.Rulefile, "[]\\"), rin.RulefileGen)
				rep.EndReplay(reqs[s0:]...)
			} else {
				replayMissing(cfg, rep, "ignore")
			}
		}
		// oracle-only corpus: a rule file of a bit more than 1 MiB of short valid lines with the exclusions
		// that matter at its end (seed C10-f: rules beyond the first MiB silently dropped), and one with a
		// comment line beyond bufio.Scanner's 64 KiB token limit (refused as a whole by the unchanged code:
		// "token too long"; were it accepted, every rule of it would have to count)
		for _, g := range bigRuleGens {
			g := g
			runOne(expandFill(g.Kind, g.Bytes, g.Text), bigRulePaths, false, &g)
		}
		for _, rules := range backslashPathRules {
			runOne(rules, backslashPaths, false, nil)
		}
		for _, c := range repeatedLineRules {
			rep.Count("corpus:repeated-line")
			runOne(c.rules, c.paths, false, nil)
		}
		for _, c := range emptyStarRules {
			rep.Count("corpus:empty-star")
			runOne(c.rules, c.paths, false, nil)
		}
		for i := 0; i < cfg.N; i++ {
			content := genRuleFile(r)
			if i < 2*len(degenerateRuleLines) {
				content = degenerateRuleLines[i/2]
				if i%2 == 1 {
					content = "foo\n" + content + "\n!bar/\n"
				}
			}
			paths := make([]string, 12)
			for j := range paths {
				paths[j] = genIgnPath(r)
			}
			if i >= 2*len(degenerateRuleLines) {
				switch x := r.Intn(100); {
				case x < 12:
					// a repeated line with a rule of the other polarity in between, and paths both cover
					var probe []string
					content, probe = genRepeatedRuleFile(r)
					copy(paths, probe)
					rep.Count("shape:repeated-line (A, B, A)")
				case x < 30:
					// paths made from the rule file's own lines ('*' standing for nothing or for one character)
					k := 0
					for _, l := range strings.Split(strings.ReplaceAll(content, "\r", ""), "\n") {
						if t := strings.TrimFunc(l, isSpaceRune); t != "" && t != "!" && t[0] != '#' && strings.Trim(t, "!/") != "" && k < 6 {
							paths[k] = pathForPattern(r, t)
							k++
						}
					}
					if k > 0 {
						rep.Count("shape:paths-from-patterns")
					}
				}
			}
			exotic := false
			if i >= 2*len(degenerateRuleLines) && r.Chance(5) {
				// patterns outside the modelled fragment (brackets, backslashes, an unbalanced bracket that
				// makes the regular expression invalid): judged for robustness only, not sent to the model
				exotic = true
				content = r.Pick([]string{"[ab]\n", "a[\n", "a]\n", "\\*\n", "foo\\\n", "\\\n", "[\n", "a\\b/c\n", "*.[ch]\n!x\\\n", "[!a]\n", "[^a]*\n", "{a,b}[\n"}) + content
			}
			runOne(content, paths, exotic, nil)
		}
		// the model answers "unsupported" for rule files outside its fragment; those cases are judged by
		// the oracle only (the generator produces none, so any such answer is reported as a difference)
		rep.Compare(cfg.Driver, reqs, impl, human)
	}
}
