package main

import (
	"encoding/json"
	"fmt"
	"os"
	"path/filepath"
	"sort"
	"strings"
	"sync"

	"github.com/apparentlymart/go-versions/versions"
	"github.com/hashicorp/go-slug/sourceaddrs"
	"github.com/hashicorp/go-slug/sourcebundle"
)

// builder lane (C08 C14 C17; also used by C12 C13 C09): NewBuilder/Add*/Close with a scripted
// fetcher, registry client, finders and a recording tracer, against the Lean model (Builder.lean)
// and against a reference closure computed independently from the scripted world.

var bPkgPool = []string{
	"git::https://example.com/p0.git", "git::https://example.com/p1.git", "https://example.com/a2.tar.gz",
	"git::https://example.com/q3.git?ref=v1", "git::ssh://example.com/s4.git", "https://example.com/dl/a5.tgz?x=y",
}
// package URLs in a non-canonical spelling (raw space, '|', non-ASCII letter, unescaped quote, '^'): url.Parse
// keeps the spelling in RawPath; addresses of these packages are BUILT with sourceaddrs.MakeRemoteSource from
// the parsed URL, not parsed from a string (seed C08-f: the built value must equal the one a re-opened bundle
// reads back from its manifest)
var bOddPkgPool = []struct{ Type, Spelling string }{
	{"https", "https://example.com/my dir/a|b.tgz"},
	{"git", "https://example.com/r\u00e9/p6.git"},
	{"https", "https://example.com/dl/q\"7.tar.gz?x=y"},
	{"git", "ssh://example.com/s 8.git"},
	{"git", "https://example.com/g^9.git?ref=v1"},
}

// versions no listing of the pool contains: below all of them, between two, above all, pre-releases
var bUnlistedVerPool = []string{"0.0.1", "0.9.5", "1.0.5", "1.2.3-rc1", "1.5.0", "2.1.0-beta2", "2.1.0", "3.0.0", "9.9.9", "2.0.1-alpha"}

// pickUnlisted: a version the registry package does not list (pool entries and versions other listings use)
func pickUnlisted(r *Rng, reg BReg) string {
	cands := append(append([]string{}, bUnlistedVerPool...), bVerPool...)
	start := r.Intn(len(cands))
	for k := 0; k < len(cands); k++ {
		v := cands[(start+k)%len(cands)]
		listed := false
		for _, o := range reg.Versions {
			if o.Ver == v {
				listed = true
			}
		}
		if !listed {
			return v
		}
	}
	return "9.9.9"
}

// the first two differ in the registry host only (seed C17-c: tables keyed without the host)
var bRegPool = []string{"example.com/ns/m0/aws", "other.example.org/ns/m0/aws", "ns/m1/aws", "example.com/ns/m2/azurerm"}
var bVerPool = []string{"1.0.0", "1.1.0", "1.2.3", "2.0.0", "2.1.0-beta1", "0.9.0", "1.10.0", "1.2.3+linux", "1.2.3+darwin", "2.0.0+build.5"}
var bSubPool = []string{"", "m", "m/n", "k", "a/b"}
var bRelPool = []string{"./k", "../", "../k", "./m/n", "../../x", "../../..", "./", "../m", "./a/b"}
var bAllowedPool = []string{"all", "released", "only:1.1.0", "atleast:1.1.0", "olderthan:2.0.0", "range:1.0.0:2.0.0", "sel:1.0.0+2.0.0", "only:9.9.9", "atleast:3.0.0", "only:2.1.0-beta1"}

func canonReg(s string) string {
	r, err := sourceaddrs.ParseRegistryPackage(s)
	if err != nil {
		panic("harness: registry pool entry " + s)
	}
	return r.String()
}

func genBWorld(r *Rng, faulty bool) (*BWorld, []BOp) {
	w := &BWorld{}
	npk := 2 + r.Intn(4)
	perm := r.Intn(len(bPkgPool))
	for i := 0; i < npk; i++ {
		p := BPkg{Addr: bPkgPool[(perm+i)%len(bPkgPool)], Content: fmt.Sprintf("c%d", i)}
		if r.Chance(12) {
			o := bOddPkgPool[r.Intn(len(bOddPkgPool))]
			src, err := oddRemote(o.Type, o.Spelling, "")
			if err != nil {
				panic("harness: odd package pool entry " + o.Spelling + ": " + err.Error())
			}
			addr, used := src.Package().String(), false
			for _, q := range w.Pkgs {
				if q.Addr == addr {
					used = true
				}
			}
			if !used {
				p.Addr, p.SrcType, p.Spelling = addr, o.Type, o.Spelling
			}
		}
		if i > 0 && r.Chance(20) {
			p.Content = w.Pkgs[r.Intn(i)].Content // coalescing
		}
		if r.Chance(40) {
			p.HasMeta = true
			p.MetaCommit = fmt.Sprintf("%040x", r.Next())
			if r.Chance(15) {
				p.MetaCommit = "" // metadata without a commit id (only a message)
			}
			p.MetaMsg = r.Pick([]string{"", "fix things", "initial\ncommit é"})
		}
		if faulty && r.Chance(12) {
			p.Content = ""
		}
		w.Pkgs = append(w.Pkgs, p)
	}
	nreg := r.Intn(3)
	for i := 0; i < nreg; i++ {
		reg := BReg{Addr: canonReg(bRegPool[i])}
		if faulty && r.Chance(8) {
			reg.Err = true
		}
		n := 1 + r.Intn(4)
		if faulty && r.Chance(12) {
			n = 0 // a registered package with nothing published
		}
		start := r.Intn(len(bVerPool))
		for k := 0; k < n; k++ {
			v := BVer{Ver: bVerPool[(start+k*3)%len(bVerPool)]}
			dup := false
			for _, o := range reg.Versions {
				if o.Ver == v.Ver {
					dup = true
				}
			}
			if dup {
				continue
			}
			if r.Chance(25) {
				v.HasDep = true
				v.DepReason = r.Pick([]string{"old", "security", ""})
				v.DepLink = r.Pick([]string{"https://example.com/why", ""})
			}
			reg.Versions = append(reg.Versions, v)
		}
		// now and then the listing also holds a version that differs from a listed one in build metadata only
		// (seed C08-g: tables keyed by the version without its build metadata)
		if len(reg.Versions) > 0 && r.Chance(15) {
			if t := tiedPartner(r, reg); t != "" {
				reg.Versions = append(reg.Versions, BVer{Ver: t})
			}
		}
		// pre-release / build identifiers with upper-case letters (identifiers are case sensitive): a listing
		// that offers only the upper-case spelling, or both spellings in either order (seed C17-h)
		if r.Chance(18) {
			pair := bUpperVerPool[r.Intn(len(bUpperVerPool))]
			add := []string{pair[0]}
			if r.Chance(50) {
				add = append(add, pair[1])
				if r.Chance(50) {
					add[0], add[1] = add[1], add[0]
				}
			}
			for _, a := range add {
				dup := false
				for _, o := range reg.Versions {
					if o.Ver == a {
						dup = true
					}
				}
				if !dup {
					v := BVer{Ver: a}
					if r.Chance(25) {
						v.HasDep, v.DepReason, v.DepLink = true, "spelling "+a, ""
					}
					reg.Versions = append(reg.Versions, v)
				}
			}
		}
		w.Regs = append(w.Regs, reg)
		for _, v := range reg.Versions {
			s := BSrc{Reg: reg.Addr, Ver: v.Ver, Pkg: w.Pkgs[r.Intn(npk)].Addr, Sub: r.Pick([]string{"", "", "m", "m/n"})}
			if faulty && r.Chance(6) {
				s.Err = true
			}
			w.Srcs = append(w.Srcs, s)
		}
	}
	contents := map[string]bool{}
	for _, p := range w.Pkgs {
		if p.Content != "" && !contents[p.Content] {
			contents[p.Content] = true
			for _, sub := range bSubPool {
				for f := 0; f < 2; f++ {
					if !r.Chance(45) {
						continue
					}
					d := BDep{Content: p.Content, Sub: sub, Finder: f}
					nd := r.Intn(4)
					for k := 0; k < nd; k++ {
						switch x := r.Intn(100); {
						case x < 35:
							d.Decls = append(d.Decls, BDecl{Kind: "r", Pkg: w.Pkgs[r.Intn(npk)].Addr, Sub: r.Pick(bSubPool), Finder: r.Intn(2)})
						case x < 55 && nreg > 0:
							g := BDecl{Kind: "g", Pkg: w.Regs[r.Intn(nreg)].Addr, Sub: r.Pick([]string{"", "", "k", "m"}), Allowed: pickAllowed(r, faulty), Finder: r.Intn(2)}
							d.Decls = append(d.Decls, g)
							if r.Chance(35) {
								// the same registry source once more from the same artefact, with another allowed
								// set: both requests count (seed C17-e: reports de-duplicated without the set)
								g2 := g
								g2.Allowed = pickAllowed(r, faulty)
								d.Decls = append(d.Decls, g2)
							}
						case x < 88:
							rel := r.Pick(bRelPool)
							if !faulty && strings.HasPrefix(rel, "../../") && strings.Count(sub, "/") < 1 {
								rel = "./k"
							}
							d.Decls = append(d.Decls, BDecl{Kind: "l", Rel: rel, Finder: r.Intn(2)})
						case x < 97:
							d.Decls = append(d.Decls, BDecl{Kind: "w", Summary: r.Pick([]string{"deprecated syntax", "warn é"}), File: r.Pick([]string{"main.tf", "m/main.tf", "../bad", "", "a//b", "./x"})})
						default:
							if faulty {
								d.Decls = append(d.Decls, BDecl{Kind: "e", Summary: "bad module", File: r.Pick([]string{"main.tf", "../bad"})})
							}
						}
					}
					w.Deps = append(w.Deps, d)
				}
			}
		}
	}
	w.SharedDiags = r.Chance(50)
	if w.SharedDiags && r.Chance(60) {
		// a finder that raises one kept warning about the same file name for most of what it analyses,
		// whatever the package (seed C12-f: the second package's diagnostic must not name the first)
		f := r.Intn(2)
		kept := BDecl{Kind: "w", Summary: r.Pick([]string{"kept warning", "deprecated syntax"}), File: r.Pick([]string{"main.tf", "m/main.tf", "main.tf", ""})}
		for i := range w.Deps {
			if w.Deps[i].Finder == f && r.Chance(75) {
				w.Deps[i].Decls = append(w.Deps[i].Decls, kept)
			}
		}
	}
	var ops []BOp
	nops := 1 + r.Intn(4)
	agHi := 90
	if faulty {
		agHi = 80 // more AddFinalRegistrySource calls where a pinned version may be one the registry does not offer
	}
	for i := 0; i < nops; i++ {
		switch x := r.Intn(100); {
		case x < 60 || nreg == 0:
			ops = append(ops, BOp{Kind: "ar", Pkg: w.Pkgs[r.Intn(npk)].Addr, Sub: r.Pick(bSubPool), Finder: r.Intn(2)})
		case x < agHi:
			ops = append(ops, BOp{Kind: "ag", Pkg: w.Regs[r.Intn(nreg)].Addr, Sub: r.Pick([]string{"", "k", "m"}), Allowed: pickAllowed(r, faulty), Finder: r.Intn(2)})
		default:
			reg := w.Regs[r.Intn(nreg)]
			if faulty && r.Chance(50) {
				// a pinned version the registry does not (or no longer) offer: the build must report an error,
				// not fall back to another version (seed C17-f)
				ops = append(ops, BOp{Kind: "af", Pkg: reg.Addr, Sub: r.Pick([]string{"", "k"}), Allowed: pickUnlisted(r, reg), Finder: r.Intn(2)})
			} else if len(reg.Versions) > 0 {
				ops = append(ops, BOp{Kind: "af", Pkg: reg.Addr, Sub: r.Pick([]string{"", "k"}), Allowed: reg.Versions[r.Intn(len(reg.Versions))].Ver, Finder: r.Intn(2)})
			}
		}
		if len(ops) > 0 && r.Chance(15) {
			ops = append(ops, ops[r.Intn(len(ops))]) // repeated Add
		}
	}
	if len(ops) == 0 {
		ops = append(ops, BOp{Kind: "ar", Pkg: w.Pkgs[0].Addr, Finder: 0})
	}
	nBasic := len(ops)
	// final registry sources given as TEXT (parsed, not built with Versioned); a listed version with upper-case
	// identifiers is often pinned that way
	for i := range ops {
		if ops[i].Kind == "af" && r.Chance(40) {
			ops[i].Text = true
		}
	}
	for _, reg := range w.Regs {
		if reg.Err {
			continue
		}
		for _, v := range reg.Versions {
			if v.Ver != strings.ToLower(v.Ver) && r.Chance(60) {
				ops = append(ops, BOp{Kind: "af", Pkg: reg.Addr, Sub: r.Pick([]string{"", "k", "m"}), Allowed: v.Ver, Finder: r.Intn(2), Text: r.Chance(75)})
				break
			}
		}
	}
	// the same registry package at the same version requested several times with different sub-paths: the
	// registry is asked once, every request is joined with its own sub-path (seed C11-h: the join skipped
	// when the answer comes from the builder's table)
	if nreg > 0 && r.Chance(15) {
		reg := w.Regs[r.Intn(nreg)]
		if !reg.Err && len(reg.Versions) > 0 {
			ver := reg.Versions[r.Intn(len(reg.Versions))].Ver
			subs := []string{"", "k", "m", "a/b", "m/n"}
			start := r.Intn(len(subs))
			nrep := 2
			if r.Chance(25) {
				nrep = 3
			}
			for k := 0; k < nrep; k++ {
				sub := subs[(start+k)%len(subs)]
				if r.Chance(50) {
					ops = append(ops, BOp{Kind: "af", Pkg: reg.Addr, Sub: sub, Allowed: ver, Finder: r.Intn(2), Text: r.Chance(30)})
				} else {
					ops = append(ops, BOp{Kind: "ag", Pkg: reg.Addr, Sub: sub, Allowed: "only:" + ver, Finder: r.Intn(2)})
				}
			}
		}
	}
	// a package whose URL is spelled non-canonically reaches the builder in BOTH spellings: built from the
	// spelled URL (raw space, non-ASCII letter, ...) and parsed from the printed, percent-encoded form - in Add
	// calls and in what the finders report (seed C13-h: the two values unequal although they print the same)
	for _, p := range w.Pkgs {
		if p.Spelling == "" {
			continue
		}
		for i := range ops {
			if ops[i].Kind == "ar" && ops[i].Pkg == p.Addr && r.Chance(40) {
				ops[i].Canon = true
			}
		}
		for i := range w.Deps {
			for k := range w.Deps[i].Decls {
				if dc := &w.Deps[i].Decls[k]; dc.Kind == "r" && dc.Pkg == p.Addr && r.Chance(40) {
					dc.Canon = true
				}
			}
		}
		if r.Chance(40) {
			// one Add call in the spelling opposite to that of an existing Add call for the package (two calls, one
			// per spelling, where there is none)
			have := -1
			for i := range ops {
				if ops[i].Kind == "ar" && ops[i].Pkg == p.Addr {
					have = i
				}
			}
			if have < 0 {
				ops = append(ops, BOp{Kind: "ar", Pkg: p.Addr, Sub: r.Pick(bSubPool), Finder: r.Intn(2), Canon: r.Chance(50)})
				have = len(ops) - 1
			}
			o := BOp{Kind: "ar", Pkg: p.Addr, Sub: r.Pick(bSubPool), Finder: r.Intn(2), Canon: !ops[have].Canon}
			if r.Chance(50) {
				ops = append(ops, o)
			} else {
				ops = append([]BOp{o}, ops...)
			}
		}
	}
	if len(ops) > nBasic && len(ops) == 4 {
		// the calls added above brought the build to four Add calls, the size at which the builder-order lane
		// still runs all 24 orders: one call is repeated (a repeated Add is an ordinary shape), so that these
		// worlds take the sampled route (12 orders) and the lane's run time stays where it was
		ops = append(ops, ops[r.Intn(len(ops))])
	}
	// a registry package that lists two versions differing in build metadata only: often BOTH are pinned in
	// the same build (AddFinalRegistrySource, or AddRegistrySource with an exact set), so that the bundle
	// has to keep two entries apart that compare as equal in precedence
	for _, reg := range w.Regs {
		a, b := tiedPair(reg)
		if a == "" || reg.Err || !r.Chance(50) {
			continue
		}
		for _, v := range []string{a, b} {
			if r.Chance(70) {
				ops = append(ops, BOp{Kind: "af", Pkg: reg.Addr, Sub: r.Pick([]string{"", "k", "m"}), Allowed: v, Finder: r.Intn(2)})
			} else {
				ops = append(ops, BOp{Kind: "ag", Pkg: reg.Addr, Sub: r.Pick([]string{"", "k", "m"}), Allowed: "only:" + v, Finder: r.Intn(2)})
			}
		}
	}
	return w, ops
}

// sameButMeta: two different version strings of equal precedence (they differ in build metadata only)
func sameButMeta(a, b string) bool {
	return a != b && versions.MustParseVersion(a).Same(versions.MustParseVersion(b))
}

// tiedPair: two listed versions of reg that differ in build metadata only ("" if there are none)
func tiedPair(reg BReg) (string, string) {
	for i, x := range reg.Versions {
		for _, y := range reg.Versions[i+1:] {
			if sameButMeta(x.Ver, y.Ver) {
				return x.Ver, y.Ver
			}
		}
	}
	return "", ""
}

// tiedPartner: a pool version that differs from a listed version of reg in build metadata only and is not
// listed itself
func tiedPartner(r *Rng, reg BReg) string {
	start := r.Intn(len(bVerPool))
	for k := range bVerPool {
		c := bVerPool[(start+k)%len(bVerPool)]
		listed, tied := false, false
		for _, v := range reg.Versions {
			if v.Ver == c {
				listed = true
			}
			if sameButMeta(v.Ver, c) {
				tied = true
			}
		}
		if tied && !listed {
			return c
		}
	}
	return ""
}

// builderCorpus: fixed cases that run with every seed, after the generated ones. Worlds in which two versions
// of one registry package that differ in build metadata only are both resolved in one build, naming different
// packages / sub-paths, one of them deprecated (seed C08-g / C13-g).
func builderCorpus() []*bCase {
	p0, p1, p2 := bPkgPool[0], bPkgPool[1], bPkgPool[2]
	reg := canonReg(bRegPool[2])
	pkgs := []BPkg{{Addr: p0, Content: "c0"}, {Addr: p1, Content: "c1", HasMeta: true, MetaCommit: "00000000000000000000000000000000000000aa", MetaMsg: "fix things"}, {Addr: p2, Content: "c2"}}
	w1 := &BWorld{Pkgs: pkgs,
		Regs: []BReg{{Addr: reg, Versions: []BVer{{Ver: "0.9.0", HasDep: true, DepReason: "old", DepLink: "https://example.com/why"}, {Ver: "1.2.3+linux"}, {Ver: "1.2.3+darwin", HasDep: true, DepReason: "security", DepLink: ""}}}},
		Srcs: []BSrc{{Reg: reg, Ver: "0.9.0", Pkg: p0, Sub: ""}, {Reg: reg, Ver: "1.2.3+linux", Pkg: p1, Sub: ""}, {Reg: reg, Ver: "1.2.3+darwin", Pkg: p2, Sub: "m"}}}
	// the same listing the other way round, the exact sets given as constraints, one request from a finder
	w2 := &BWorld{Pkgs: pkgs,
		Regs: []BReg{{Addr: reg, Versions: []BVer{{Ver: "1.2.3+darwin"}, {Ver: "1.2.3"}, {Ver: "1.2.3+linux", HasDep: true, DepReason: "old", DepLink: "https://example.com/why"}}}},
		Srcs: []BSrc{{Reg: reg, Ver: "1.2.3+darwin", Pkg: p2, Sub: ""}, {Reg: reg, Ver: "1.2.3", Pkg: p0, Sub: "m"}, {Reg: reg, Ver: "1.2.3+linux", Pkg: p1, Sub: "m/n"}},
		Deps: []BDep{{Content: "c0", Sub: "", Finder: 0, Decls: []BDecl{{Kind: "g", Pkg: reg, Sub: "", Allowed: "only:1.2.3+linux", Finder: 1}}}}}
	reg2 := canonReg(bRegPool[0])
	w3 := &BWorld{Pkgs: pkgs,
		Regs: []BReg{{Addr: reg2, Versions: []BVer{{Ver: "2.0.0+build.5"}, {Ver: "1.0.0"}, {Ver: "2.0.0"}}}},
		Srcs: []BSrc{{Reg: reg2, Ver: "2.0.0+build.5", Pkg: p1, Sub: "m"}, {Reg: reg2, Ver: "1.0.0", Pkg: p0, Sub: ""}, {Reg: reg2, Ver: "2.0.0", Pkg: p2, Sub: ""}}}
	// one registry package at one version requested several times with different sub-paths, the registry naming a
	// sub-path of its own (seed C11-h); the same from a finder
	w4 := &BWorld{Pkgs: pkgs,
		Regs: []BReg{{Addr: reg2, Versions: []BVer{{Ver: "1.0.0"}, {Ver: "1.1.0"}}}},
		Srcs: []BSrc{{Reg: reg2, Ver: "1.0.0", Pkg: p0, Sub: ""}, {Reg: reg2, Ver: "1.1.0", Pkg: p1, Sub: "m"}},
		Deps: []BDep{{Content: "c2", Sub: "", Finder: 0, Decls: []BDecl{{Kind: "g", Pkg: reg2, Sub: "", Allowed: "all", Finder: 0}, {Kind: "g", Pkg: reg2, Sub: "n", Allowed: "all", Finder: 0}, {Kind: "g", Pkg: reg2, Sub: "k", Allowed: "atleast:1.1.0", Finder: 1}}}}}
	// listings with upper-case identifiers: only the upper-case spelling / both spellings; pinned from text (seed C17-h)
	w5 := &BWorld{Pkgs: pkgs,
		Regs: []BReg{{Addr: reg, Versions: []BVer{{Ver: "1.0.0-RC1"}, {Ver: "0.9.0"}}}, {Addr: reg2, Versions: []BVer{{Ver: "1.0.0-rc1", HasDep: true, DepReason: "old", DepLink: ""}, {Ver: "1.0.0-RC1"}, {Ver: "2.0.0-Beta.2+Build.7"}}}},
		Srcs: []BSrc{{Reg: reg, Ver: "1.0.0-RC1", Pkg: p0, Sub: ""}, {Reg: reg, Ver: "0.9.0", Pkg: p1, Sub: ""}, {Reg: reg2, Ver: "1.0.0-rc1", Pkg: p1, Sub: "m"}, {Reg: reg2, Ver: "1.0.0-RC1", Pkg: p2, Sub: ""}, {Reg: reg2, Ver: "2.0.0-Beta.2+Build.7", Pkg: p0, Sub: "k"}}}
	// a package spelled with a raw space, reached in both spellings (seed C13-h)
	odd := bOddPkgPool[0]
	oddSrc, err := oddRemote(odd.Type, odd.Spelling, "")
	if err != nil {
		panic("harness: odd package pool entry " + odd.Spelling)
	}
	oddAddr := oddSrc.Package().String()
	w6 := &BWorld{Pkgs: []BPkg{{Addr: p0, Content: "c0"}, {Addr: oddAddr, Content: "c1", SrcType: odd.Type, Spelling: odd.Spelling}},
		Deps: []BDep{{Content: "c0", Sub: "", Finder: 0, Decls: []BDecl{{Kind: "r", Pkg: oddAddr, Sub: "m", Finder: 0, Canon: true}}}}}
	return []*bCase{
		{World: w4, Ops: []BOp{{Kind: "ag", Pkg: reg2, Sub: "", Allowed: "all", Finder: 0}, {Kind: "ag", Pkg: reg2, Sub: "k", Allowed: "all", Finder: 0}, {Kind: "af", Pkg: reg2, Sub: "a/b", Allowed: "1.1.0", Finder: 1}, {Kind: "af", Pkg: reg2, Sub: "k", Allowed: "1.0.0", Finder: 0, Text: true}, {Kind: "ar", Pkg: p2, Sub: "", Finder: 0}}},
		{World: w5, Ops: []BOp{{Kind: "af", Pkg: reg, Sub: "", Allowed: "1.0.0-RC1", Finder: 0, Text: true}, {Kind: "af", Pkg: reg2, Sub: "k", Allowed: "1.0.0-RC1", Finder: 1, Text: true}, {Kind: "af", Pkg: reg2, Sub: "", Allowed: "2.0.0-Beta.2+Build.7", Finder: 0, Text: true}}},
		{World: w6, Ops: []BOp{{Kind: "ar", Pkg: oddAddr, Sub: "", Finder: 0}, {Kind: "ar", Pkg: oddAddr, Sub: "k", Finder: 1, Canon: true}, {Kind: "ar", Pkg: p0, Sub: "", Finder: 0}}},
		{World: w1, Ops: []BOp{{Kind: "af", Pkg: reg, Sub: "", Allowed: "1.2.3+linux", Finder: 0}, {Kind: "af", Pkg: reg, Sub: "", Allowed: "1.2.3+darwin", Finder: 0}, {Kind: "af", Pkg: reg, Sub: "k", Allowed: "0.9.0", Finder: 1}}},
		{World: w2, Ops: []BOp{{Kind: "ag", Pkg: reg, Sub: "k", Allowed: "only:1.2.3+darwin", Finder: 0}, {Kind: "ar", Pkg: p0, Sub: "", Finder: 0}, {Kind: "ag", Pkg: reg, Sub: "", Allowed: "only:1.2.3", Finder: 1}}},
		{World: w3, Ops: []BOp{{Kind: "af", Pkg: reg2, Sub: "", Allowed: "2.0.0", Finder: 0}, {Kind: "af", Pkg: reg2, Sub: "k", Allowed: "2.0.0+build.5", Finder: 1}}},
	}
}

// pairs (upper-case spelling, lower-case sibling) of versions whose pre-release / build identifiers have letters
var bUpperVerPool = [][2]string{{"1.0.0-RC1", "1.0.0-rc1"}, {"2.0.0-Beta.2+Build.7", "2.0.0-beta.2+build.7"}, {"1.0.0-RC1", "1.0.0-rc1"}}

// manifestDuplicates: descriptions of manifest rows of the bundle in target that share their source address
func manifestDuplicates(target string) []string {
	var mf struct {
		Packages []struct {
			Source string `json:"source"`
			Local  string `json:"local"`
		} `json:"packages"`
	}
	raw, err := os.ReadFile(filepath.Join(target, "terraform-sources.json"))
	if err != nil || json.Unmarshal(raw, &mf) != nil {
		return nil
	}
	rows := map[string][]string{}
	var order []string
	for _, p := range mf.Packages {
		if _, ok := rows[p.Source]; !ok {
			order = append(order, p.Source)
		}
		rows[p.Source] = append(rows[p.Source], p.Local)
	}
	var out []string
	for _, s := range order {
		if len(rows[s]) > 1 {
			out = append(out, fmt.Sprintf("the manifest has %d package rows with the same source %s (local directories %s): the bundle depends on more than the set of sources added", len(rows[s]), s, strings.Join(rows[s], ", ")))
		}
	}
	return out
}

func pickAllowed(r *Rng, faulty bool) string {
	a := r.Pick(bAllowedPool)
	if !faulty && (a == "only:9.9.9" || a == "atleast:3.0.0") {
		return "all"
	}
	return a
}

// ---------- reference closure (independent of the model) ----------

type refArt struct {
	pkg, sub string
	f        int
}

type refResult struct {
	fail     bool // some step fails => the build must report an error
	arts     map[refArt]bool
	resolved map[string]string // reg|ver -> pkg|sub
	regReq   []struct{ reg, sub, ver string }
	// regArt: per registry request, the (package, sub-path, finder) artefact it must lead to
	regArt []refArt
}

func refSelect(w *BWorld, reg, dsl string) (string, bool, bool) {
	for _, rg := range w.Regs {
		if rg.Addr != reg {
			continue
		}
		if rg.Err {
			return "", false, true
		}
		set := allowedSet(dsl)
		best := ""
		for _, v := range rg.Versions {
			pv := versions.MustParseVersion(v.Ver)
			if !set.Has(pv) {
				continue
			}
			// among versions of the same precedence (differing in build metadata only) go-versions'
			// NewestInSet over the stably sorted listing keeps the last listed one (the library calls the
			// choice arbitrary; the reference follows the library, as the model's selectVersion does)
			if best == "" || !pv.LessThan(versions.MustParseVersion(best)) {
				best = v.Ver
			}
		}
		return best, best != "", false
	}
	return "", false, true
}

func refClosure(w *BWorld, ops []BOp) *refResult {
	res := &refResult{arts: map[refArt]bool{}, resolved: map[string]string{}}
	content := map[string]string{}
	for _, p := range w.Pkgs {
		content[p.Addr] = p.Content
	}
	var work []refArt
	add := func(a refArt) {
		if !res.arts[a] {
			res.arts[a] = true
			work = append(work, a)
		}
	}
	addReg := func(reg, sub, dsl string, f int) {
		ver, ok, regErr := refSelect(w, reg, dsl)
		if regErr || !ok {
			res.fail = true
			return
		}
		for _, s := range w.Srcs {
			if s.Reg == reg && s.Ver == ver {
				if s.Err {
					res.fail = true
					return
				}
				res.resolved[reg+"|"+ver] = s.Pkg + "|" + s.Sub
				res.regReq = append(res.regReq, struct{ reg, sub, ver string }{reg, sub, ver})
				final := strings.Trim(s.Sub+"/"+sub, "/")
				res.regArt = append(res.regArt, refArt{s.Pkg, final, f})
				add(refArt{s.Pkg, final, f})
				return
			}
		}
		res.fail = true
	}
	for _, op := range ops {
		switch op.Kind {
		case "ar":
			add(refArt{op.Pkg, op.Sub, op.Finder})
		case "ag":
			addReg(op.Pkg, op.Sub, op.Allowed, op.Finder)
		case "af":
			addReg(op.Pkg, op.Sub, "only:"+op.Allowed, op.Finder)
		}
	}
	for len(work) > 0 {
		a := work[0]
		work = work[1:]
		c, ok := content[a.pkg]
		if !ok || c == "" {
			res.fail = true
			continue
		}
		for _, d := range w.Deps {
			if d.Content != c || d.Sub != a.sub || d.Finder != a.f {
				continue
			}
			for _, dc := range d.Decls {
				switch dc.Kind {
				case "r":
					add(refArt{dc.Pkg, dc.Sub, dc.Finder})
				case "g":
					addReg(dc.Pkg, dc.Sub, dc.Allowed, dc.Finder)
				case "l":
					if sub, ok := refApply(a.sub, dc.Rel); ok {
						add(refArt{a.pkg, sub, dc.Finder})
					} else {
						res.fail = true
					}
				case "e":
					res.fail = true
				}
			}
			break
		}
	}
	return res
}

// ---------- trace checks (C14) ----------

func checkTrace(log []string, faultFree bool) []string {
	var problems []string
	open := map[string]string{} // kind -> key currently started
	completed := map[string]bool{}
	calls := map[string]int{}
	for _, ev := range log {
		kind, key := ev[:2], ev[3:]
		fam := kind[:1]
		switch kind[1] {
		case 's':
			if kind == "fs" || kind == "vs" || kind == "ss" {
				if k, ok := open[fam]; ok {
					problems = append(problems, fmt.Sprintf("start %s while %s is still open", ev, k))
				}
				open[fam] = key
			}
		case 'c':
			if kind == "fc" || kind == "vc" || kind == "sc" {
				calls[fam+":"+key]++
				if open[fam] != key {
					problems = append(problems, "call without start: "+ev)
				}
			}
		case 'o', 'f':
			if kind == "an" || kind == "td" {
				break
			}
			if open[fam] != key {
				problems = append(problems, "completion without matching start: "+ev)
			}
			delete(open, fam)
			if kind[1] == 'o' {
				completed[fam+":"+key] = true
			}
		case 'a':
			if kind == "fa" || kind == "va" || kind == "sa" {
				if !completed[fam+":"+key] {
					problems = append(problems, "'already' for work that did not complete earlier: "+ev)
				}
			}
		}
	}
	for fam, k := range open {
		problems = append(problems, "start without completion: "+fam+" "+k)
	}
	if faultFree {
		for k, n := range calls {
			if n > 1 {
				what := k
				fam, key, _ := strings.Cut(k, ":")
				var parts []string
				for _, x := range strings.Split(key, ":") {
					d, _ := UnX(x)
					parts = append(parts, d)
				}
				switch fam {
				case "f":
					what = "package " + strings.Join(parts, " ") + " (fetch)"
				case "v":
					what = "version listing of " + strings.Join(parts, " ")
				case "s":
					what = "source address of " + strings.Join(parts, " version ")
				}
				problems = append(problems, fmt.Sprintf("%s requested %d times", what, n))
			}
		}
	}
	return problems
}

type bCase struct {
	World *BWorld `json:"world"`
	Ops   []BOp   `json:"ops"`
	// NoDiagCb: the build runs with a tracer that has no Diagnostics callback (recorded so that a
	// replay takes the same route)
	NoDiagCb bool `json:"no_diag_cb,omitempty"`
}

// checkBCase: a recorded world must be one the scripted environment can serve (the helpers panic on
// addresses, versions and constraints they cannot parse). "" = usable.
func checkBCase(c *bCase) (why string) {
	if c == nil || c.World == nil || len(c.Ops) == 0 || len(c.World.Pkgs) == 0 {
		return "the recorded input is not a builder case (no world / no Add calls)"
	}
	defer func() {
		if x := recover(); x != nil {
			why = fmt.Sprintf("the recorded world is not well-formed: %v", x)
		}
	}()
	finder := func(f int) {
		if f < 0 || f > 2 {
			panic(fmt.Sprintf("finder index %d", f))
		}
	}
	w := c.World
	for _, p := range w.Pkgs {
		mustRemote(p.Addr, "")
		if p.Spelling != "" {
			// a package whose addresses are built from parts: the spelling must print as the recorded address
			// (the fetcher and the model know the package by its printed form)
			if got := w.remote(p.Addr, "").Package().String(); got != p.Addr {
				panic(fmt.Sprintf("spelling %q prints as %q, not as the recorded address %q", p.Spelling, got, p.Addr))
			}
		}
	}
	for _, r := range w.Regs {
		mustRegistry(r.Addr, "")
		for _, v := range r.Versions {
			versions.MustParseVersion(v.Ver)
		}
	}
	for _, sr := range w.Srcs {
		mustRegistry(sr.Reg, "")
		versions.MustParseVersion(sr.Ver)
		if !sr.Err {
			mustRemote(sr.Pkg, sr.Sub)
		}
	}
	for _, d := range w.Deps {
		finder(d.Finder)
		for _, dc := range d.Decls {
			finder(dc.Finder)
			switch dc.Kind {
			case "r":
				w.remoteAs(dc.Pkg, dc.Sub, dc.Canon)
			case "g":
				mustRegistry(dc.Pkg, dc.Sub)
				allowedSet(dc.Allowed)
			case "l":
				if _, err := sourceaddrs.ParseLocalSource(dc.Rel); err != nil {
					panic("bad local source " + dc.Rel)
				}
			case "w", "e":
			default:
				panic("declaration kind " + dc.Kind)
			}
		}
	}
	for _, o := range c.Ops {
		finder(o.Finder)
		switch o.Kind {
		case "ar":
			w.remote(o.Pkg, o.Sub)
		case "ag":
			mustRegistry(o.Pkg, o.Sub)
			allowedSet(o.Allowed)
		case "af":
			mustRegistry(o.Pkg, o.Sub)
			versions.MustParseVersion(o.Allowed)
			if o.Text && strings.ContainsAny(finalText(o), " \n") {
				panic("final registry text " + finalText(o))
			}
		default:
			panic("operation kind " + o.Kind)
		}
	}
	return ""
}

// loadReplayedBCase: the recorded builder case of the lane, if -case names the lane and it is usable.
func loadReplayedBCase(cfg *Config, rep *Report, lane string) *bCase {
	var c bCase
	if !loadReplayInput(cfg, lane, &c) {
		replayMissing(cfg, rep, lane)
		return nil
	}
	if why := checkBCase(&c); why != "" {
		rep.ReplayNote("refused: " + why)
		return nil
	}
	return &c
}

func hasErrorDiag(results []string) bool {
	for _, r := range results {
		for _, d := range strings.Split(r, ",") {
			if strings.HasPrefix(d, "E") {
				return true
			}
		}
	}
	return false
}

func init() {
	lanes["builder"] = func(cfg *Config, rep *Report) {
		rep.Rule = "scripted worlds: 2..5 remote packages (git/https/ssh, with query strings; shared content for coalescing), 0..2 registry packages with 1..4 versions (incl. pre-release, shuffled listing, deprecations), dependency tables per (content, sub-path, finder) with remote / registry / relative edges (cycles, diamonds, self-references arise freely), warnings with valid and invalid file names; about a third of the worlds hold a package whose URL is spelled non-canonically (raw space, '|', non-ASCII letter, quote, '^') and whose addresses are built with MakeRemoteSource from the parsed URL wherever they are added, reported or looked up; in half of the worlds the finders keep one pair of range objects per file name and hand it out with every diagnostic about that file (often one kept warning for most artefacts of a finder); 15% of the listings get a version that differs from a listed one in build metadata only, and for half of the listings with such a pair both versions are pinned in the build (AddFinalRegistrySource or an exact allowed set); a fixed corpus of such worlds; every registry request is looked up in the bundle returned by Close and in the re-opened one (location, recorded source address, deprecation note of exactly that version string); 18% of the listings offer a version whose pre-release / build identifiers have upper-case letters (1.0.0-RC1, 2.0.0-Beta.2+Build.7), half of those also the lower-case sibling, and such a version is usually pinned; 40% of the final registry sources are PARSED from their text (ParseFinalRegistrySource / ParseFinalSource) instead of built with Versioned (a pinned version the registry offers is resolved, never refused, and exactly that version is recorded); in 15% of the worlds with a registry one package version is requested two or three times with different sub-paths (every request's artefact = the address the registry named joined with the request's own sub-path, charged to C11); a package with a spelled URL is often reached in BOTH spellings - built from the spelled URL and parsed from the printed form, in Add calls and finder reports (C06: the two values are equal; C14: fetched once; C13: no two manifest rows with the same source); 1..5 Add calls incl. repeats and AddFinalRegistrySource (in failing worlds half of them pin a version the registry does not list: below all, between two, above all, pre-releases); lookups on the bundle returned by Close and on the re-opened one; one third of the worlds contain failing fetches/registry answers/escaping relative paths/error diagnostics; non-trivial = has a registry hop, a relative edge or a repeated Add; distinct by (world, ops)"
		r := NewRng(cfg.Seed)
		if cfg.Work == "" {
			rep.Broken = append(rep.Broken, "builder lane needs -work")
			return
		}
		n := cfg.N
		reqs := make([]string, n)
		impl := make([]string, n)
		human := make([]interface{}, n)
		cases := make([]*bCase, n)
		for i := range cases {
			w, ops := genBWorld(r, i%3 == 2)
			// every fifth build runs with a tracer that has no Diagnostics callback
			cases[i] = &bCase{World: w, Ops: ops, NoDiagCb: i%5 == 4}
		}
		// the fixed corpus takes extra slots after the generated cases
		for _, c := range builderCorpus() {
			cases = append(cases, c)
			reqs = append(reqs, "")
			impl = append(impl, "")
			human = append(human, nil)
		}
		// exact replay (-case): the recorded world and Add calls take an extra last slot and run first, alone
		replayIdx := -1
		if rc := loadReplayedBCase(cfg, rep, "builder"); rc != nil {
			replayIdx = len(cases)
			cases = append(cases, rc)
			reqs = append(reqs, "")
			impl = append(impl, "")
			human = append(human, nil)
		}
		var wg sync.WaitGroup
		sem := make(chan struct{}, 16)
		runCase := func(i int) {
				c := cases[i]
				target := filepath.Join(cfg.Work, fmt.Sprintf("b%06d", i))
				os.MkdirAll(target, 0755)
				defer os.RemoveAll(target)
				env := newEnv(c.World)
				op := "builder "
				if c.NoDiagCb {
					// a tracer that has no Diagnostics callback
					env.noDiagCb = true
					op = "builder-notd "
				}
				run := runBuild(c.World, c.Ops, target, env)
				reqs[i] = op + c.World.Encode() + " " + encOps(c.World, c.Ops)
				human[i] = c
				if run.timeout {
					impl[i] = "timeout"
					rep.AddOracle(OracleFailure{Property: "C14", Lane: "builder", What: "build did not terminate within 30 s", Input: c, ReqIdx: i + 1})
					return
				}
				impl[i] = run.canon(c.World)
				nt := false
				for _, d := range c.World.Deps {
					for _, dc := range d.Decls {
						if dc.Kind == "g" || dc.Kind == "l" {
							nt = true
						}
					}
				}
				for _, o := range c.Ops {
					if o.Kind != "ar" {
						nt = true
					}
				}
				rep.Case(reqs[i], nt, map[string]interface{}{"ops": c.Ops, "packages": len(c.World.Pkgs), "registry": len(c.World.Regs), "dep_rows": len(c.World.Deps), "results": run.results})
				judgeBuild(rep, c, run, i)
		}
		if replayIdx >= 0 {
			rep.BeginReplay()
			runCase(replayIdx)
			rep.EndReplay(reqs[replayIdx])
		}
		for i := range cases {
			if i == replayIdx {
				continue
			}
			wg.Add(1)
			sem <- struct{}{}
			go func(i int) {
				defer wg.Done()
				defer func() { <-sem }()
				runCase(i)
			}(i)
		}
		wg.Wait()
		rep.Compare(cfg.Driver, reqs, impl, human)
	}
}

// judgeBuild applies the implementation-level oracles of C08, C14 and C17 to one finished run.
func judgeBuild(rep *Report, c *bCase, run *bRun, i int) {
	w := c.World
	ref := refClosure(w, c.Ops)
	errs := hasErrorDiag(run.results)
	if errs {
		rep.Count("build:error")
	} else {
		rep.Count("build:ok")
	}
	fail := func(prop, what string) {
		rep.AddOracle(OracleFailure{Property: prop, Lane: "builder", What: what, Input: c, ReqIdx: i + 1})
	}
	// distribution of the world shapes of seeds C11-h / C13-h / C17-h
	{
		subsOf := map[string]map[string]bool{}
		for _, rq := range ref.regReq {
			k := rq.reg + "|" + rq.ver
			if subsOf[k] == nil {
				subsOf[k] = map[string]bool{}
			}
			subsOf[k][rq.sub] = true
		}
		for _, m := range subsOf {
			if len(m) > 1 {
				rep.Count("registry:same-package-version-requested-with-different-sub-paths")
				break
			}
		}
		spelled, canon := map[string]bool{}, map[string]bool{}
		note := func(pkg string, c bool) {
			if c {
				canon[pkg] = true
			} else {
				spelled[pkg] = true
			}
		}
		for _, o := range c.Ops {
			if o.Kind == "ar" {
				note(o.Pkg, o.Canon)
			}
		}
		for _, d := range w.Deps {
			for _, dc := range d.Decls {
				if dc.Kind == "r" {
					note(dc.Pkg, dc.Canon)
				}
			}
		}
		for _, p := range w.Pkgs {
			if p.Spelling != "" && spelled[p.Addr] && canon[p.Addr] {
				rep.Count("spelling:package-mentioned-in-both-spellings")
				break
			}
		}
		for _, o := range c.Ops {
			if o.Kind == "af" && o.Text {
				rep.Count("final:parsed-from-text")
				if o.Allowed != strings.ToLower(o.Allowed) {
					rep.Count("final:parsed-from-text-with-upper-case-identifiers")
				}
			}
		}
	}
	// C12: finder diagnostics reach the caller with package-relative file names rewritten as source
	// addresses inside the analysed package (a rewritten name is never itself a valid sub-path)
	for _, ds := range run.diagsRaw {
		for _, d := range ds {
			switch d.Description().Summary {
			case "Cannot resolve module registry package", "Cannot install source package", "Invalid relative source address":
				continue
			}
			if s := d.Source().Subject; s != nil && sourceaddrs.ValidSubPath(s.Filename) {
				fail("C12", fmt.Sprintf("finder diagnostic %q reached the caller with the package-relative file name %q, not rewritten as a source address", d.Description().Summary, s.Filename))
			}
		}
	}
	// C12: every finder diagnostic reaches the caller and the tracer once, naming the package that was
	// being analysed when the finder raised it (P//file for a valid sub-path file name; the name as given
	// otherwise), severity and text intact (seed C12-f: kept range objects rewritten in place)
	{
		var caller []deliveredDiag
		for _, ds := range run.diagsRaw {
			for _, d := range ds {
				switch d.Description().Summary {
				case "Cannot resolve module registry package", "Cannot install source package", "Invalid relative source address":
					continue
				}
				caller = append(caller, deliveredOf(d))
			}
		}
		run.env.mu.Lock()
		raised := append([]finderDiagRec{}, run.env.finderDiags...)
		traced := append([]deliveredDiag{}, run.env.tracedDiags...)
		run.env.mu.Unlock()
		judgeFinderDiags(w, raised, caller, "the caller", fail)
		// distribution: builds in which one finder raised diagnostics about one (valid) file name for two
		// different packages, i.e. a kept range object is handed out for a second package
		if len(raised) > 0 {
			rep.Count("diags:builds-with-finder-diagnostics")
			pk := map[string]bool{}
			for _, a := range raised {
				pk[a.pkg] = true
			}
			if len(pk) > 1 {
				rep.Count("diags:for-two-or-more-packages")
			}
		}
		if w.SharedDiags {
			reused := false
			for i, a := range raised {
				for _, b := range raised[:i] {
					if a.finder == b.finder && a.file == b.file && a.pkg != b.pkg && sourceaddrs.ValidSubPath(a.file) {
						reused = true
					}
				}
			}
			if reused {
				rep.Count("diags:kept-range-reused-for-second-package")
			}
		}
		if !run.env.noDiagCb {
			judgeFinderDiags(w, raised, traced, "the tracer", fail)
		}
	}
	// C17: a final registry source resolves to exactly its version or the build reports an error
	// (seed C17-f: a pinned version the registry does not offer silently replaced by an older one)
	for k, op := range c.Ops {
		if op.Kind != "af" || k >= len(run.results) || run.results[k] == "refused" || hasErrorDiag(run.results[k:k+1]) {
			continue
		}
		offered, listing := false, []string{}
		for _, rg := range w.Regs {
			if rg.Addr == op.Pkg && !rg.Err {
				for _, v := range rg.Versions {
					listing = append(listing, v.Ver)
					if versions.MustParseVersion(v.Ver).Same(versions.MustParseVersion(op.Allowed)) {
						offered = true
					}
				}
			}
		}
		if !offered {
			asked := []string{}
			for _, ev := range run.env.log {
				if strings.HasPrefix(ev, "sc:"+X(op.Pkg)+":") {
					v, _ := UnX(strings.TrimPrefix(ev, "sc:"+X(op.Pkg)+":"))
					asked = append(asked, v)
				}
			}
			fail("C17", fmt.Sprintf("AddFinalRegistrySource(%s@%s) reports no error although the registry does not offer %s (it offers [%s]); the registry was asked for the source of [%s]", op.Pkg, op.Allowed, op.Allowed, strings.Join(listing, " "), strings.Join(asked, " ")))
		} else if run.bundle != nil {
			fin := mustRegistry(op.Pkg, op.Sub).Versioned(versions.MustParseVersion(op.Allowed))
			if _, err := run.bundle.LocalPathForFinalRegistrySource(fin); err != nil {
				how := ""
				if op.Text {
					how = fmt.Sprintf(" (parsed from the text %q)", finalText(op))
				}
				var recorded []string
				for _, v := range run.bundle.RegistryPackageVersions(fin.Package()) {
					recorded = append(recorded, v.String())
				}
				fail("C17", fmt.Sprintf("final registry source %s%s was added without error but the bundle cannot look it up at that version: %v (versions recorded for the package: [%s])", fin, how, err, strings.Join(recorded, " ")))
			}
		}
	}
	// C14: bracketing always; exactly-once in fault-free builds
	for _, p := range checkTrace(run.env.log, !errs) {
		fail("C14", p)
	}
	if !errs {
		for k, n := range run.env.analysed {
			if n != 1 {
				fail("C14", fmt.Sprintf("artefact %s analysed %d times", k, n))
			}
		}
	}
	// the reference and the build must agree on whether anything failed (C12: failures are reported;
	// C08/C17: no spurious failure)
	if ref.fail && !errs {
		fail("C12", "the scripted world contains a failing step on the reachable graph but no error diagnostic was returned")
		return
	}
	if !ref.fail && errs {
		// C17: a pinned version the registry offers (exactly that version string) is resolved, not refused
		for k, op := range c.Ops {
			if op.Kind == "af" && k < len(run.results) && hasErrorDiag(run.results[k:k+1]) {
				how := "AddFinalRegistrySource(" + op.Pkg + "@" + op.Allowed + ")"
				if op.Text {
					how = fmt.Sprintf("AddFinalRegistrySource of the final source parsed from %q", finalText(op))
				}
				asked := []string{}
				for _, ev := range run.env.log {
					if strings.HasPrefix(ev, "sc:"+X(op.Pkg)+":") {
						v, _ := UnX(strings.TrimPrefix(ev, "sc:"+X(op.Pkg)+":"))
						asked = append(asked, v)
					}
				}
				askedRight := false
				for _, a := range asked {
					if a == op.Allowed {
						askedRight = true
					}
				}
				if askedRight {
					continue // the version was selected; the error comes from further down the graph
				}
				fail("C17", fmt.Sprintf("%s reports an error (%s) although the registry offers exactly version %s and every step reachable from it succeeds; the registry was asked for the source of [%s]", how, run.results[k], op.Allowed, strings.Join(asked, " ")))
			}
		}
		fail("C08", "the build reports an error although every reachable step of the scripted world succeeds: "+strings.Join(run.results, "|"))
		return
	}
	if errs {
		if run.bundle != nil {
			fail("C12", "a bundle object came out of a build that reported an error")
		}
		return
	}
	if run.bundle == nil {
		fail("C08", fmt.Sprintf("Close failed after an error-free build: %v (poisoned=%v)", run.closeErr, run.poisoned))
		return
	}
	// C06: a package that carries a spelling: the value built from the spelled URL and the value parsed from the
	// printed form print the same, so they are equal (seed C13-h)
	for _, p := range w.Pkgs {
		if p.Spelling == "" {
			continue
		}
		a, b2 := w.remote(p.Addr, "m"), mustRemote(p.Addr, "m")
		if a.String() == b2.String() && a != b2 {
			au, bu := a.Package().URL(), b2.Package().URL()
			fail("C06", fmt.Sprintf("two unequal remote addresses print the same (%s): MakeRemoteSource(%q, url.Parse(%q), \"m\") has RawPath %q / RawFragment %q, the address parsed from the printed form has RawPath %q / RawFragment %q", a, p.SrcType, p.Spelling, au.RawPath, au.RawFragment, bu.RawPath, bu.RawFragment))
		}
	}
	// C13: no two manifest rows with the same source
	for _, d := range manifestDuplicates(run.target) {
		fail("C13", d)
	}
	// C11: the same rules govern joining a registry sub-path onto the address a registry returns: every registry
	// request leads to the analysis of (the address the registry named for the selected version) joined with the
	// request's own sub-path by the segment rules (seed C11-h: the join skipped for a repeated package version)
	for qi, rq := range ref.regReq {
		if qi >= len(ref.regArt) {
			break
		}
		a := ref.regArt[qi]
		named := ref.resolved[rq.reg+"|"+rq.ver]
		npk, nsub, _ := strings.Cut(named, "|")
		joined, ok := refApply(nsub, "./"+rq.sub)
		if !ok || joined != a.sub {
			continue
		}
		if run.env.analysed[X(a.pkg)+":"+X(a.sub)+":"+fmt.Sprint(a.f)] > 0 {
			continue
		}
		// (only where the version selection went right: the registry was asked for the source of that version)
		askedRight := false
		for _, ev := range run.env.log {
			if ev == "sc:"+X(rq.reg)+":"+X(rq.ver) {
				askedRight = true
			}
		}
		if !askedRight {
			continue
		}
		var seenSubs []string
		for k := range run.env.analysed {
			parts := strings.Split(k, ":")
			if len(parts) == 3 && parts[0] == X(a.pkg) && parts[2] == fmt.Sprint(a.f) {
				sp, _ := UnX(parts[1])
				seenSubs = append(seenSubs, fmt.Sprintf("%q", sp))
			}
		}
		sort.Strings(seenSubs)
		repeated := 0
		for _, o := range ref.regReq {
			if o.reg == rq.reg && o.ver == rq.ver {
				repeated++
			}
		}
		fail("C11", fmt.Sprintf("registry source %s (selected version %s, requested %d time(s) in this build at that version): the registry named %s; joined with the request's sub-path %q by the segment rules that is %s, which finder %d never analysed (it analysed the sub-paths [%s] of that package)", mustRegistry(rq.reg, rq.sub), rq.ver, repeated, w.remote(npk, nsub), rq.sub, w.remote(a.pkg, a.sub), a.f, strings.Join(seenSubs, " ")))
	}
	// C08/C14: analysed set == reference closure
	got := map[string]bool{}
	for k := range run.env.analysed {
		got[k] = true
	}
	for a := range ref.arts {
		k := X(a.pkg) + ":" + X(a.sub) + ":" + fmt.Sprint(a.f)
		if !got[k] {
			fail("C08", fmt.Sprintf("reachable artefact %s//%s (finder %d) was never analysed", a.pkg, a.sub, a.f))
			fail("C14", fmt.Sprintf("(source address, finder) pair %s//%s (finder %d) analysed 0 times in a fault-free build, not exactly once", a.pkg, a.sub, a.f))
		}
		delete(got, k)
	}
	for k := range got {
		fail("C14", "analysed an artefact that is not reachable: "+k)
	}
	// C08: lookups
	b := run.bundle
	root, _ := filepath.EvalSymlinks(run.target)
	// the same lookups on the bundle re-opened from the target directory
	reopened, rerr := sourcebundle.OpenDir(run.target)
	if rerr != nil {
		fail("C08", fmt.Sprintf("the finished bundle cannot be re-opened: %v", rerr))
	}
	content := map[string]string{}
	meta := map[string]BPkg{}
	for _, p := range w.Pkgs {
		content[p.Addr] = p.Content
		meta[p.Addr] = p
	}
	var arts []refArt
	for a := range ref.arts {
		arts = append(arts, a)
	}
	sort.Slice(arts, func(i, j int) bool { return arts[i].pkg+arts[i].sub < arts[j].pkg+arts[j].sub })
	for _, a := range arts {
		// the address value that was added / reported (built from parts for spelled packages)
		src := w.remote(a.pkg, a.sub)
		how := ""
		for _, p := range w.Pkgs {
			if p.Addr == a.pkg && p.Spelling != "" {
				how = fmt.Sprintf(" (the address built with MakeRemoteSource(%q, url.Parse(%q), %q), as it was added)", p.SrcType, p.Spelling, a.sub)
			}
		}
		lp, err := b.LocalPathForSource(src)
		if err != nil {
			fail("C08", fmt.Sprintf("lookup of %s%s fails: %v", src, how, err))
			continue
		}
		if lpr, err := b.LocalPathForRemoteSource(src); err != nil || lpr != lp {
			fail("C08", fmt.Sprintf("LocalPathForRemoteSource(%s)%s = %q, %v; LocalPathForSource gives %q", src, how, lpr, err, lp))
		}
		if reopened != nil {
			if lpo, err := reopened.LocalPathForSource(src); err != nil || lpo != lp {
				fail("C08", fmt.Sprintf("lookup of %s%s in the re-opened bundle = %q, %v; the bundle returned by Close gives %q", src, how, lpo, err, lp))
			}
		}
		if !within(run.target, lp) && !within(root, lp) {
			fail("C08", fmt.Sprintf("lookup of %s returns %s, outside the bundle directory", src, lp))
		}
		pkgRoot, _ := b.LocalPathForRemoteSource(w.remote(a.pkg, ""))
		if filepath.Join(pkgRoot, filepath.FromSlash(a.sub)) != lp {
			fail("C08", fmt.Sprintf("lookup of %s is %s, not the package directory joined with the sub-path", src, lp))
		}
		if id, err := os.ReadFile(filepath.Join(pkgRoot, "content.id")); err != nil || string(id) != content[a.pkg] {
			fail("C08", fmt.Sprintf("package %s does not hold the fetched content (%q)", a.pkg, string(id)))
		}
		if subHasDir(a.sub) {
			if bts, err := os.ReadFile(filepath.Join(lp, "main.tf")); err != nil || string(bts) != content[a.pkg]+"//"+a.sub {
				fail("C08", fmt.Sprintf("sub-path %s of %s does not hold the fetched file", a.sub, a.pkg))
			}
		}
		m := b.RemotePackageMeta(src.Package())
		p := meta[a.pkg]
		if p.HasMeta && p.MetaCommit != "" {
			if m == nil || m.GitCommitID() != p.MetaCommit || m.GitCommitMessage() != p.MetaMsg {
				fail("C08", "fetcher metadata of "+a.pkg+" is not retrievable unchanged")
			}
		} else if m != nil {
			fail("C08", "metadata reported for "+a.pkg+" although the fetcher supplied none")
		}
	}
	// C08 + C17: registry sources. For every registry request of the build - package, version string the
	// request was resolved to, caller's sub-path - the bundle returned by Close and the re-opened one answer
	// with what the registry said about THAT version: the location is the one of the remote address the
	// registry named for it joined with the caller's sub-path, the recorded source address and the deprecation
	// note are that version's own (seed C08-g: versions that differ in build metadata only sharing one entry)
	tiedBoth := false
	for i, x := range ref.regReq {
		for _, y := range ref.regReq[i+1:] {
			if x.reg == y.reg && sameButMeta(x.ver, y.ver) {
				tiedBoth = true
			}
		}
	}
	if tiedBoth {
		rep.Count("registry:two-versions-differing-in-build-metadata-both-resolved")
	}
	type namedBundle struct {
		b    *sourcebundle.Bundle
		name string
	}
	bundles := []namedBundle{{b, "the bundle returned by Close"}}
	if reopened != nil {
		bundles = append(bundles, namedBundle{reopened, "the re-opened bundle"})
	}
	for _, rq := range ref.regReq {
		regSrc := mustRegistry(rq.reg, rq.sub)
		ver := versions.MustParseVersion(rq.ver)
		want := ref.resolved[rq.reg+"|"+rq.ver]
		pk, sb, _ := strings.Cut(want, "|")
		wantAddr := w.remote(pk, strings.Trim(sb+"/"+rq.sub, "/"))
		var wantDep *BVer
		for _, rg := range w.Regs {
			if rg.Addr == rq.reg {
				for k := range rg.Versions {
					if rg.Versions[k].Ver == rq.ver {
						wantDep = &rg.Versions[k]
					}
				}
			}
		}
		for bi, nb := range bundles {
			first := bi == 0
			lp, err := nb.b.LocalPathForRegistrySource(regSrc, ver)
			if err != nil {
				if first {
					fail("C17", fmt.Sprintf("registry source %s was not resolved to the newest allowed version %s: %v", regSrc, rq.ver, err))
				}
				fail("C08", fmt.Sprintf("registry source %s, resolved to version %s during the build, cannot be looked up at that version in %s: %v", regSrc, rq.ver, nb.name, err))
				continue
			}
			// the three entry points to the registry lookup agree
			if lpf, err := nb.b.LocalPathForFinalRegistrySource(regSrc.Versioned(ver)); err != nil || lpf != lp {
				fail("C08", fmt.Sprintf("LocalPathForFinalRegistrySource(%s) = %q, %v in %s; LocalPathForRegistrySource gives %q", regSrc.Versioned(ver), lpf, err, nb.name, lp))
			}
			lp2, err := nb.b.LocalPathForRemoteSource(wantAddr)
			if err != nil || lp2 != lp {
				fail("C08", fmt.Sprintf("in %s registry source %s@%s resolves to %s; the registry named %s for version %s, which joined with the caller's sub-path (%s) is at %s (err %v)", nb.name, regSrc, rq.ver, lp, w.remote(pk, sb), rq.ver, wantAddr, lp2, err))
			} else if subHasDir(wantAddr.SubPath()) {
				if bts, err := os.ReadFile(filepath.Join(lp, "main.tf")); err != nil || string(bts) != content[pk]+"//"+wantAddr.SubPath() {
					fail("C08", fmt.Sprintf("in %s registry source %s@%s resolves to %s, which does not hold the content fetched for %s (found %q)", nb.name, regSrc, rq.ver, lp, wantAddr, string(bts)))
				}
			}
			real, ok := nb.b.RegistryPackageSourceAddr(regSrc.Package(), ver)
			if !ok || real.Package().String()+"|"+real.SubPath() != want {
				if first {
					fail("C17", fmt.Sprintf("source address recorded for %s %s is not the one the registry named", rq.reg, rq.ver))
				}
				got := "nothing"
				if ok {
					got = real.String()
				}
				fail("C08", fmt.Sprintf("%s says the registry named %s for %s version %s; it named %s", nb.name, got, rq.reg, rq.ver, w.remote(pk, sb)))
			}
			// deprecation note is the one the registry attached to that version
			d := nb.b.RegistryPackageVersionDeprecation(regSrc.Package(), ver)
			if wantDep != nil && (wantDep.HasDep != (d != nil) || (d != nil && (d.Reason != wantDep.DepReason || d.Link != wantDep.DepLink))) {
				if first {
					fail("C17", fmt.Sprintf("deprecation recorded for %s %s is not the registry's", rq.reg, rq.ver))
				}
				got := "none"
				if d != nil {
					got = fmt.Sprintf("(%q, %q)", d.Reason, d.Link)
				}
				wantS := "none"
				if wantDep.HasDep {
					wantS = fmt.Sprintf("(%q, %q)", wantDep.DepReason, wantDep.DepLink)
				}
				fail("C08", fmt.Sprintf("%s gives the deprecation note %s for %s version %s; the registry attached %s to that version", nb.name, got, rq.reg, rq.ver, wantS))
			}
		}
	}
	// C17: nothing but the selected versions is recorded
	for _, rp := range b.RegistryPackages() {
		for _, v := range b.RegistryPackageVersions(rp) {
			if _, ok := ref.resolved[rp.String()+"|"+v.String()]; !ok {
				fail("C17", fmt.Sprintf("version %s of %s recorded although no request selects it", v, rp))
			}
		}
	}
}

// judgeFinderDiags compares what the finders raised (with the package under analysis) with what reached
// `who`, as multisets of (severity, summary, file name as it must be delivered).
func judgeFinderDiags(w *BWorld, raised []finderDiagRec, got []deliveredDiag, who string, fail func(prop, what string)) {
	type key struct {
		isErr         bool
		summary, name string
	}
	sev := func(e bool) string {
		if e {
			return "error"
		}
		return "warning"
	}
	want := map[key]int{}
	origin := map[key]finderDiagRec{}
	for _, rd := range raised {
		name := rd.file
		if sourceaddrs.ValidSubPath(rd.file) {
			name = mustRemote(rd.pkg, "").Package().SourceAddr(rd.file).String()
		}
		k := key{rd.isErr, rd.summary, name}
		want[k]++
		origin[k] = rd
	}
	have := map[key]int{}
	for _, d := range got {
		if !d.hasSubject {
			fail("C12", fmt.Sprintf("finder diagnostic %q reached %s without its subject range", d.summary, who))
			continue
		}
		if d.hasContext && d.context != d.subject {
			fail("C12", fmt.Sprintf("finder diagnostic %q reached %s with subject file %q but context file %q (the finder gave both ranges the same file name)", d.summary, who, d.subject, d.context))
		}
		have[key{d.isErr, d.summary, d.subject}]++
	}
	var keys []key
	for k := range want {
		keys = append(keys, k)
	}
	for k := range have {
		if _, ok := want[k]; !ok {
			keys = append(keys, k)
		}
	}
	sort.Slice(keys, func(i, j int) bool {
		a, b := keys[i], keys[j]
		if a.name != b.name {
			return a.name < b.name
		}
		if a.summary != b.summary {
			return a.summary < b.summary
		}
		return !a.isErr && b.isErr
	})
	for _, k := range keys {
		switch {
		case have[k] < want[k]:
			o := origin[k]
			fail("C12", fmt.Sprintf("finder %s %q about file %q, raised %d time(s) while analysing package %s, reached %s %d time(s) as %q", sev(k.isErr), k.summary, o.file, want[k], o.pkg, who, have[k], k.name))
		case have[k] > want[k]:
			fail("C12", fmt.Sprintf("%s received %d finder %s(s) %q naming %q; the finders raised %d with that text for that package and file", who, have[k], sev(k.isErr), k.summary, k.name, want[k]))
		}
	}
}

func subHasDir(sub string) bool {
	switch sub {
	case "m", "m/n", "k", "m/n/o", "a", "a/b":
		return true
	}
	return false
}
