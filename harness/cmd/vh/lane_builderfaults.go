package main

import (
	"fmt"
	"os"
	"os/exec"
	"path/filepath"
	"regexp"
	"strings"
	"sync"

	"github.com/hashicorp/go-slug/sourcebundle"
)

// builder-faults lane (C12, builder part): every fetcher / registry / finder call of a build fails
// in turn (and pairs of them in the thorough tier). Oracle: the fault surfaces as an error
// diagnostic, every later Add* and Close is refused, no bundle object comes out, and at every
// callback boundary the target directory cannot be opened as a bundle. Fetch/registry faults are
// also replayed on the model as the world in which that answer is an error.

var hexWord = regexp.MustCompile(`x(?:[0-9a-f]{2})+`)

// unhexWords: an event of the recorded trace with its hex-encoded keys decoded (for messages)
func unhexWords(s string) string {
	return hexWord.ReplaceAllStringFunc(s, func(w string) string {
		if d, ok := UnX(w); ok {
			return d
		}
		return w
	})
}

func copyDir(src, dst string) error {
	return exec.Command("cp", "-a", src, dst).Run()
}

func init() {
	lanes["builder-faults"] = func(cfg *Config, rep *Report) {
		rep.Rule = "error-free scripted worlds (as in the builder lane) x every call index of the fault-free build failing in turn (fetch, version list, source address, finder), thorough: also pairs; per world one more fault: the target directory is renamed away during a finder call that is followed by a package download (trace bracketing C14, error diagnostic / refusal / no bundle C12); at every callback boundary the target directory is copied and OpenDir'ed; non-trivial = every case (a fault is injected); distinct by (world, ops, fault position)"
		r := NewRng(cfg.Seed)
		type job struct {
			c      *bCase
			failAt int
			total  int
			// rmAt: not a failing call but the fault "the target directory disappears": during the rmAt-th
			// callback the builder's target directory is renamed away (failAt is 0 then)
			rmAt int
		}
		var jobs, rmJobs []job
		nWorlds := 0
		for len(jobs) < cfg.N*8 {
			w, ops := genBWorld(r, false)
			c := &bCase{World: w, Ops: ops}
			// fault-free run to count the calls
			t0 := filepath.Join(cfg.Work, "probe")
			os.MkdirAll(t0, 0755)
			env := newEnv(w)
			run := runBuild(w, ops, t0, env)
			os.RemoveAll(t0)
			if run.timeout || hasErrorDiag(run.results) || env.calls == 0 {
				continue
			}
			for k := 1; k <= env.calls; k++ {
				jobs = append(jobs, job{c: c, failAt: k, total: env.calls})
			}
			// the target directory disappears during a finder call that is followed by a package download
			// (the first such call for every other world, the last one for the others): the download's
			// temporary directory cannot be created (seed C14-g: a start event without its failure event)
			{
				var cands []int
				k := 0
				for li, ev := range env.log {
					kind := ev[:2]
					if kind != "fc" && kind != "vc" && kind != "sc" && kind != "an" {
						continue
					}
					k++
					if kind != "an" {
						continue
					}
					for _, later := range env.log[li+1:] {
						if strings.HasPrefix(later, "fs:") {
							cands = append(cands, k)
							break
						}
					}
				}
				if len(cands) > 0 {
					pick := cands[0]
					if nWorlds%2 == 1 {
						pick = cands[len(cands)-1]
					}
					rmJobs = append(rmJobs, job{c: c, rmAt: pick, total: env.calls})
				}
				nWorlds++
			}
			if len(jobs) > cfg.N*8 {
				break
			}
		}
		jobs = append(jobs, rmJobs...)
		// exact replay (-case): the recorded world, Add calls and failing call index take an extra last
		// slot and run first, alone
		replayIdx := -1
		{
			var rin struct {
				bCase
				FailCall int `json:"fail_call"`
				Of       int `json:"of"`
				// RemoveTargetAt: the fault "the target directory disappears" during that callback
				RemoveTargetAt int `json:"remove_target_at"`
			}
			if !loadReplayInput(cfg, "builder-faults", &rin) {
				replayMissing(cfg, rep, "builder-faults")
			} else if why := checkBCase(&rin.bCase); why != "" {
				rep.ReplayNote("refused: " + why)
			} else if rin.FailCall <= 0 && rin.RemoveTargetAt <= 0 {
				rep.ReplayNote("the recorded input names no failing call (fail_call) and no callback at which the target directory disappears (remove_target_at)")
			} else {
				c := rin.bCase
				jobs = append(jobs, job{c: &c, failAt: rin.FailCall, rmAt: rin.RemoveTargetAt, total: rin.Of})
				replayIdx = len(jobs) - 1
			}
		}
		reqs := make([]string, len(jobs))
		impl := make([]string, len(jobs))
		human := make([]interface{}, len(jobs))
		var wg sync.WaitGroup
		sem := make(chan struct{}, 16)
		runJob := func(i int) {
				j := jobs[i]
				target := filepath.Join(cfg.Work, fmt.Sprintf("bf%06d", i))
				os.MkdirAll(target, 0755)
				defer os.RemoveAll(target)
				defer os.RemoveAll(target + ".gone")
				env := newEnv(j.c.World)
				env.failAt = j.failAt
				if j.rmAt > 0 && cfg.Work != "" && within(cfg.Work, target) {
					env.rmTargetAt, env.rmTarget = j.rmAt, target
				}
				var failedKind, failedKey string
				nb := 0
				openable := ""
				env.boundary = func(what string) {
					// crash point: copy the directory under construction and try to open it
					nb++
					if nb%3 != 0 && cfg.Tier != "thorough" {
						return
					}
					cp := fmt.Sprintf("%s.crash%d", target, nb)
					if copyDir(target, cp) == nil {
						if _, err := sourcebundle.OpenDir(cp); err == nil {
							openable = fmt.Sprintf("openable at callback boundary %d (%s)", nb, what)
						}
						os.RemoveAll(cp)
					}
				}
				run := runBuild(j.c.World, j.c.Ops, target, env)
				if j.rmAt > 0 {
					// ---- the target directory disappeared during callback rmAt ----
					in := map[string]interface{}{"world": j.c.World, "ops": j.c.Ops, "remove_target_at": j.rmAt, "of": j.total}
					rep.Case(fmt.Sprintf("%p|rm%d", j.c, j.rmAt), true, map[string]interface{}{"ops": j.c.Ops, "remove_target_at": j.rmAt, "of": j.total, "results": run.results})
					fail := func(what string) {
						rep.AddOracle(OracleFailure{Property: "C12", Lane: "builder-faults", What: what, Input: in, ReqIdx: 0})
					}
					if run.timeout {
						fail("build whose target directory disappears did not terminate")
						return
					}
					cnt, at, during := 0, -1, ""
					for li, ev := range env.log {
						k := ev[:2]
						if k == "fc" || k == "vc" || k == "sc" || k == "an" {
							cnt++
							if cnt == j.rmAt {
								at, during = li, ev
							}
						}
					}
					if at < 0 {
						rep.Count("fault:not-reached")
						return
					}
					rep.Count("fault:target-directory-disappears")
					startedAfter := ""
					for _, ev := range env.log[at+1:] {
						if strings.HasPrefix(ev, "fs:") {
							startedAfter, _ = UnX(ev[3:])
							break
						}
					}
					if startedAfter != "" {
						rep.Count("fault:target-directory-disappears:download-afterwards")
						if !hasErrorDiag(run.results) {
							fail(fmt.Sprintf("the target directory was renamed away during callback %d (%s) and the download of %s was started afterwards, but no error diagnostic was returned: %s", j.rmAt, unhexWords(during), startedAfter, strings.Join(run.results, "|")))
						}
						if !run.poisoned {
							fail("Close did not refuse after a build in which a download failed (the target directory had disappeared)")
						}
					}
					sawErr := false
					for _, res := range run.results {
						if sawErr && res != "refused" {
							fail("an Add* call after a failed build was not refused: " + strings.Join(run.results, "|"))
						}
						if hasErrorDiag([]string{res}) {
							sawErr = true
						}
					}
					if run.bundle != nil {
						fail("Close returned a bundle although the target directory no longer exists")
					}
					// C14: every start event is followed by exactly one matching success or failure event
					for _, p := range checkTrace(env.log, false) {
						rep.AddOracle(OracleFailure{Property: "C14", Lane: "builder-faults", What: fmt.Sprintf("%s (the target directory was renamed away during callback %d, %s)", unhexWords(p), j.rmAt, unhexWords(during)), Input: in, ReqIdx: 0})
					}
					return
				}
				// which call failed?
				cnt := 0
				for _, ev := range env.log {
					k := ev[:2]
					if k == "fc" || k == "vc" || k == "sc" || k == "an" {
						cnt++
						if cnt == j.failAt {
							failedKind, failedKey = k, ev[3:]
						}
					}
				}
				in := map[string]interface{}{"world": j.c.World, "ops": j.c.Ops, "fail_call": j.failAt, "of": j.total, "failed": failedKind + ":" + failedKey}
				rep.Case(fmt.Sprintf("%p|%d", j.c, j.failAt), true, map[string]interface{}{"ops": j.c.Ops, "fail_call": j.failAt, "of": j.total, "kind": failedKind, "results": run.results})
				rep.Count("fault:" + failedKind)
				fail := func(what string) {
					rep.AddOracle(OracleFailure{Property: "C12", Lane: "builder-faults", What: what, Input: in, ReqIdx: i + 1})
				}
				if run.timeout {
					fail("build with an injected fault did not terminate")
					return
				}
				if failedKind == "" {
					rep.Count("fault:not-reached")
					return
				}
				if !hasErrorDiag(run.results) {
					fail(fmt.Sprintf("injected %s fault at call %d was not reported as an error diagnostic: %s", failedKind, j.failAt, strings.Join(run.results, "|")))
				}
				sawErr := false
				for _, res := range run.results {
					if sawErr && res != "refused" {
						fail("an Add* call after a failed build was not refused: " + strings.Join(run.results, "|"))
					}
					if hasErrorDiag([]string{res}) {
						sawErr = true
					}
				}
				if run.bundle != nil || !run.poisoned {
					fail("Close returned a bundle (or did not refuse) after a failed build")
				}
				if _, err := sourcebundle.OpenDir(target); err == nil {
					fail("the target directory of a failed build can be opened as a bundle")
				}
				if openable != "" {
					fail("target directory under construction is " + openable)
				}
				for _, p := range checkTrace(env.log, false) {
					rep.AddOracle(OracleFailure{Property: "C14", Lane: "builder-faults", What: p, Input: in, ReqIdx: i + 1})
				}
				// model: the world in which that answer is an error (exact for fetch/registry faults,
				// whose keys are requested once)
				w2 := *j.c.World
				switch failedKind {
				case "fc":
					key, _ := UnX(failedKey)
					w2.Pkgs = append([]BPkg{}, w2.Pkgs...)
					for k := range w2.Pkgs {
						if w2.Pkgs[k].Addr == key {
							w2.Pkgs[k].Content = ""
						}
					}
				case "vc":
					key, _ := UnX(failedKey)
					w2.Regs = append([]BReg{}, w2.Regs...)
					for k := range w2.Regs {
						if w2.Regs[k].Addr == key {
							w2.Regs[k].Err = true
						}
					}
				case "sc":
					parts := strings.Split(failedKey, ":")
					reg, _ := UnX(parts[0])
					ver, _ := UnX(parts[1])
					w2.Srcs = append([]BSrc{}, w2.Srcs...)
					for k := range w2.Srcs {
						if w2.Srcs[k].Reg == reg && w2.Srcs[k].Ver == ver {
							w2.Srcs[k].Err = true
						}
					}
				default:
					return
				}
				// the listing must stay the same for ranks/allowed sets: encode with the original universe
				reqs[i] = "builder " + encodeWorldWithUniverse(&w2, j.c.World) + " " + encOps(j.c.World, j.c.Ops)
				impl[i] = run.canon(j.c.World)
				human[i] = in
		}
		if replayIdx >= 0 {
			rep.BeginReplay()
			runJob(replayIdx)
			rep.EndReplay(reqs[replayIdx])
		}
		for i := range jobs {
			if i == replayIdx {
				continue
			}
			wg.Add(1)
			sem <- struct{}{}
			go func(i int) {
				defer wg.Done()
				defer func() { <-sem }()
				runJob(i)
			}(i)
		}
		wg.Wait()
		var rq, im []string
		var hu []interface{}
		remap := map[int]int{}
		for i := range reqs {
			if reqs[i] != "" {
				remap[i+1] = len(rq) + 1
				rq = append(rq, reqs[i])
				im = append(im, impl[i])
				hu = append(hu, human[i])
			}
		}
		for k := range rep.OracleFailures {
			rep.OracleFailures[k].ReqIdx = remap[rep.OracleFailures[k].ReqIdx]
		}
		rep.Compare(cfg.Driver, rq, im, hu)
	}
}

// encodeWorldWithUniverse encodes w2 but computes version ranks / allowed lists against the
// version universe of the original world (a registry package marked as failing still needs the
// same allowed lists in the requests that mention it).
func encodeWorldWithUniverse(w2, orig *BWorld) string {
	tmp := *w2
	// ranks and allowed lists only depend on Regs[].Versions, which the fault variants keep
	_ = orig
	return tmp.Encode()
}
