package main

import (
	"fmt"
	"os"
	"os/exec"
	"path/filepath"
	"strings"
	"sync"

	"github.com/hashicorp/go-slug/sourcebundle"
)

// builder-faults lane (C12, builder part): every fetcher / registry / finder call of a build fails
// in turn (and pairs of them in the thorough tier). Oracle: the fault surfaces as an error
// diagnostic, every later Add* and Close is refused, no bundle object comes out, and at every
// callback boundary the target directory cannot be opened as a bundle. Fetch/registry faults are
// also replayed on the model as the world in which that answer is an error.

func copyDir(src, dst string) error {
	return exec.Command("cp", "-a", src, dst).Run()
}

func init() {
	lanes["builder-faults"] = func(cfg *Config, rep *Report) {
		rep.Rule = "error-free scripted worlds (as in the builder lane) x every call index of the fault-free build failing in turn (fetch, version list, source address, finder), thorough: also pairs; at every callback boundary the target directory is copied and OpenDir'ed; non-trivial = every case (a fault is injected); distinct by (world, ops, fault position)"
		r := NewRng(cfg.Seed)
		type job struct {
			c      *bCase
			failAt int
			total  int
		}
		var jobs []job
		for len(jobs) < cfg.N*8 {
			w, ops := genBWorld(r, false)
			c := &bCase{World: w, Ops: ops}
			// fault-free run to count the calls
			t0 := filepath.Join(cfg.Work, "probe")
			os.MkdirAll(t0, 0755)
			env := newEnv(w)
			run := runBuild(w, ops, t0, env)
			os.RemoveAll(t0)
			if run.timeout || hasErrorDiag(run.results) || env.calls == 0 {
				continue
			}
			for k := 1; k <= env.calls; k++ {
				jobs = append(jobs, job{c: c, failAt: k, total: env.calls})
			}
			if len(jobs) > cfg.N*8 {
				break
			}
		}
		// exact replay (-case): the recorded world, Add calls and failing call index take an extra last
		// slot and run first, alone
		replayIdx := -1
		{
			var rin struct {
				bCase
				FailCall int `json:"fail_call"`
				Of       int `json:"of"`
			}
			if !loadReplayInput(cfg, "builder-faults", &rin) {
				replayMissing(cfg, rep, "builder-faults")
			} else if why := checkBCase(&rin.bCase); why != "" {
				rep.ReplayNote("refused: " + why)
			} else if rin.FailCall <= 0 {
				rep.ReplayNote("the recorded input names no failing call (fail_call)")
			} else {
				c := rin.bCase
				jobs = append(jobs, job{c: &c, failAt: rin.FailCall, total: rin.Of})
				replayIdx = len(jobs) - 1
			}
		}
		reqs := make([]string, len(jobs))
		impl := make([]string, len(jobs))
		human := make([]interface{}, len(jobs))
		var wg sync.WaitGroup
		sem := make(chan struct{}, 16)
		runJob := func(i int) {
				j := jobs[i]
				target := filepath.Join(cfg.Work, fmt.Sprintf("bf%06d", i))
				os.MkdirAll(target, 0755)
				defer os.RemoveAll(target)
				env := newEnv(j.c.World)
				env.failAt = j.failAt
				var failedKind, failedKey string
				nb := 0
				openable := ""
				env.boundary = func(what string) {
					// crash point: copy the directory under construction and try to open it
					nb++
					if nb%3 != 0 && cfg.Tier != "thorough" {
						return
					}
					cp := fmt.Sprintf("%s.crash%d", target, nb)
					if copyDir(target, cp) == nil {
						if _, err := sourcebundle.OpenDir(cp); err == nil {
							openable = fmt.Sprintf("openable at callback boundary %d (%s)", nb, what)
						}
						os.RemoveAll(cp)
					}
				}
				run := runBuild(j.c.World, j.c.Ops, target, env)
				// which call failed?
				cnt := 0
				for _, ev := range env.log {
					k := ev[:2]
					if k == "fc" || k == "vc" || k == "sc" || k == "an" {
						cnt++
						if cnt == j.failAt {
							failedKind, failedKey = k, ev[3:]
						}
					}
				}
				in := map[string]interface{}{"world": j.c.World, "ops": j.c.Ops, "fail_call": j.failAt, "of": j.total, "failed": failedKind + ":" + failedKey}
				rep.Case(fmt.Sprintf("%p|%d", j.c, j.failAt), true, map[string]interface{}{"ops": j.c.Ops, "fail_call": j.failAt, "of": j.total, "kind": failedKind, "results": run.results})
				rep.Count("fault:" + failedKind)
				fail := func(what string) {
					rep.AddOracle(OracleFailure{Property: "C12", Lane: "builder-faults", What: what, Input: in, ReqIdx: i + 1})
				}
				if run.timeout {
					fail("build with an injected fault did not terminate")
					return
				}
				if failedKind == "" {
					rep.Count("fault:not-reached")
					return
				}
				if !hasErrorDiag(run.results) {
					fail(fmt.Sprintf("injected %s fault at call %d was not reported as an error diagnostic: %s", failedKind, j.failAt, strings.Join(run.results, "|")))
				}
				sawErr := false
				for _, res := range run.results {
					if sawErr && res != "refused" {
						fail("an Add* call after a failed build was not refused: " + strings.Join(run.results, "|"))
					}
					if hasErrorDiag([]string{res}) {
						sawErr = true
					}
				}
				if run.bundle != nil || !run.poisoned {
					fail("Close returned a bundle (or did not refuse) after a failed build")
				}
				if _, err := sourcebundle.OpenDir(target); err == nil {
					fail("the target directory of a failed build can be opened as a bundle")
				}
				if openable != "" {
					fail("target directory under construction is " + openable)
				}
				for _, p := range checkTrace(env.log, false) {
					rep.AddOracle(OracleFailure{Property: "C14", Lane: "builder-faults", What: p, Input: in, ReqIdx: i + 1})
				}
				// model: the world in which that answer is an error (exact for fetch/registry faults,
				// whose keys are requested once)
				w2 := *j.c.World
				switch failedKind {
				case "fc":
					key, _ := UnX(failedKey)
					w2.Pkgs = append([]BPkg{}, w2.Pkgs...)
					for k := range w2.Pkgs {
						if w2.Pkgs[k].Addr == key {
							w2.Pkgs[k].Content = ""
						}
					}
				case "vc":
					key, _ := UnX(failedKey)
					w2.Regs = append([]BReg{}, w2.Regs...)
					for k := range w2.Regs {
						if w2.Regs[k].Addr == key {
							w2.Regs[k].Err = true
						}
					}
				case "sc":
					parts := strings.Split(failedKey, ":")
					reg, _ := UnX(parts[0])
					ver, _ := UnX(parts[1])
					w2.Srcs = append([]BSrc{}, w2.Srcs...)
					for k := range w2.Srcs {
						if w2.Srcs[k].Reg == reg && w2.Srcs[k].Ver == ver {
							w2.Srcs[k].Err = true
						}
					}
				default:
					return
				}
				// the listing must stay the same for ranks/allowed sets: encode with the original universe
				reqs[i] = "builder " + encodeWorldWithUniverse(&w2, j.c.World) + " " + encOps(j.c.World, j.c.Ops)
				impl[i] = run.canon(j.c.World)
				human[i] = in
		}
		if replayIdx >= 0 {
			rep.BeginReplay()
			runJob(replayIdx)
			rep.EndReplay(reqs[replayIdx])
		}
		for i := range jobs {
			if i == replayIdx {
				continue
			}
			wg.Add(1)
			sem <- struct{}{}
			go func(i int) {
				defer wg.Done()
				defer func() { <-sem }()
				runJob(i)
			}(i)
		}
		wg.Wait()
		var rq, im []string
		var hu []interface{}
		remap := map[int]int{}
		for i := range reqs {
			if reqs[i] != "" {
				remap[i+1] = len(rq) + 1
				rq = append(rq, reqs[i])
				im = append(im, impl[i])
				hu = append(hu, human[i])
			}
		}
		for k := range rep.OracleFailures {
			rep.OracleFailures[k].ReqIdx = remap[rep.OracleFailures[k].ReqIdx]
		}
		rep.Compare(cfg.Driver, rq, im, hu)
	}
}

// encodeWorldWithUniverse encodes w2 but computes version ranks / allowed lists against the
// version universe of the original world (a registry package marked as failing still needs the
// same allowed lists in the requests that mention it).
func encodeWorldWithUniverse(w2, orig *BWorld) string {
	tmp := *w2
	// ranks and allowed lists only depend on Regs[].Versions, which the fault variants keep
	_ = orig
	return tmp.Encode()
}
