// Demonstrations of the findings of DESIGN.md §9 against the real code (each prints FAIL if the defect is present).
package main

import (
	"archive/tar"
	"bytes"
	"compress/gzip"
	"fmt"
	"net/url"
	"os"
	"path/filepath"
	"strings"

	slug "github.com/hashicorp/go-slug"
	"github.com/hashicorp/go-slug/internal/ignorefiles"
	"github.com/hashicorp/go-slug/sourceaddrs"
)

type ent struct {
	name, link string
	typ        byte
	body       string
	mode       int64
}

func mk(es []ent) []byte {
	var buf bytes.Buffer
	gz := gzip.NewWriter(&buf)
	tw := tar.NewWriter(gz)
	for _, e := range es {
		m := e.mode
		if m == 0 {
			m = 0644
		}
		h := &tar.Header{Name: e.name, Typeflag: e.typ, Linkname: e.link, Mode: m, Size: int64(len(e.body))}
		tw.WriteHeader(h)
		tw.Write([]byte(e.body))
	}
	tw.Close()
	gz.Close()
	return buf.Bytes()
}

func arena() (string, string) {
	d, _ := os.MkdirTemp("", "probe")
	d, _ = filepath.EvalSymlinks(d)
	dst := filepath.Join(d, "dst")
	os.Mkdir(dst, 0755)
	os.Mkdir(filepath.Join(d, "dst-evil"), 0755)
	return d, dst
}

func report(id string, bad bool, msg string) {
	st := "ok  "
	if bad {
		st = "FAIL"
	}
	fmt.Printf("%s %s %s\n", st, id, msg)
}

func exists(p string) bool { _, err := os.Lstat(p); return err == nil }

func main() {
	// F1
	{
		d, dst := arena()
		err := slug.Unpack(bytes.NewReader(mk([]ent{{name: "../dst-evil/x", typ: tar.TypeReg, body: "hi"}})), dst)
		report("F1", exists(filepath.Join(d, "dst-evil/x")), fmt.Sprint("err=", err))
		os.RemoveAll(d)
	}
	// F2
	{
		d, dst := arena()
		err := slug.Unpack(bytes.NewReader(mk([]ent{{name: "l", typ: tar.TypeSymlink, link: "../dst-evil"}})), dst)
		report("F2", exists(filepath.Join(dst, "l")), fmt.Sprint("err=", err))
		os.RemoveAll(d)
	}
	// F6
	{
		d, dst := arena()
		err := slug.Unpack(bytes.NewReader(mk([]ent{{name: "e/", typ: tar.TypeDir, mode: 0700}})), dst)
		report("F6", !exists(filepath.Join(dst, "e")), fmt.Sprint("err=", err))
		os.RemoveAll(d)
	}
	// F7
	for _, in := range []string{"   \n", "!\n", "! \n"} {
		func() {
			defer func() {
				if r := recover(); r != nil {
					report("F7", true, fmt.Sprintf("%q panics: %v", in, r))
				}
			}()
			_, err := ignorefiles.ParseIgnoreFileContent(strings.NewReader(in))
			report("F7", false, fmt.Sprintf("%q err=%v", in, err))
		}()
	}
	// F8, F10
	{
		rs, _ := ignorefiles.ParseIgnoreFileContent(strings.NewReader("a+b\n"))
		r1, _ := rs.Excludes("a+b")
		r2, _ := rs.Excludes("aab")
		report("F8", !r1.Excluded || r2.Excluded, fmt.Sprintf("a+b excluded=%v aab excluded=%v", r1.Excluded, r2.Excluded))
		rs, _ = ignorefiles.ParseIgnoreFileContent(strings.NewReader("a(b\n"))
		r1, err := rs.Excludes("a(b")
		report("F8b", !r1.Excluded, fmt.Sprintf("a(b excluded=%v err=%v", r1.Excluded, err))
		rs, _ = ignorefiles.ParseIgnoreFileContent(strings.NewReader("foo/\n"))
		r1, _ = rs.Excludes("foo/a\nb")
		report("F10", !r1.Excluded, fmt.Sprintf("foo/a\\nb excluded=%v", r1.Excluded))
	}
	// F11
	{
		d, dst := arena()
		err := slug.Unpack(bytes.NewReader(mk([]ent{{name: "/l", typ: tar.TypeSymlink, link: ".." + dst + "/../zz"}})), dst)
		report("F11a", exists(filepath.Join(dst, "l")), fmt.Sprint("err=", err))
		os.RemoveAll(dst)
		os.Mkdir(dst, 0755)
		err = slug.Unpack(bytes.NewReader(mk([]ent{{name: "/a", typ: tar.TypeSymlink, link: "e"}})), dst)
		report("F11b", err != nil, fmt.Sprint("harmless /a -> e: err=", err))
		os.RemoveAll(d)
	}
	// F28
	{
		d, dst := arena()
		err := slug.Unpack(bytes.NewReader(mk([]ent{
			{name: "a/l", typ: tar.TypeSymlink, link: ".."},
			{name: "n/../a/l/k", typ: tar.TypeSymlink, link: "../x"},
		})), dst)
		report("F28", exists(filepath.Join(dst, "k")), fmt.Sprint("err=", err))
		os.RemoveAll(d)
	}
	// F3
	{
		d, dst := arena()
		err := slug.Unpack(bytes.NewReader(mk([]ent{
			{name: "d/l1", typ: tar.TypeSymlink, link: ".."},
			{name: "l2", typ: tar.TypeSymlink, link: "d/l1/.."},
		})), dst)
		p, _ := filepath.EvalSymlinks(filepath.Join(dst, "l2"))
		report("F3", p == d, fmt.Sprint("l2 resolves to ", p, " err=", err))
		os.RemoveAll(d)
	}
	// F12
	{
		d, dst := arena()
		os.WriteFile(filepath.Join(dst, "f"), []byte("x"), 0644)
		err := slug.Unpack(bytes.NewReader(mk([]ent{{name: "l", typ: tar.TypeSymlink, link: dst + "/f"}})), dst)
		report("F12", err == nil, fmt.Sprint("absolute in-dst target: err=", err))
		os.RemoveAll(d)
	}
	// F16
	{
		a, _ := sourceaddrs.ParseSource("./a")
		b, _ := sourceaddrs.ParseSource("../")
		r, _ := sourceaddrs.ResolveRelativeSource(a, b)
		_, err := sourceaddrs.ParseSource(r.String())
		report("F16", err != nil, fmt.Sprintf("./a + ../ = %q reparse err=%v", r.String(), err))
		a, _ = sourceaddrs.ParseSource("../a")
		r, _ = sourceaddrs.ResolveRelativeSource(a, b)
		_, err = sourceaddrs.ParseSource(r.String())
		report("F16b", err != nil, fmt.Sprintf("../a + ../ = %q reparse err=%v", r.String(), err))
	}
	// F19
	{
		u, _ := url.Parse("https://user:pw@example.com/x.git")
		_, err := sourceaddrs.MakeRemoteSource("git", u, "")
		report("F19", err == nil, fmt.Sprint("MakeRemoteSource with userinfo err=", err))
	}
	// F29
	{
		x, err := sourceaddrs.ParseRemoteSource("git::https://h/a b.git")
		if err == nil {
			y, err2 := sourceaddrs.ParseRemoteSource(x.String())
			report("F29", err2 != nil || x != y, fmt.Sprintf("%q reparsed equal=%v", x.String(), x == y))
		} else {
			report("F29", false, fmt.Sprint("rejected: ", err))
		}
	}
	// F24: shared default list mutated
	{
		before, _ := ignorefiles.DefaultRuleset.Excludes(".git/")
		ignorefiles.ParseIgnoreFileContent(strings.NewReader("!foo\n"))
		after, _ := ignorefiles.DefaultRuleset.Excludes(".git/")
		report("F24", before != after, fmt.Sprintf("DefaultRuleset .git/ before=%v after=%v", before, after))
	}
}
