// Fact extractor: regenerates /verif/lean/SlugModel/Generated/*.lean from /repo's current
// sources (go/ast, no type checking). A fact that cannot be found keeps its last committed
// value and sets `extracted := false`.
package main

import (
	"flag"
	"fmt"
	"go/ast"
	"go/parser"
	"go/token"
	"os"
	"path/filepath"
	"sort"
	"strconv"
	"strings"
)

func parseFile(path string) (*ast.File, *token.FileSet) {
	fset := token.NewFileSet()
	f, err := parser.ParseFile(fset, path, nil, 0)
	if err != nil {
		return nil, fset
	}
	return f, fset
}

func leanStr(s string) string {
	return strconv.Quote(s)
}

func leanChar(c rune) string {
	switch c {
	case '\'':
		return `'\''`
	case '\\':
		return `'\\'`
	}
	return "'" + string(c) + "'"
}

func boolLit(e ast.Expr) (bool, bool) {
	if id, ok := e.(*ast.Ident); ok {
		if id.Name == "true" {
			return true, true
		}
		if id.Name == "false" {
			return false, true
		}
	}
	return false, false
}

// joinedString evaluates strings.Join([]string{"a","b"}, string(os.PathSeparator)) or a plain literal
func joinedString(e ast.Expr) (string, bool) {
	switch v := e.(type) {
	case *ast.BasicLit:
		if v.Kind == token.STRING {
			s, err := strconv.Unquote(v.Value)
			return s, err == nil
		}
	case *ast.CallExpr:
		if sel, ok := v.Fun.(*ast.SelectorExpr); ok && sel.Sel.Name == "Join" && len(v.Args) == 2 {
			if cl, ok := v.Args[0].(*ast.CompositeLit); ok {
				var parts []string
				for _, el := range cl.Elts {
					bl, ok := el.(*ast.BasicLit)
					if !ok {
						return "", false
					}
					s, err := strconv.Unquote(bl.Value)
					if err != nil {
						return "", false
					}
					parts = append(parts, s)
				}
				return strings.Join(parts, "/"), true
			}
		}
	}
	return "", false
}

type ignoreFacts struct {
	rules   []string // lean tuples
	escaped []rune
	dotAll  bool
	ok      bool
}

func extractIgnore(repo string) ignoreFacts {
	var out ignoreFacts
	f, _ := parseFile(filepath.Join(repo, "internal/ignorefiles/terraformignore.go"))
	if f == nil {
		return out
	}
	okRules, okEsc := false, false
	ast.Inspect(f, func(n ast.Node) bool {
		switch v := n.(type) {
		case *ast.ValueSpec:
			if len(v.Names) == 1 && v.Names[0].Name == "defaultExclusions" && len(v.Values) == 1 {
				if cl, ok := v.Values[0].(*ast.CompositeLit); ok {
					okRules = true
					for _, el := range cl.Elts {
						rl, ok := el.(*ast.CompositeLit)
						if !ok {
							okRules = false
							continue
						}
						val, neg, na := "", false, false
						gotVal := false
						for _, kv := range rl.Elts {
							p, ok := kv.(*ast.KeyValueExpr)
							if !ok {
								okRules = false
								continue
							}
							key := p.Key.(*ast.Ident).Name
							switch key {
							case "val":
								val, gotVal = joinedString(p.Value)
							case "negated":
								neg, _ = boolLit(p.Value)
							case "negationsAfter":
								na, _ = boolLit(p.Value)
							}
						}
						if !gotVal {
							okRules = false
						}
						out.rules = append(out.rules, fmt.Sprintf("(%s, %v, %v)", leanStr(val), neg, na))
					}
				}
			}
		case *ast.FuncDecl:
			if v.Name.Name != "compile" || v.Body == nil {
				return true
			}
			ast.Inspect(v.Body, func(m ast.Node) bool {
				switch w := m.(type) {
				case *ast.AssignStmt:
					// regStr := "(?s)^"
					if len(w.Lhs) == 1 && len(w.Rhs) == 1 {
						if id, ok := w.Lhs[0].(*ast.Ident); ok && id.Name == "regStr" && w.Tok == token.DEFINE {
							if bl, ok := w.Rhs[0].(*ast.BasicLit); ok {
								s, _ := strconv.Unquote(bl.Value)
								out.dotAll = strings.Contains(s, "(?s)") || strings.Contains(s, "(?s:")
							}
						}
					}
				case *ast.IfStmt:
					// the branch whose condition compares ch with '.' is the escaping branch
					var chars []rune
					hasDot := false
					ast.Inspect(w.Cond, func(c ast.Node) bool {
						if be, ok := c.(*ast.BinaryExpr); ok && be.Op == token.EQL {
							if id, ok := be.X.(*ast.Ident); ok && id.Name == "ch" {
								if bl, ok := be.Y.(*ast.BasicLit); ok && bl.Kind == token.CHAR {
									s, err := strconv.Unquote(bl.Value)
									if err == nil && len([]rune(s)) == 1 {
										r := []rune(s)[0]
										chars = append(chars, r)
										if r == '.' {
											hasDot = true
										}
									}
								}
							}
						}
						return true
					})
					if hasDot && len(out.escaped) == 0 {
						out.escaped = chars
						okEsc = true
					}
				}
				return true
			})
		}
		return true
	})
	out.ok = okRules && okEsc && len(out.rules) > 0
	return out
}

// ---------- sourceaddrs facts ----------

func exprText(e ast.Expr) string {
	switch v := e.(type) {
	case *ast.Ident:
		return v.Name
	case *ast.SelectorExpr:
		return exprText(v.X) + "." + v.Sel.Name
	case *ast.IndexExpr:
		return exprText(v.X) + "[" + exprText(v.Index) + "]"
	case *ast.BasicLit:
		return v.Value
	}
	return "?"
}

// strings compared (== or !=) with an expression whose text is `lhs`, inside node n
func comparedStrings(n ast.Node, lhs string) []string {
	var out []string
	ast.Inspect(n, func(m ast.Node) bool {
		be, ok := m.(*ast.BinaryExpr)
		if !ok || (be.Op != token.EQL && be.Op != token.NEQ) {
			return true
		}
		for _, pair := range [][2]ast.Expr{{be.X, be.Y}, {be.Y, be.X}} {
			if exprText(pair[0]) == lhs {
				if bl, ok := pair[1].(*ast.BasicLit); ok && bl.Kind == token.STRING {
					if s, err := strconv.Unquote(bl.Value); err == nil {
						dup := false
						for _, o := range out {
							if o == s {
								dup = true
							}
						}
						if !dup {
							out = append(out, s)
						}
					}
				}
			}
		}
		return true
	})
	return out
}

// string literal second arguments of calls pkg.fn(x, "lit") inside n
func callStringArgs(n ast.Node, fn string) []string {
	var out []string
	ast.Inspect(n, func(m ast.Node) bool {
		ce, ok := m.(*ast.CallExpr)
		if !ok || len(ce.Args) != 2 {
			return true
		}
		if exprText(ce.Fun) != fn {
			return true
		}
		if bl, ok := ce.Args[1].(*ast.BasicLit); ok && bl.Kind == token.STRING {
			if s, err := strconv.Unquote(bl.Value); err == nil {
				dup := false
				for _, o := range out {
					if o == s {
						dup = true
					}
				}
				if !dup {
					out = append(out, s)
				}
			}
		}
		return true
	})
	return out
}

func findMethod(f *ast.File, recv, name string) *ast.FuncDecl {
	for _, d := range f.Decls {
		fd, ok := d.(*ast.FuncDecl)
		if !ok || fd.Name.Name != name {
			continue
		}
		if recv == "" && fd.Recv == nil {
			return fd
		}
		if fd.Recv != nil && len(fd.Recv.List) == 1 && exprText(fd.Recv.List[0].Type) == recv {
			return fd
		}
	}
	return nil
}

func leanStrList(xs []string) string {
	var q []string
	for _, x := range xs {
		q = append(q, leanStr(x))
	}
	return "[" + strings.Join(q, ", ") + "]"
}

func extractRemote(repo, out string) {
	ft, _ := parseFile(filepath.Join(repo, "sourceaddrs/source_remote_types.go"))
	fr, _ := parseFile(filepath.Join(repo, "sourceaddrs/source_remote.go"))
	p := filepath.Join(out, "Remote.lean")
	fail := func(why string) {
		fmt.Println("extract: remote facts not found:", why)
		if b, err := os.ReadFile(p); err == nil {
			writeIfChanged(p, strings.Replace(string(b), "def remoteExtracted : Bool := true", "def remoteExtracted : Bool := false", 1))
		}
	}
	if ft == nil || fr == nil {
		fail("files")
		return
	}
	var types []string
	ast.Inspect(ft, func(n ast.Node) bool {
		vs, ok := n.(*ast.ValueSpec)
		if !ok || len(vs.Names) != 1 || vs.Names[0].Name != "remoteSourceTypes" || len(vs.Values) != 1 {
			return true
		}
		if cl, ok := vs.Values[0].(*ast.CompositeLit); ok {
			for _, el := range cl.Elts {
				kv, ok := el.(*ast.KeyValueExpr)
				if !ok {
					continue
				}
				k, ok1 := kv.Key.(*ast.BasicLit)
				v, ok2 := kv.Value.(*ast.CompositeLit)
				if ok1 && ok2 {
					ks, _ := strconv.Unquote(k.Value)
					types = append(types, fmt.Sprintf("(%s, %s)", leanStr(ks), leanStr(exprText(v.Type))))
				}
			}
		}
		return true
	})
	git := findMethod(ft, "gitSourceType", "PrepareURL")
	http := findMethod(ft, "httpSourceType", "PrepareURL")
	mk := findMethod(fr, "", "MakeRemoteSource")
	if len(types) == 0 || git == nil || http == nil || mk == nil {
		fail("declarations")
		return
	}
	gitSchemes := comparedStrings(git, "u.Scheme")
	gitKeys := comparedStrings(git, "k")
	archVals := comparedStrings(http, "vs[0]")
	// the accepted archive values are those compared with != in the rejection test; keep literal order
	suffixes := callStringArgs(http, "strings.HasSuffix")
	prefixes := callStringArgs(fr, "strings.HasPrefix")
	checksUser := false
	ast.Inspect(mk, func(n ast.Node) bool {
		if be, ok := n.(*ast.BinaryExpr); ok && be.Op == token.NEQ && exprText(be.X) == "u.User" && exprText(be.Y) == "nil" {
			checksUser = true
		}
		return true
	})
	// does the constructor refuse a query that does not parse strictly (url.ParseQuery on u.RawQuery)?
	checksQuery := false
	ast.Inspect(mk, func(n ast.Node) bool {
		if c, ok := n.(*ast.CallExpr); ok && exprText(c.Fun) == "url.ParseQuery" && len(c.Args) == 1 && exprText(c.Args[0]) == "u.RawQuery" {
			checksQuery = true
		}
		return true
	})
	if len(gitSchemes) == 0 || len(gitKeys) == 0 || len(archVals) == 0 || len(suffixes) == 0 || len(prefixes) == 0 {
		fail("literals")
		return
	}
	content := fmt.Sprintf(`/-! GENERATED by harness/cmd/extract from /repo/sourceaddrs/*.go — do not edit.
Keys of `+"`remoteSourceTypes`"+` with their implementation type, the schemes and query arguments
named in the two `+"`PrepareURL`"+` methods, the shorthand host prefixes. -/
namespace Slug.Generated

def sourceTypes : List (String × String) := [%s]

def gitSchemes : List String := %s

def gitQueryKeys : List String := %s

def httpArchiveValues : List String := %s

def httpSuffixes : List String := %s

def shorthandPrefixes : List String := %s

def makeChecksUser : Bool := %v

def makeChecksQuery : Bool := %v

def remoteExtracted : Bool := true

end Slug.Generated
`, strings.Join(types, ", "), leanStrList(gitSchemes), leanStrList(gitKeys), leanStrList(archVals), leanStrList(suffixes), leanStrList(prefixes), checksUser, checksQuery)
	writeIfChanged(p, content)
}

// ---------- lock discipline of sourcebundle.Builder ----------

// For every method of Builder that touches one of the shared fields: is the first statement that
// mentions such a field preceded (in source order, within the method body) by a call b.mu.Lock()?
// lockedSelfOnly: the method counts as locked only because it locks itself somewhere (then a call
// placed before that Lock is not covered); methods held by their callers cover all of their body
func lockedSelfOnly(lockedSelf map[string]bool, firstLockOf map[string]token.Pos, m string) bool {
	return lockedSelf[m] && firstLockOf[m] != token.NoPos
}

func extractLocks(repo, out string) {
	f, _ := parseFile(filepath.Join(repo, "sourcebundle/builder.go"))
	p := filepath.Join(out, "Locks.lean")
	if f == nil {
		fmt.Println("extract: lock facts not found")
		return
	}
	shared := map[string]bool{"pendingRemote": true, "pendingRegistry": true, "analyzed": true, "remotePackageDirs": true,
		"remotePackageMeta": true, "resolvedRegistry": true, "packageVersionDeprecations": true, "registryPackageVersions": true}
	// methods documented to be called with the lock already held
	heldByCaller := map[string]bool{"findRegistryPackageSource": true, "ensureRemotePackage": true, "writeManifest": true}
	var facts []string
	var names []string
	lockedSelf := map[string]bool{}
	firstLockOf := map[string]token.Pos{}
	for _, d := range f.Decls {
		fd, ok := d.(*ast.FuncDecl)
		if !ok || fd.Recv == nil || fd.Body == nil || len(fd.Recv.List) != 1 {
			continue
		}
		if exprText(fd.Recv.List[0].Type) != "?" {
			// receiver (*Builder) prints as "?" for StarExpr in exprText; accept both spellings below
		}
		recvIsBuilder := false
		switch t := fd.Recv.List[0].Type.(type) {
		case *ast.StarExpr:
			recvIsBuilder = exprText(t.X) == "Builder"
		case *ast.Ident:
			recvIsBuilder = t.Name == "Builder"
		}
		if !recvIsBuilder {
			continue
		}
		firstAccess, firstLock := token.NoPos, token.NoPos
		ast.Inspect(fd.Body, func(n ast.Node) bool {
			switch v := n.(type) {
			case *ast.SelectorExpr:
				if id, ok := v.X.(*ast.Ident); ok && id.Name == "b" && shared[v.Sel.Name] {
					if firstAccess == token.NoPos || v.Pos() < firstAccess {
						firstAccess = v.Pos()
					}
				}
			case *ast.CallExpr:
				if exprText(v.Fun) == "b.mu.Lock" {
					if firstLock == token.NoPos || v.Pos() < firstLock {
						firstLock = v.Pos()
					}
				}
			}
			return true
		})
		if firstAccess == token.NoPos {
			continue
		}
		okLock := heldByCaller[fd.Name.Name] || (firstLock != token.NoPos && firstLock < firstAccess)
		names = append(names, fd.Name.Name)
		lockedSelf[fd.Name.Name] = okLock
		firstLockOf[fd.Name.Name] = firstLock
	}
	// A method that does not take the lock itself is fine when every call of it inside the package sits
	// in a Builder method after that method's own Lock(), or in a method that is itself only called with
	// the lock held (helpers extracted from resolvePending and the like).  Fixed point over the call sites.
	type site struct {
		caller string
		pos    token.Pos
	}
	calls := map[string][]site{}
	for _, d := range f.Decls {
		fd, ok := d.(*ast.FuncDecl)
		if !ok || fd.Body == nil {
			continue
		}
		ast.Inspect(fd.Body, func(n ast.Node) bool {
			if c, ok := n.(*ast.CallExpr); ok {
				if sel, ok := c.Fun.(*ast.SelectorExpr); ok {
					if id, ok := sel.X.(*ast.Ident); ok && id.Name == "b" {
						calls[sel.Sel.Name] = append(calls[sel.Sel.Name], site{fd.Name.Name, c.Pos()})
					}
				}
			}
			return true
		})
	}
	held := map[string]bool{}
	for k, v := range lockedSelf {
		held[k] = v
	}
	for changed := true; changed; {
		changed = false
		for _, nm := range names {
			if held[nm] || len(calls[nm]) == 0 {
				continue
			}
			all := true
			for _, st := range calls[nm] {
				fl, known := firstLockOf[st.caller]
				callerLocksBefore := known && fl != token.NoPos && fl < st.pos
				if !(callerLocksBefore || (held[st.caller] && !lockedSelfOnly(lockedSelf, firstLockOf, st.caller))) {
					all = false
				}
			}
			if all {
				held[nm] = true
				changed = true
			}
		}
	}
	for _, nm := range names {
		facts = append(facts, fmt.Sprintf("(%s, %v)", leanStr(nm), held[nm]))
	}
	// resolvePending (the queue-draining loop, which runs the fetcher, the registry client and the
	// dependency finders with b.mu held): number of b.mu.Lock() calls, and number of b.mu.Unlock() calls
	// that are not inside a deferred function — i.e. places where the lock is given up before the return
	rpLocks, rpEarlyUnlocks := -1, -1
	for _, d := range f.Decls {
		fd, ok := d.(*ast.FuncDecl)
		if !ok || fd.Recv == nil || fd.Body == nil || fd.Name.Name != "resolvePending" {
			continue
		}
		rpLocks, rpEarlyUnlocks = 0, 0
		deferred := map[ast.Node]bool{}
		ast.Inspect(fd.Body, func(n ast.Node) bool {
			if ds, ok := n.(*ast.DeferStmt); ok {
				deferred[ds.Call] = true
				if fl, ok := ds.Call.Fun.(*ast.FuncLit); ok {
					ast.Inspect(fl, func(m ast.Node) bool {
						if c, ok := m.(*ast.CallExpr); ok {
							deferred[c] = true
						}
						return true
					})
				}
			}
			return true
		})
		ast.Inspect(fd.Body, func(n ast.Node) bool {
			if c, ok := n.(*ast.CallExpr); ok {
				switch exprText(c.Fun) {
				case "b.mu.Lock":
					rpLocks++
				case "b.mu.Unlock":
					if !deferred[c] {
						rpEarlyUnlocks++
					}
				}
			}
			return true
		})
	}
	sort.Strings(facts)
	content := fmt.Sprintf(`/-! GENERATED by harness/cmd/extract from /repo/sourcebundle/builder.go — do not edit.
For every Builder method that touches the shared queues / memo tables: does a `+"`b.mu.Lock()`"+` precede
the first access in source order (methods documented as "called with b.mu held" count as locked)? -/
namespace Slug.Generated

def lockFacts : List (String × Bool) := [%s]

/-- `+"`resolvePending`"+`: (number of `+"`b.mu.Lock()`"+` calls, number of `+"`b.mu.Unlock()`"+` calls outside deferred
functions); (-1, -1) when the method was not found -/
def resolvePendingLockOps : Int × Int := (%d, %d)

end Slug.Generated
`, strings.Join(facts, ", "), rpLocks, rpEarlyUnlocks)
	writeIfChanged(p, content)
}


// ---------- constants and entry-type sets of Pack/Unpack ----------

func intLit(e ast.Expr) (int64, bool) {
	if bl, ok := e.(*ast.BasicLit); ok && bl.Kind == token.INT {
		v, err := strconv.ParseInt(bl.Value, 0, 64)
		return v, err == nil
	}
	return 0, false
}

// integer constants declared at package level in the given files (name -> value; literal values only)
func intConsts(files ...*ast.File) map[string]int64 {
	m := map[string]int64{}
	for _, f := range files {
		if f == nil {
			continue
		}
		for _, d := range f.Decls {
			gd, ok := d.(*ast.GenDecl)
			if !ok || (gd.Tok != token.CONST && gd.Tok != token.VAR) {
				continue
			}
			for _, sp := range gd.Specs {
				vs, ok := sp.(*ast.ValueSpec)
				if !ok {
					continue
				}
				for i, n := range vs.Names {
					if i < len(vs.Values) && gd.Tok == token.CONST {
						if v, ok := intLit(vs.Values[i]); ok {
							m[n.Name] = v
						}
					}
				}
			}
		}
	}
	return m
}

// knownConsts: named integer constants an argument may be spelled with instead of a literal
// (a literal moved into a constant is the same fact); filled by extractSlug
var knownConsts = map[string]int64{}

func intArg(e ast.Expr) (int64, bool) {
	if v, ok := intLit(e); ok {
		return v, true
	}
	switch x := e.(type) {
	case *ast.Ident:
		v, ok := knownConsts[x.Name]
		return v, ok
	case *ast.SelectorExpr:
		v, ok := knownConsts[x.Sel.Name]
		return v, ok
	case *ast.ParenExpr:
		return intArg(x.X)
	case *ast.CallExpr:
		// a conversion such as os.FileMode(0755)
		if len(x.Args) == 1 {
			return intArg(x.Args[0])
		}
	}
	return 0, false
}

// integer arguments (position argIdx; a literal or a named constant) of every call of fn inside function fnName of f
func callIntArgs(f *ast.File, inFunc, fn string, argIdx int) []int64 {
	var out []int64
	for _, d := range f.Decls {
		fd, ok := d.(*ast.FuncDecl)
		if !ok || fd.Body == nil || fd.Name.Name != inFunc {
			continue
		}
		ast.Inspect(fd.Body, func(n ast.Node) bool {
			if c, ok := n.(*ast.CallExpr); ok && exprText(c.Fun) == fn && len(c.Args) > argIdx {
				if v, ok := intArg(c.Args[argIdx]); ok {
					out = append(out, v)
				} else {
					out = append(out, -1) // an argument that is not a constant
				}
			}
			return true
		})
	}
	return out
}

// names X of selectors tar.X compared with i.Typeflag in method name of UnpackInfo
func typeflagNames(f *ast.File, method string) []string {
	var out []string
	for _, d := range f.Decls {
		fd, ok := d.(*ast.FuncDecl)
		if !ok || fd.Body == nil || fd.Recv == nil || fd.Name.Name != method {
			continue
		}
		ast.Inspect(fd.Body, func(n ast.Node) bool {
			switch x := n.(type) {
			case *ast.BinaryExpr:
				// i.Typeflag == tar.TypeX
				if x.Op == token.EQL {
					for _, side := range []ast.Expr{x.X, x.Y} {
						if t := exprText(side); strings.HasPrefix(t, "tar.Type") {
							out = append(out, strings.TrimPrefix(t, "tar."))
						}
					}
				}
			case *ast.CaseClause:
				// switch i.Typeflag { case tar.TypeX, tar.TypeY: return true }
				returnsTrue := false
				for _, st := range x.Body {
					if r, ok := st.(*ast.ReturnStmt); ok && len(r.Results) == 1 && exprText(r.Results[0]) == "true" {
						returnsTrue = true
					}
				}
				if returnsTrue {
					for _, e := range x.List {
						if t := exprText(e); strings.HasPrefix(t, "tar.Type") {
							out = append(out, strings.TrimPrefix(t, "tar."))
						}
					}
				}
			}
			return true
		})
	}
	return out
}

// previousDef returns the right-hand side of `def name : T := rhs` in an earlier version of a
// generated file ("" if absent)
func previousDef(old, name string) string {
	for _, line := range strings.Split(old, "\n") {
		if strings.HasPrefix(line, "def "+name+" ") {
			if i := strings.Index(line, ":= "); i >= 0 {
				return line[i+3:]
			}
		}
	}
	return ""
}

func int64List(xs []int64) string {
	var ss []string
	for _, x := range xs {
		ss = append(ss, strconv.FormatInt(x, 10))
	}
	return "[" + strings.Join(ss, ", ") + "]"
}

// errChecked reports, for the calls in f whose function text is fn (and, when arg0 != "", whose first
// argument is the identifier arg0): how many there are and whether every one of them has its error
// result tested at once and turned into a non-nil error return, in one of the two shapes
//   if err := CALL; err != nil { ...; return ..., <non-nil> }
//   ..., err := CALL  (or =)   followed directly by   if err != nil { ...; return ..., <non-nil> }
// A call used as a bare statement, deferred, or assigned to _ counts as unchecked.
func errChecked(f *ast.File, fn, arg0 string) (n int, all bool) {
	match := func(e ast.Expr) *ast.CallExpr {
		c, ok := e.(*ast.CallExpr)
		if !ok || exprText(c.Fun) != fn {
			return nil
		}
		if arg0 != "" && (len(c.Args) == 0 || exprText(c.Args[0]) != arg0) {
			return nil
		}
		return c
	}
	errTest := func(e ast.Expr) bool {
		b, ok := e.(*ast.BinaryExpr)
		return ok && b.Op == token.NEQ && exprText(b.X) == "err" && exprText(b.Y) == "nil"
	}
	returnsErr := func(b *ast.BlockStmt) bool {
		if b == nil || len(b.List) == 0 {
			return false
		}
		r, ok := b.List[len(b.List)-1].(*ast.ReturnStmt)
		if !ok || len(r.Results) == 0 {
			return false
		}
		return exprText(r.Results[len(r.Results)-1]) != "nil"
	}
	assignsErr := func(a *ast.AssignStmt) *ast.CallExpr {
		if len(a.Rhs) != 1 {
			return nil
		}
		c := match(a.Rhs[0])
		if c == nil {
			return nil
		}
		for _, l := range a.Lhs {
			if exprText(l) == "err" {
				return c
			}
		}
		return nil
	}
	checked := map[*ast.CallExpr]bool{}
	ast.Inspect(f, func(nd ast.Node) bool {
		switch x := nd.(type) {
		case *ast.IfStmt:
			if a, ok := x.Init.(*ast.AssignStmt); ok && errTest(x.Cond) && returnsErr(x.Body) {
				if c := assignsErr(a); c != nil {
					checked[c] = true
				}
			}
		case *ast.BlockStmt:
			for i := 0; i+1 < len(x.List); i++ {
				a, ok := x.List[i].(*ast.AssignStmt)
				if !ok {
					continue
				}
				c := assignsErr(a)
				if c == nil {
					continue
				}
				if nx, ok := x.List[i+1].(*ast.IfStmt); ok && nx.Init == nil && errTest(nx.Cond) && returnsErr(nx.Body) {
					checked[c] = true
				}
			}
		}
		return true
	})
	all = true
	ast.Inspect(f, func(nd ast.Node) bool {
		if e, ok := nd.(ast.Expr); ok {
			if c := match(e); c != nil {
				n++
				if !checked[c] {
					all = false
				}
			}
		}
		return true
	})
	return n, all && n > 0
}

func extractSlug(repo, out string) {
	p := filepath.Join(out, "Slug.lean")
	f, _ := parseFile(filepath.Join(repo, "slug.go"))
	u, _ := parseFile(filepath.Join(repo, "internal/unpackinfo/unpackinfo.go"))
	ok := f != nil && u != nil
	maxHops := int64(-1)
	if f != nil {
		for _, d := range f.Decls {
			gd, isGen := d.(*ast.GenDecl)
			if !isGen || gd.Tok != token.CONST {
				continue
			}
			for _, sp := range gd.Specs {
				vs := sp.(*ast.ValueSpec)
				for i, n := range vs.Names {
					if n.Name == "maxLinkHops" && i < len(vs.Values) {
						if v, isInt := intLit(vs.Values[i]); isInt {
							maxHops = v
						}
					}
				}
			}
		}
	}
	if maxHops < 0 {
		ok = false
	}
	if !ok {
		if b, err := os.ReadFile(p); err == nil {
			writeIfChanged(p, strings.Replace(string(b), "def slugExtracted : Bool := true", "def slugExtracted : Bool := false", 1))
		}
		fmt.Println("extract: slug facts not found")
		return
	}
	var checks []string
	checksFound := true
	for _, c := range [][2]string{{"tarW.WriteHeader", ""}, {"io.Copy", "tarW"}, {"tarW.Close", ""}, {"gzipW.Close", ""}} {
		n, all := errChecked(f, c[0], c[1])
		name := c[0]
		if c[1] != "" {
			name += "(" + c[1] + ")"
		}
		checks = append(checks, fmt.Sprintf("(%q, %d, %v)", name, n, all))
		if n == 0 {
			checksFound = false
		}
	}
	knownConsts = intConsts(f, u)
	mk := callIntArgs(f, "Unpack", "os.MkdirAll", 1)
	ch := callIntArgs(f, "Unpack", "os.Chmod", 1)
	// A fact that cannot be found in the shape the extractor knows (the source was restructured) keeps
	// its last value and is listed in slugNotExtracted: for that fact the run relies on the lanes alone.
	oldB, _ := os.ReadFile(p)
	var missing []string
	keep := func(name, val string, found bool) string {
		if found {
			return val
		}
		if prev := previousDef(string(oldB), name); prev != "" {
			missing = append(missing, name)
			return prev
		}
		return val
	}
	sym, dir := typeflagNames(u, "IsSymlink"), typeflagNames(u, "IsDirectory")
	reg, tx := typeflagNames(u, "IsRegular"), typeflagNames(u, "IsTypeX")
	vMk := keep("unpackMkdirAllModes", int64List(mk), len(mk) > 0)
	vCh := keep("unpackChmodModes", int64List(ch), len(ch) > 0)
	vSym := keep("symlinkFlags", leanStrList(sym), len(sym) > 0)
	vDir := keep("directoryFlags", leanStrList(dir), len(dir) > 0)
	vReg := keep("regularFlags", leanStrList(reg), len(reg) > 0)
	vTx := keep("typeXFlags", leanStrList(tx), len(tx) > 0)
	vChecks := keep("ioErrChecks", "["+strings.Join(checks, ", ")+"]", checksFound)
	content := fmt.Sprintf(`/-! GENERATED by harness/cmd/extract from /repo/slug.go and /repo/internal/unpackinfo/unpackinfo.go — do not edit.
The bound on followed link chains, the literal permission arguments of os.MkdirAll / os.Chmod inside
Packer.Unpack (source order), and the tar type flags each UnpackInfo predicate compares with. -/
namespace Slug.Generated

def maxLinkHops : Nat := %d

def unpackMkdirAllModes : List Nat := %s

def unpackChmodModes : List Nat := %s

def symlinkFlags : List String := %s

def directoryFlags : List String := %s

def regularFlags : List String := %s

def typeXFlags : List String := %s

/-- write-side operations of Pack: (call, number of call sites, every call
site has its error result tested at once and turned into a non-nil error return) -/
def ioErrChecks : List (String × Nat × Bool) := %s

def slugExtracted : Bool := true

/-- facts that were not found in the source in a shape the extractor knows on this run (they keep their
last value; the lanes are what ties them) -/
def slugNotExtracted : List String := %s

end Slug.Generated
`, maxHops, vMk, vCh, vSym, vDir, vReg, vTx, vChecks, leanStrList(missing))
	writeIfChanged(p, content)
}

// extractState writes Generated/State.lean: every package-level variable of the repository's packages
// (blank ones excepted) with the head of its type or initialiser.  The model treats Pack, Unpack, the
// ignore-rule and the address functions as functions of their arguments; process-level state that they
// could carry lives in package-level variables, so the list is pinned by a theorem (Props/C16s): a new
// cache or registry changes the list and the theorem no longer checks.
func extractState(repo, out string) {
	pkgs := []string{".", "internal/ignorefiles", "internal/unpackinfo", "sourceaddrs", "sourcebundle"}
	var rows []string
	for _, pk := range pkgs {
		files, _ := filepath.Glob(filepath.Join(repo, pk, "*.go"))
		sort.Strings(files)
		for _, fpath := range files {
			if strings.HasSuffix(fpath, "_test.go") {
				continue
			}
			f, _ := parseFile(fpath)
			if f == nil {
				continue
			}
			for _, d := range f.Decls {
				gd, ok := d.(*ast.GenDecl)
				if !ok || gd.Tok != token.VAR {
					continue
				}
				for _, sp := range gd.Specs {
					vs, ok := sp.(*ast.ValueSpec)
					if !ok {
						continue
					}
					for i, n := range vs.Names {
						if n.Name == "_" {
							continue
						}
						kind := ""
						if vs.Type != nil {
							kind = typeHead(vs.Type)
						} else if i < len(vs.Values) {
							kind = typeHead(vs.Values[i])
						}
						rows = append(rows, fmt.Sprintf("(%s, %s, %s)", leanStr(pk), leanStr(n.Name), leanStr(kind)))
					}
				}
			}
		}
	}
	sort.Strings(rows)
	content := fmt.Sprintf(`/-! GENERATED by harness/cmd/extract from every non-test .go file of /repo — do not edit.
Package-level variables (package, name, head of the declared type or of the initialiser). -/
namespace Slug.Generated

def packageVars : List (String × String × String) := [%s]

end Slug.Generated
`, strings.Join(rows, ", "))
	writeIfChanged(filepath.Join(out, "State.lean"), content)
}

// typeHead: a short description of a type expression or an initialiser
func typeHead(e ast.Expr) string {
	switch x := e.(type) {
	case *ast.Ident:
		return x.Name
	case *ast.SelectorExpr:
		return exprText(x)
	case *ast.StarExpr:
		return "*" + typeHead(x.X)
	case *ast.ArrayType:
		return "[]" + typeHead(x.Elt)
	case *ast.MapType:
		return "map"
	case *ast.CompositeLit:
		if x.Type != nil {
			return typeHead(x.Type)
		}
	case *ast.CallExpr:
		return typeHead(x.Fun) + "()"
	case *ast.UnaryExpr:
		return "&" + typeHead(x.X)
	case *ast.FuncLit:
		return "func"
	}
	return "?"
}

func writeIfChanged(path, content string) {
	old, err := os.ReadFile(path)
	if err == nil && string(old) == content {
		return
	}
	os.WriteFile(path, []byte(content), 0644)
}

func main() {
	repo := flag.String("repo", "/repo", "repository root")
	out := flag.String("out", "", "output directory (required)")
	flag.Parse()
	if *out == "" {
		fmt.Fprintln(os.Stderr, "extract: -out is required")
		os.Exit(2)
	}
	os.MkdirAll(*out, 0755)

	extractRemote(*repo, *out)
	extractLocks(*repo, *out)
	extractSlug(*repo, *out)
	extractState(*repo, *out)
	ig := extractIgnore(*repo)
	if ig.ok {
		var esc []string
		for _, c := range ig.escaped {
			esc = append(esc, leanChar(c))
		}
		_ = sort.Strings
		content := fmt.Sprintf(`/-! GENERATED by harness/cmd/extract from /repo/internal/ignorefiles/terraformignore.go — do not edit.
(val segments joined with '/', negated, negationsAfter) of `+"`defaultExclusions`"+`, and the set of
characters `+"`compile`"+` escapes with a backslash. -/
namespace Slug.Generated

def defaultRulesRaw : List (String × Bool × Bool) :=
  [%s]

def escapedChars : List Char := [%s]

def dotAll : Bool := %v

def extracted : Bool := true

end Slug.Generated
`, strings.Join(ig.rules, ", "), strings.Join(esc, ", "), ig.dotAll)
		writeIfChanged(filepath.Join(*out, "Ignore.lean"), content)
	} else {
		// keep the committed values, flag the failure
		p := filepath.Join(*out, "Ignore.lean")
		if b, err := os.ReadFile(p); err == nil {
			writeIfChanged(p, strings.Replace(string(b), "def extracted : Bool := true", "def extracted : Bool := false", 1))
		}
		fmt.Println("extract: ignore facts not found")
	}
}
