module github.com/hashicorp/go-slug/verifharness

go 1.20

require (
	github.com/apparentlymart/go-versions v1.0.1
	github.com/hashicorp/go-slug v0.0.0
	github.com/hashicorp/terraform-registry-address v0.2.0
)

require (
	github.com/hashicorp/terraform-svchost v0.0.1 // indirect
	golang.org/x/mod v0.10.0 // indirect
	golang.org/x/net v0.17.0 // indirect
	golang.org/x/text v0.13.0 // indirect
)

replace github.com/hashicorp/go-slug => /repo
